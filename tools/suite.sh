#!/bin/bash
# run the pinned suite on /repo; print failures only
export GOFLAGS=-mod=mod GOPROXY=off GOSUMDB=off GOTOOLCHAIN=local
cd /repo && go build ./... && go test -vet=off -count=1 ./... 2>&1 | grep -v "^ok\|no test files" ; echo "suite rc=${PIPESTATUS[0]}"
