#!/usr/bin/env python3
"""usage: addfixed.py <property> <commit> <harness> <key> <what> — append a 'fixed' entry to known_findings.json (run by hand, never by a check)."""
import json, sys
prop, commit, harness, key, what = sys.argv[1:6]
p = '/verif/known_findings.json'
k = json.load(open(p))
k['findings'].append({"property": prop, "harness": harness, "key": key, "region": "", "what": what,
                      "status": "fixed: property=%s %s %s" % (prop, commit, what)})
json.dump(k, open(p, 'w'), indent=1)
print(len(k['findings']))
