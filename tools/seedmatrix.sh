#!/bin/bash
# Run every seeded change against the quick (or given) tier of its property's check; write seeded/RESULTS.tsv
# usage: seedmatrix.sh [tier] [seed-name-regex]
tier=${1:-quick}; re=${2:-.}
cd /verif
out=seeded/RESULTS_$tier.tsv
[ "$re" = "." ] && : > $out
for d in seeded/C*-*; do
  name=$(basename $d); prop=${name%-*}
  echo "$name" | grep -Eq "$re" || continue
  patch=$d/patch.diff; [ -f $d/patch.rebased.diff ] && patch=$d/patch.rebased.diff
  s=$(date +%s)
  res=$(tools/seedtest.sh $patch $prop $tier 2>&1)
  e=$(date +%s)
  rc=$(echo "$res" | grep -o '^exit=[0-9]*' | head -1)
  viol=$(echo "$res" | grep '^VIOLATION' | sed 's/.*# //' | sort -u | head -3 | tr '\n' ';')
  [ -z "$rc" ] && rc="exit=? ($(echo "$res" | tail -1))"
  printf "%s\t%s\t%s\t%ss\t%s\n" "$name" "$(basename $patch)" "$rc" "$((e-s))" "$viol" | tee -a $out
done
