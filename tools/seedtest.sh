#!/bin/bash
# usage: seedtest.sh <patch.diff> <property> [tier]   — applies a seeded change to /repo, runs the check, reverts.
set -u
patch=$(realpath "$1"); prop=$2; tier=${3:-quick}
cd /repo || exit 2
if [ -n "$(git status --porcelain)" ]; then echo "repo not clean"; exit 2; fi
git apply "$patch" 2>/dev/null || git apply --3way "$patch" >/dev/null 2>&1 || { git reset -q --hard HEAD; echo "patch does not apply"; exit 2; }
cd /verif && bin/verif check "$prop" --tier "$tier" > /tmp/seedtest.out 2>&1
rc=$?
cd /repo && git reset -q --hard HEAD && git clean -fdq
echo "exit=$rc"; grep -E "^VIOLATION|^ENGINE-MISMATCH|^KNOWN-FINDING|^HARNESS-SKIPPED|^property" /tmp/seedtest.out | cut -c1-220
