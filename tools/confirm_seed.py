#!/usr/bin/env python3
"""Confirm a seeded defect in a scratch worktree and file it under /verif/seeded/<name>/.

usage: confirm_seed.py <seed_dir> <worktree> <property> <name>

Checks (all run here, not trusted from the author of the seed):
  1. patch applies to a clean worktree, builds, and the whole existing suite passes with it
  2. the demonstration fails with the patch
  3. the demonstration passes without the patch
"""
import json, os, re, shutil, subprocess, sys

ENV = dict(os.environ, GOFLAGS="-mod=mod", GOPROXY="off", GOSUMDB="off", GOTOOLCHAIN="local")
PKGDIR = {"py": "py", "vm": "vm", "compile": "compile", "parser": "parser", "symtable": "symtable", "stdlib": "stdlib",
          "repl": "repl", "builtin": "stdlib/builtin", "main": ".", "ast": "ast", "pytest": "pytest"}


def sh(cmd, cwd, timeout=900):
    r = subprocess.run(cmd, shell=True, cwd=cwd, env=ENV, capture_output=True, text=True, timeout=timeout)
    return r.returncode, r.stdout + r.stderr


def clean(wt):
    sh("git checkout -- . && git clean -fdq", wt)


def run_demo(seed, wt):
    """returns (ok, description) where ok means the demonstration PASSED"""
    gt = os.path.join(seed, "demo_test.go")
    py = os.path.join(seed, "demo.py")
    if os.path.exists(gt):
        src = open(gt).read()
        m = re.search(r"^package\s+(\w+)", src, re.M)
        pkg = m.group(1)
        base = pkg[:-5] if pkg.endswith("_test") else pkg
        d = PKGDIR.get(base, base)
        dst = os.path.join(wt, d, "zz_seed_demo_test.go")
        shutil.copy(gt, dst)
        tests = "|".join(re.findall(r"^func (Test\w+)\(", src, re.M))
        rc, out = sh(f"go test -vet=off -count=1 -run '^({tests})$' ./{d}", wt)
        os.remove(dst)
        return rc == 0, f"go test -run '^({tests})$' ./{d} -> rc={rc}: " + out.strip()[-400:]
    if os.path.exists(py):
        dst = os.path.join(wt, "zz_seed_demo.py")
        shutil.copy(py, dst)
        rc, out = sh("go run . zz_seed_demo.py", wt)
        os.remove(dst)
        exp = os.path.join(seed, "expected_output.txt")
        if not os.path.exists(exp):
            exp = os.path.join(seed, "expected.txt")
        if os.path.exists(exp):
            want = open(exp).read().strip()
            got = "\n".join(l for l in out.strip().split("\n") if not l.startswith("exit status"))
            ok = rc == 0 and got.strip() == want
            return ok, f"go run . demo.py -> rc={rc}, output {'==' if got.strip()==want else '!='} expected_output.txt: " + out.strip()[-300:]
        return rc == 0, f"go run . demo.py -> rc={rc}: " + out.strip()[-300:]
    return None, "no demonstration found"


def main():
    seed, wt, prop, name = sys.argv[1:5]
    res = {"property": prop, "name": name}
    clean(wt)
    rc, out = sh(f"git apply {seed}/patch.diff", wt)
    if rc != 0:
        print("patch does not apply:", out)
        return 1
    rc, out = sh("go build ./... && go test -vet=off -count=1 ./...", wt)
    res["suite_passes_with_patch"] = rc == 0
    if rc != 0:
        print("suite fails with patch:", out[-600:])
        clean(wt)
        return 1
    ok_with, d1 = run_demo(seed, wt)
    clean(wt)
    ok_without, d2 = run_demo(seed, wt)
    clean(wt)
    res["demo_with_patch"] = d1
    res["demo_without_patch"] = d2
    res["confirmed"] = (ok_with is False) and (ok_without is True)
    print(json.dumps(res, indent=1)[:1500])
    if not res["confirmed"]:
        return 1
    dst = os.path.join("/verif/seeded", name)
    os.makedirs(dst, exist_ok=True)
    for f in os.listdir(seed):
        if f in ("patch.diff", "demo.py", "demo_test.go", "expected_output.txt", "expected.txt", "README.md"):
            shutil.copy(os.path.join(seed, f), os.path.join(dst, f))
    readme = open(os.path.join(seed, "README.md")).read() if os.path.exists(os.path.join(seed, "README.md")) else ""
    needs = ""
    m = re.search(r"#+\s*What is needed[^\n]*\n(.*?)(\n#|\Z)", readme, re.S | re.I)
    if m:
        needs = m.group(1).strip()[:1200]
    meta = {"breaks_property": prop, "needs_to_manifest": needs or "see README.md",
            "confirmed_by": "tools/confirm_seed.py in scratch worktree " + wt,
            "ran": ["git apply patch.diff; go build ./... && go test -vet=off -count=1 ./...  -> pass", d1, "(patch reverted) " + d2],
            "detected_by": None}
    json.dump(meta, open(os.path.join(dst, "meta.json"), "w"), indent=1)
    return 0


sys.exit(main())
