#!/bin/bash
# run the quick (or given) tier of every claimed check; print one summary line each
tier=${1:-quick}
cd /verif
for id in $(python3 -c "import json;print(' '.join(c['property_id'] for c in json.load(open('MANIFEST.json'))['checks']))"); do
  s=$(date +%s)
  bin/verif check $id --tier $tier > /tmp/runall_$id.log 2>&1; rc=$?
  e=$(date +%s)
  echo "$id rc=$rc $((e-s))s $(grep -c '^VIOLATION' /tmp/runall_$id.log) viol $(grep -c '^KNOWN-FINDING' /tmp/runall_$id.log) known $(grep -c 'INCONCLUSIVE\|UNSUPPORTED\|VACUOUS\|HARNESS-SKIPPED\|ENGINE-MISMATCH' /tmp/runall_$id.log) notes"
done
