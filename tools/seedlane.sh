#!/bin/bash
# usage: seedlane.sh <lane-name> <tier> <seed>...   — runs the given seeds one after another against a scratch
# worktree of /repo's HEAD (never /repo itself): apply, run the property's check with VERIF_REPO=<worktree>, reset.
# Results: one line per seed appended to seeded/RESULTS_<tier>_<lane>.tsv; logs under /tmp/seedlane-<lane>/.
export GOFLAGS=-mod=mod GOPROXY=off GOSUMDB=off GOTOOLCHAIN=local
lane=$1; tier=$2; shift 2
wt=/tmp/seedwt-$lane; logs=/tmp/seedlane-$lane; mkdir -p $logs
git -C /repo worktree remove --force $wt 2>/dev/null; git -C /repo worktree add -q --detach $wt HEAD || exit 2
# a snapshot of the harness directory and of the binary, so that editing and rebuilding can go on while the lane runs
snap=/tmp/seedsnap-$lane; rm -rf $snap; mkdir -p $snap; cp -r /verif/harness $snap/harness; cp /verif/bin/verif $snap/verif
export VERIF_HARNESS=$snap/harness
cd /verif
for name in "$@"; do
  d=seeded/$name; prop=${name%-*}
  patch=$d/patch.diff; [ -f $d/patch.rebased.diff ] && patch=$d/patch.rebased.diff
  git -C $wt reset -q --hard HEAD; git -C $wt clean -fdq -e .verif_out
  if ! git -C $wt apply $(realpath $patch) 2>/dev/null && ! git -C $wt apply --3way $(realpath $patch) >/dev/null 2>&1; then
    printf "%s\t%s\texit=? (patch does not apply)\t0s\t\n" "$name" "$(basename $patch)" >> seeded/RESULTS_${tier}_$lane.tsv; continue
  fi
  s=$(date +%s)
  VERIF_REPO=$wt $snap/verif check $prop --tier $tier > $logs/$name.log 2>&1; rc=$?
  e=$(date +%s)
  viol=$(grep '^VIOLATION' $logs/$name.log | sed 's/.*# //' | sort -u | head -3 | tr '\n' ';')
  printf "%s\t%s\texit=%s\t%ss\t%s\n" "$name" "$(basename $patch)" "$rc" "$((e-s))" "$viol" >> seeded/RESULTS_${tier}_$lane.tsv
done
git -C /repo worktree remove --force $wt; rm -rf $snap
echo LANE-DONE >> seeded/RESULTS_${tier}_$lane.tsv
