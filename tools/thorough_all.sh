#!/bin/bash
# run the thorough tier of the given (or all claimed) checks one after the other; summary in /tmp/thorough_summary.txt
cd /verif
ids=${@:-$(python3 -c "import json;print(' '.join(c['property_id'] for c in json.load(open('MANIFEST.json'))['checks']))")}
for id in $ids; do
  s=$(date +%s)
  timeout 5400 bin/verif check $id --tier thorough > /tmp/thorough_$id.log 2>&1; rc=$?
  e=$(date +%s)
  cp evidence/$id.json /tmp/thorough_evidence_$id.json 2>/dev/null
  echo "$id rc=$rc $((e-s))s $(grep -c '^VIOLATION' /tmp/thorough_$id.log) viol $(grep -c '^KNOWN-FINDING' /tmp/thorough_$id.log) known $(grep -c 'ENGINE-MISMATCH' /tmp/thorough_$id.log) mismatch $(grep -c 'INCONCLUSIVE\|UNSUPPORTED' /tmp/thorough_$id.log) notes" | tee -a /tmp/thorough_summary.txt
done
