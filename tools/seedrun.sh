#!/bin/bash
# usage: seedrun.sh <patch.diff> <harness-regex> [tier] — applies a seeded change to /repo, runs the harnesses (no native replay), reverts.
set -u
patch=$(realpath "$1"); re=$2; tier=${3:-quick}
cd /repo || exit 2
if [ -n "$(git status --porcelain)" ]; then echo "repo not clean"; exit 2; fi
git apply "$patch" 2>/dev/null || git apply --3way "$patch" >/dev/null 2>&1 || { git reset -q --hard HEAD; echo "patch does not apply"; exit 2; }
cd /verif && bin/verif run "$re" -w 16 --tier "$tier" 2>&1 | cut -c1-400
cd /repo && git reset -q --hard HEAD && git clean -fdq
