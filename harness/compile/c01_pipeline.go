package compile

import (
	"strconv"

	"github.com/go-python/gpython/ast"
	"github.com/go-python/gpython/py"
	"github.com/go-python/gpython/symtable"
	"github.com/go-python/gpython/vm"
)

// C01 item 3 — code generation for the order-sensitive expression forms: the
// real symtable + compiler + assembler + VM are run on an AST whose shape is
// fixed by the bound while operator kinds and every truth value are symbolic;
// the evaluation log and the result are compared with a direct evaluator of
// the AST over token objects.

var c01Names = []string{"a", "b", "c", "d"}

func c01Name(i int) ast.Expr { return &ast.Name{Id: ast.Identifier(c01Names[i]), Ctx: ast.Load} }

// c01Run compiles the expression with the real pipeline and runs it on tokens.
func c01Run(e ast.Expr) (py.Object, error) {
	mod := &ast.Expression{Body: e}
	st, err := symtable.NewSymTable(mod, "<harness>")
	if err != nil {
		return nil, err
	}
	c := newCompiler(nil, compilerScopeModule)
	if err = c.compileAst(mod, "<harness>", 0, false, st); err != nil {
		return nil, err
	}
	globals := py.StringDict{}
	for i, n := range c01Names {
		globals[n] = &vm.VTok{ID: i}
	}
	builtins := py.StringDict{}
	frame := &py.Frame{Context: vm.VNewCtx(builtins), Code: c.Code, Globals: globals, Locals: globals, Builtins: builtins, Stack: make([]py.Object, 0, c.Code.Stacksize)}
	return vm.RunFrame(frame)
}

// the direct evaluator
type c01Oracle struct {
	log  []string
	next int
	env  map[string]string // parameters of the lambda being evaluated
}

func (o *c01Oracle) evalList(es []ast.Expr) string {
	s := ""
	for _, e := range es {
		s += o.eval(e) + ","
	}
	return s
}

// c01Deep renders a result that may be a display of tokens
func c01Deep(v py.Object) string {
	switch x := v.(type) {
	case py.Tuple:
		s := "("
		for _, e := range x {
			s += c01Deep(e) + ","
		}
		return s + ")"
	case *py.List:
		s := "["
		for _, e := range x.Items {
			s += c01Deep(e) + ","
		}
		return s + "]"
	case py.StringDict:
		// keys k1 < k2 < ...: rendered in that order
		s := "{"
		for _, k := range []string{"k1", "k2", "k3"} {
			if e, ok := x[k]; ok {
				s += k + ":" + c01Deep(e) + ","
			}
		}
		return s + "}"
	}
	return vm.VName(v)
}

func (o *c01Oracle) fresh() string {
	o.next++
	return "t" + strconv.Itoa(o.next)
}

func (o *c01Oracle) truth(x string) bool {
	if x == "True" {
		return true
	}
	if x == "False" {
		return false
	}
	o.log = append(o.log, "bool("+x+")")
	return verifTruthOf("truth" + strconv.Itoa(len(o.log)))
}

var c01BinName = map[ast.OperatorNumber]string{ast.Add: "add", ast.Sub: "sub", ast.Mult: "mul", ast.Div: "truediv", ast.Modulo: "mod",
	ast.Pow: "pow", ast.LShift: "lshift", ast.RShift: "rshift", ast.BitOr: "or", ast.BitXor: "xor", ast.BitAnd: "and", ast.FloorDiv: "floordiv"}
var c01CmpName = map[ast.CmpOp]string{ast.Eq: "eq", ast.NotEq: "ne", ast.Lt: "lt", ast.LtE: "le", ast.Gt: "gt", ast.GtE: "ge"}

func (o *c01Oracle) eval(e ast.Expr) string {
	switch x := e.(type) {
	case *ast.Name:
		if v, ok := o.env[string(x.Id)]; ok {
			return v
		}
		for i, n := range c01Names {
			if string(x.Id) == n {
				return "t" + strconv.Itoa(i)
			}
		}
	case *ast.BinOp:
		l := o.eval(x.Left)
		r := o.eval(x.Right)
		o.log = append(o.log, c01BinName[x.Op]+"("+l+","+r+")")
		return o.fresh()
	case *ast.UnaryOp:
		v := o.eval(x.Operand)
		switch x.Op {
		case ast.Not:
			if o.truth(v) {
				return "False"
			}
			return "True"
		case ast.USub:
			o.log = append(o.log, "neg("+v+")")
		case ast.UAdd:
			o.log = append(o.log, "pos("+v+")")
		default:
			o.log = append(o.log, "invert("+v+")")
		}
		return o.fresh()
	case *ast.BoolOp:
		for i, ve := range x.Values {
			v := o.eval(ve)
			if i == len(x.Values)-1 {
				return v
			}
			t := o.truth(v)
			if (x.Op == ast.And) != t {
				return v
			}
		}
	case *ast.IfExp:
		if o.truth(o.eval(x.Test)) {
			return o.eval(x.Body)
		}
		return o.eval(x.Orelse)
	case *ast.Num:
		return "i" + strconv.Itoa(int(x.N.(py.Int)))
	case *ast.Str:
		return "s:" + string(x.S)
	case *ast.Tuple:
		return "(" + o.evalList(x.Elts) + ")"
	case *ast.List:
		return "[" + o.evalList(x.Elts) + "]"
	case *ast.Dict:
		// keys are string constants; the values are evaluated left to right
		s := "{"
		for i, k := range x.Keys {
			s += string(k.(*ast.Str).S) + ":" + o.eval(x.Values[i]) + ","
		}
		return s + "}"
	case *ast.Subscript:
		v := o.eval(x.Value)
		k := o.eval(x.Slice.(*ast.Index).Value)
		o.log = append(o.log, "getitem("+v+","+k+")")
		return o.fresh()
	case *ast.Attribute:
		v := o.eval(x.Value)
		o.log = append(o.log, "getattr("+v+",s:"+string(x.Attr)+")")
		return o.fresh()
	case *ast.Call:
		// the callee, then the positional arguments, the keyword values and the star argument,
		// each once and in that order; then the call
		var lam *ast.Lambda
		var f string
		if l, ok := x.Func.(*ast.Lambda); ok {
			lam = l
		} else {
			f = o.eval(x.Func)
		}
		var pos []string
		for _, a := range x.Args {
			pos = append(pos, o.eval(a))
		}
		kw := map[string]string{}
		for _, k := range x.Keywords {
			kw[string(k.Arg)] = o.eval(k.Value)
		}
		if x.Starargs != nil {
			for _, a := range x.Starargs.(*ast.Tuple).Elts {
				pos = append(pos, o.eval(a))
			}
		}
		if lam == nil {
			e := "call(" + f + ",i" + strconv.Itoa(len(pos)) + ",i" + strconv.Itoa(len(kw))
			for _, a := range pos {
				if a != "" && (a[0] == '(' || a[0] == '[' || a[0] == '{') {
					a = "?" // the tokens' call log does not look into containers
				}
				e += "," + a
			}
			o.log = append(o.log, e+")")
			return o.fresh()
		}
		// a lambda: bind the parameters (positionally, then by keyword), evaluate the body
		saved := o.env
		env := map[string]string{}
		for i, p := range lam.Args.Args {
			if i < len(pos) {
				env[string(p.Arg)] = pos[i]
			} else {
				env[string(p.Arg)] = kw[string(p.Arg)]
			}
		}
		o.env = env
		r := o.eval(lam.Body)
		o.env = saved
		return r
	case *ast.Compare:
		left := o.eval(x.Left)
		for i, op := range x.Ops {
			right := o.eval(x.Comparators[i])
			var res string
			switch op {
			case ast.Is:
				res = "False"
				if left == right {
					res = "True"
				}
			case ast.IsNot:
				res = "True"
				if left == right {
					res = "False"
				}
			case ast.In, ast.NotIn:
				o.log = append(o.log, "contains("+right+","+left+")")
				t := verifTruthOf("truth" + strconv.Itoa(len(o.log)))
				res = "False"
				if t == (op == ast.In) {
					res = "True"
				}
			default:
				o.log = append(o.log, c01CmpName[op]+"("+left+","+right+")")
				res = o.fresh()
			}
			if i == len(x.Ops)-1 {
				return res
			}
			if !o.truth(res) {
				return res
			}
			left = right
		}
	}
	return "?"
}

func c01Check(e ast.Expr) {
	vm.VReset(1)
	got, err := c01Run(e)
	verifReach("ran")
	verifAssert(err == nil, "compiles and runs without error")
	o := &c01Oracle{next: 100}
	want := o.eval(e)
	log := vm.VLog()
	verifAssert(len(log) == len(o.log), "each sub-expression is evaluated exactly once (number of operations)")
	for i := range o.log {
		verifAssert(log[i] == o.log[i], "operations happen in Python's order with Python's operands")
	}
	verifAssert(c01Deep(got) == want, "the value of the expression")
}

var c01BinOps = []ast.OperatorNumber{ast.Add, ast.Sub, ast.Mult, ast.Div, ast.Modulo, ast.Pow, ast.LShift, ast.RShift, ast.BitOr, ast.BitXor, ast.BitAnd, ast.FloorDiv}
var c01CmpOps = []ast.CmpOp{ast.Eq, ast.NotEq, ast.Lt, ast.LtE, ast.Gt, ast.GtE, ast.Is, ast.IsNot, ast.In, ast.NotIn}

//verif:property C01
//verif:runinit github.com/go-python/gpython/vm.init#2
//verif:expect ran
func VerifC01PipeBinOp() {
	op1 := c01BinOps[verifChoice("op1", len(c01BinOps))]
	op2 := c01BinOps[verifChoice("op2", len(c01BinOps))]
	var e ast.Expr
	if verifChoice("shape", 2) == 0 {
		e = &ast.BinOp{Left: &ast.BinOp{Left: c01Name(0), Op: op1, Right: c01Name(1)}, Op: op2, Right: c01Name(2)}
	} else {
		e = &ast.BinOp{Left: c01Name(0), Op: op1, Right: &ast.BinOp{Left: c01Name(1), Op: op2, Right: c01Name(2)}}
	}
	c01Check(e)
}

//verif:property C01
//verif:runinit github.com/go-python/gpython/vm.init#2
//verif:expect ran
func VerifC01PipeBoolOp() {
	op := ast.And
	if verifChoice("or", 2) == 1 {
		op = ast.Or
	}
	var e ast.Expr = &ast.BoolOp{Op: op, Values: []ast.Expr{c01Name(0), c01Name(1), c01Name(2)}}
	switch verifChoice("shape", 3) {
	case 1: // mixed: a op (b op' c) written as nested BoolOp
		op2 := ast.And
		if op == ast.And {
			op2 = ast.Or
		}
		e = &ast.BoolOp{Op: op, Values: []ast.Expr{c01Name(0), &ast.BoolOp{Op: op2, Values: []ast.Expr{c01Name(1), c01Name(2)}}, c01Name(3)}}
	case 2: // operands that are themselves operations
		e = &ast.BoolOp{Op: op, Values: []ast.Expr{&ast.BinOp{Left: c01Name(0), Op: ast.Add, Right: c01Name(1)}, &ast.UnaryOp{Op: ast.Not, Operand: c01Name(2)}, c01Name(3)}}
	}
	c01Check(e)
}

//verif:property C01
//verif:runinit github.com/go-python/gpython/vm.init#2
//verif:expect ran
func VerifC01PipeCompare() {
	op1 := c01CmpOps[verifChoice("op1", len(c01CmpOps))]
	op2 := c01CmpOps[verifChoice("op2", len(c01CmpOps))]
	var e ast.Expr
	switch verifChoice("shape", 4) {
	case 0:
		e = &ast.Compare{Left: c01Name(0), Ops: []ast.CmpOp{op1}, Comparators: []ast.Expr{c01Name(1)}}
	case 1: // chain a op1 b op2 c : b evaluated once
		e = &ast.Compare{Left: c01Name(0), Ops: []ast.CmpOp{op1, op2}, Comparators: []ast.Expr{c01Name(1), c01Name(2)}}
	case 2: // chain whose middle operand is an operation
		e = &ast.Compare{Left: c01Name(0), Ops: []ast.CmpOp{op1, op2}, Comparators: []ast.Expr{&ast.BinOp{Left: c01Name(1), Op: ast.Add, Right: c01Name(3)}, c01Name(2)}}
	default: // not (chain)
		e = &ast.UnaryOp{Op: ast.Not, Operand: &ast.Compare{Left: c01Name(0), Ops: []ast.CmpOp{op1, op2}, Comparators: []ast.Expr{c01Name(1), c01Name(2)}}}
	}
	c01Check(e)
}

//verif:property C01
//verif:runinit github.com/go-python/gpython/vm.init#2
//verif:expect ran
func VerifC01PipeThreeChain() {
	op1 := c01CmpOps[verifChoice("op1", len(c01CmpOps))]
	op2 := c01CmpOps[verifChoice("op2", len(c01CmpOps))]
	op3 := c01CmpOps[verifChoice("op3", len(c01CmpOps))]
	verifAssume(verifBound(0, 1) == 1 || op3 == ast.Lt) // quick: last operator fixed
	e := &ast.Compare{Left: c01Name(0), Ops: []ast.CmpOp{op1, op2, op3}, Comparators: []ast.Expr{c01Name(1), c01Name(2), c01Name(3)}}
	c01Check(e)
}

//verif:property C01
//verif:runinit github.com/go-python/gpython/vm.init#2
//verif:expect ran
func VerifC01PipeIfExpUnary() {
	var e ast.Expr
	switch verifChoice("shape", 4) {
	case 0:
		e = &ast.IfExp{Test: c01Name(0), Body: c01Name(1), Orelse: c01Name(2)}
	case 1:
		e = &ast.IfExp{Test: &ast.Compare{Left: c01Name(0), Ops: []ast.CmpOp{ast.Lt}, Comparators: []ast.Expr{c01Name(1)}},
			Body: &ast.BinOp{Left: c01Name(1), Op: ast.Sub, Right: c01Name(2)}, Orelse: &ast.IfExp{Test: c01Name(2), Body: c01Name(3), Orelse: c01Name(0)}}
	case 2:
		uop := []ast.UnaryOpNumber{ast.Invert, ast.Not, ast.UAdd, ast.USub}[verifChoice("uop", 4)]
		e = &ast.UnaryOp{Op: uop, Operand: &ast.BinOp{Left: c01Name(0), Op: ast.Pow, Right: c01Name(1)}}
	default:
		// (not a) would hand a real bool to the token's reflected method: not part of this shape
		uop := []ast.UnaryOpNumber{ast.Invert, ast.UAdd, ast.USub}[verifChoice("uop", 3)]
		e = &ast.BinOp{Left: &ast.UnaryOp{Op: uop, Operand: c01Name(0)}, Op: ast.Pow, Right: &ast.UnaryOp{Op: ast.USub, Operand: c01Name(1)}}
	}
	c01Check(e)
}

// constants keep their value AND type through the constant pool
//
//verif:property C01
//verif:runinit github.com/go-python/gpython/vm.init#2
//verif:expect ran
func VerifC01PipeConstants() {
	consts := []py.Object{py.Int(1), py.Float(1), py.Bool(true), py.Int(0), py.Float(0), py.Bool(false), py.String("1")}
	i := verifChoice("i", len(consts))
	j := verifChoice("j", len(consts))
	mk := func(o py.Object) ast.Expr {
		switch x := o.(type) {
		case py.Bool:
			return &ast.NameConstant{Value: x}
		case py.String:
			return &ast.Str{S: x}
		}
		return &ast.Num{N: o}
	}
	var e ast.Expr
	nested := verifChoice("nested", 2) == 1
	if nested {
		// two separate constant tuples inside a (non-constant) list display
		e = &ast.List{Elts: []ast.Expr{&ast.Tuple{Elts: []ast.Expr{mk(consts[i]), mk(consts[0])}, Ctx: ast.Load}, &ast.Tuple{Elts: []ast.Expr{mk(consts[j]), mk(consts[1])}, Ctx: ast.Load}}, Ctx: ast.Load}
	} else {
		e = &ast.Tuple{Elts: []ast.Expr{mk(consts[i]), mk(consts[j])}, Ctx: ast.Load}
	}
	vm.VReset(1)
	got, err := c01Run(e)
	verifReach("ran")
	verifAssert(err == nil, "compiles and runs without error")
	var t []py.Object
	if l, isList := got.(*py.List); isList {
		t = l.Items
	} else if tt, isTuple := got.(py.Tuple); isTuple {
		t = tt
	}
	verifAssert(len(t) == 2, "a pair")
	if nested {
		t0, ok0 := t[0].(py.Tuple)
		t1, ok1 := t[1].(py.Tuple)
		verifAssert(ok0 && ok1 && len(t0) == 2 && len(t1) == 2, "pairs of pairs")
		verifAssert(t0[0] == consts[i] && t0[1] == consts[0], "first constant tuple has its own elements (value and type)")
		verifAssert(t1[0] == consts[j] && t1[1] == consts[1], "second constant tuple has its own elements (value and type)")
	} else {
		verifAssert(t[0] == consts[i] && t[1] == consts[j], "each constant keeps its value and type")
	}
}

// ---- assignments -----------------------------------------------------------

func c01RunStmts(body []ast.Stmt) error {
	mod := &ast.Module{Body: body}
	st, err := symtable.NewSymTable(mod, "<harness>")
	if err != nil {
		return err
	}
	c := newCompiler(nil, compilerScopeModule)
	if err = c.compileAst(mod, "<harness>", 0, false, st); err != nil {
		return err
	}
	globals := py.StringDict{}
	for i, n := range c01Names {
		globals[n] = &vm.VTok{ID: i}
	}
	frame := &py.Frame{Code: c.Code, Globals: globals, Locals: globals, Builtins: py.StringDict{}, Stack: make([]py.Object, 0, c.Code.Stacksize)}
	_, err = vm.RunFrame(frame)
	return err
}

// store v into target (oracle): sub-expressions of the target left to right, then the store
func (o *c01Oracle) store(t ast.Expr, v string) {
	switch x := t.(type) {
	case *ast.Subscript:
		obj := o.eval(x.Value)
		idx := o.eval(x.Slice.(*ast.Index).Value)
		o.log = append(o.log, "setitem("+obj+","+idx+","+v+")")
		o.fresh()
	case *ast.Attribute:
		obj := o.eval(x.Value)
		o.log = append(o.log, "setattr("+obj+",s:"+string(x.Attr)+","+v+")")
		o.fresh()
	}
}

var c01AugName = map[ast.OperatorNumber]string{ast.Add: "iadd", ast.Sub: "isub", ast.Mult: "imul", ast.Div: "itruediv", ast.Modulo: "imod",
	ast.Pow: "ipow", ast.LShift: "ilshift", ast.RShift: "irshift", ast.BitOr: "ior", ast.BitXor: "ixor", ast.BitAnd: "iand", ast.FloorDiv: "ifloordiv"}

func (o *c01Oracle) stmt(s ast.Stmt) {
	switch x := s.(type) {
	case *ast.Assign:
		v := o.eval(x.Value) // right-hand side first
		for _, t := range x.Targets {
			o.store(t, v) // then the targets left to right
		}
	case *ast.AugAssign:
		switch t := x.Target.(type) {
		case *ast.Subscript:
			obj := o.eval(t.Value)
			idx := o.eval(t.Slice.(*ast.Index).Value)
			o.log = append(o.log, "getitem("+obj+","+idx+")")
			cur := o.fresh()
			rhs := o.eval(x.Value)
			o.log = append(o.log, c01AugName[x.Op]+"("+cur+","+rhs+")")
			res := o.fresh()
			o.log = append(o.log, "setitem("+obj+","+idx+","+res+")")
			o.fresh()
		case *ast.Attribute:
			obj := o.eval(t.Value)
			o.log = append(o.log, "getattr("+obj+",s:"+string(t.Attr)+")")
			cur := o.fresh()
			rhs := o.eval(x.Value)
			o.log = append(o.log, c01AugName[x.Op]+"("+cur+","+rhs+")")
			res := o.fresh()
			o.log = append(o.log, "setattr("+obj+",s:"+string(t.Attr)+","+res+")")
			o.fresh()
		}
	}
}

func c01Sub(obj, idx ast.Expr, ctx ast.ExprContext) ast.Expr {
	return &ast.Subscript{Value: obj, Slice: &ast.Index{Value: idx}, Ctx: ctx}
}
func c01Attr(obj ast.Expr, name string, ctx ast.ExprContext) ast.Expr {
	return &ast.Attribute{Value: obj, Attr: ast.Identifier(name), Ctx: ctx}
}

//verif:property C01
//verif:runinit github.com/go-python/gpython/vm.init#2
//verif:expect ran
func VerifC01PipeAssign() {
	op := c01BinOps[verifChoice("op", len(c01BinOps))]
	rhs := &ast.BinOp{Left: c01Name(2), Op: op, Right: c01Name(3)}
	var s ast.Stmt
	switch verifChoice("shape", 6) {
	case 0: // a[b] = c op d
		s = &ast.Assign{Targets: []ast.Expr{c01Sub(c01Name(0), c01Name(1), ast.Store)}, Value: rhs}
	case 1: // a.x = c op d
		s = &ast.Assign{Targets: []ast.Expr{c01Attr(c01Name(0), "x", ast.Store)}, Value: rhs}
	case 2: // a[b] = c.x = d op' ...   two targets
		s = &ast.Assign{Targets: []ast.Expr{c01Sub(c01Name(0), c01Name(1), ast.Store), c01Attr(c01Name(2), "x", ast.Store)}, Value: rhs}
	case 3: // a[b op c] = d  : target sub-expression is an operation
		s = &ast.Assign{Targets: []ast.Expr{c01Sub(c01Name(0), &ast.BinOp{Left: c01Name(1), Op: op, Right: c01Name(2)}, ast.Store)}, Value: c01Name(3)}
	case 4: // a[b] op= c
		s = &ast.AugAssign{Target: c01Sub(c01Name(0), c01Name(1), ast.Store), Op: op, Value: c01Name(2)}
	default: // a.x op= c op d
		s = &ast.AugAssign{Target: c01Attr(c01Name(0), "x", ast.Store), Op: op, Value: rhs}
	}
	vm.VReset(1)
	err := c01RunStmts([]ast.Stmt{s})
	verifReach("ran")
	verifAssert(err == nil, "compiles and runs without error")
	o := &c01Oracle{next: 100}
	o.stmt(s)
	log := vm.VLog()
	verifAssert(len(log) == len(o.log), "each sub-expression is evaluated exactly once (number of operations)")
	for i := range o.log {
		verifAssert(log[i] == o.log[i], "right-hand side first, then target sub-expressions left to right, each once")
	}
}

// calls, subscripts, attributes, displays and lambdas: every operand is a
// unary operation on a token (so that its evaluation is logged); the shapes are
// symbolic choices, the unary operators too.
//
//verif:property C01
//verif:runinit github.com/go-python/gpython/vm.init#1 github.com/go-python/gpython/vm.init#2
//verif:expect ran
//verif:maxpaths 20000 200000
func VerifC01PipeCallsDisplays() {
	uops := []ast.UnaryOpNumber{ast.USub, ast.UAdd, ast.Invert}
	u := func(i int, name string) ast.Expr {
		return &ast.UnaryOp{Op: uops[verifChoice(name, verifBound(2, 3))], Operand: c01Name(i)}
	}
	A, B, C := u(0, "ua"), u(1, "ub"), u(2, "uc")
	f := c01Name(3)
	str := func(s string) ast.Expr { return &ast.Str{S: py.String(s)} }
	tuple := func(es ...ast.Expr) ast.Expr { return &ast.Tuple{Elts: es, Ctx: ast.Load} }
	lam := func(body ast.Expr, params ...string) *ast.Lambda {
		args := &ast.Arguments{}
		for _, p := range params {
			args.Args = append(args.Args, &ast.Arg{Arg: ast.Identifier(p)})
		}
		return &ast.Lambda{Args: args, Body: body}
	}
	x, y := &ast.Name{Id: "x", Ctx: ast.Load}, &ast.Name{Id: "y", Ctx: ast.Load}
	var e ast.Expr
	switch verifChoice("shape", 12) {
	case 0:
		e = &ast.Call{Func: f, Args: []ast.Expr{A, B, C}}
	case 1:
		e = &ast.Call{Func: f, Args: []ast.Expr{A}, Starargs: tuple(B, C)}
	case 2:
		e = &ast.Call{Func: f, Args: []ast.Expr{&ast.Call{Func: f, Args: []ast.Expr{A}}, B}}
	case 3:
		e = &ast.Subscript{Value: A, Slice: &ast.Index{Value: B}, Ctx: ast.Load}
	case 4:
		e = &ast.Attribute{Value: &ast.Subscript{Value: A, Slice: &ast.Index{Value: B}, Ctx: ast.Load}, Attr: "attr", Ctx: ast.Load}
	case 5:
		e = tuple(A, B, C)
	case 6:
		e = &ast.List{Elts: []ast.Expr{A, tuple(B), C}, Ctx: ast.Load}
	case 7:
		e = &ast.Dict{Keys: []ast.Expr{str("k1"), str("k2"), str("k3")}, Values: []ast.Expr{A, B, C}}
	case 8:
		// (lambda x, y: x - y)(A, B): positional binding, then the body
		e = &ast.Call{Func: lam(&ast.BinOp{Left: x, Op: ast.Sub, Right: y}, "x", "y"), Args: []ast.Expr{A, B}}
	case 9:
		// (lambda x, y: x - y)(A, y=B) and (lambda x, y: x - y)(y=A, x=B)
		if verifChoice("kwboth", 2) == 0 {
			e = &ast.Call{Func: lam(&ast.BinOp{Left: x, Op: ast.Sub, Right: y}, "x", "y"), Args: []ast.Expr{A}, Keywords: []*ast.Keyword{{Arg: "y", Value: B}}}
		} else {
			e = &ast.Call{Func: lam(&ast.BinOp{Left: x, Op: ast.Sub, Right: y}, "x", "y"), Keywords: []*ast.Keyword{{Arg: "y", Value: A}, {Arg: "x", Value: B}}}
		}
	case 10:
		// a conditional whose branches are calls
		e = &ast.IfExp{Test: A, Body: &ast.Call{Func: f, Args: []ast.Expr{B}}, Orelse: &ast.Call{Func: f, Args: []ast.Expr{C}}}
	default:
		// a display inside a call inside a subscript: f((A, B))[C]
		e = &ast.Subscript{Value: &ast.Call{Func: f, Args: []ast.Expr{tuple(A, B)}}, Slice: &ast.Index{Value: C}, Ctx: ast.Load}
	}
	c01Check(e)
}
