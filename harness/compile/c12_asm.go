package compile

import (
	"github.com/go-python/gpython/py"
	"github.com/go-python/gpython/vm"
)

// C12 items 2-3, C11 item 2, C02 item 3: operand encoding, jump resolution
// and the line table, on symbolic operands / instruction sizes / line numbers.

// vGap stands for a run of ordinary instructions of arbitrary total size.
type vGap struct {
	pos
	size uint32
}

func (g *vGap) Size() uint32     { return g.size }
func (g *vGap) Output() []byte   { return nil }
func (g *vGap) StackEffect() int { return 0 }

//verif:property C12
//verif:expect decoded
func VerifC12OpArgRoundTrip() {
	arg := uint32(verifInt64("arg"))
	verifAssume(arg <= 0x7fffffff) // operands are int32 in the VM
	o := &OpArg{Op: vm.LOAD_CONST, Arg: arg}
	out := o.Output()
	verifAssert(uint32(len(out)) == o.Size(), "Size() is the length of Output()")
	// a second instruction follows so that a mis-sized first one is noticed
	o2 := &OpArg{Op: vm.LOAD_FAST, Arg: 7}
	code := string(out) + string(o2.Output())
	ops, args := vm.VerifDecode(code, 2)
	verifReach("decoded")
	verifAssert(len(ops) == 2, "two instructions decoded")
	verifAssert(ops[0] == vm.LOAD_CONST && uint32(args[0]) == arg, "the VM decodes the operand the compiler encoded")
	verifAssert(ops[1] == vm.LOAD_FAST && args[1] == 7, "the following instruction is decoded at the right offset")
}

func c12Gap(name string) *vGap {
	g := uint32(verifInt64(name))
	verifAssume(g < 1<<17)
	return &vGap{size: g}
}

func c12CheckJumps(is Instructions, rel []*JumpRel, abs []*JumpAbs) {
	for _, j := range rel {
		verifAssert(j.Dest.Pos() >= j.Pos()+j.Size(), "relative jump target lies after the jump")
		verifAssert(j.OpArg.Arg == j.Dest.Pos()-(j.Pos()+j.Size()), "relative jump operand is target minus end of the jump")
	}
	for _, j := range abs {
		verifAssert(j.OpArg.Arg == j.Dest.Pos(), "absolute jump operand is the target position")
	}
	// positions are consistent: each instruction starts where the previous one ends
	addr := uint32(0)
	for _, in := range is {
		verifAssert(in.Pos() == addr, "instruction positions are cumulative sizes")
		addr += in.Size()
	}
}

// forward jumps over gaps, nested:  J1 -> L1, J2 -> L2 with  J1 [g1] J2 [g2] L2 [g3] L1
//
//verif:property C12 C11
//verif:expect assembled
func VerifC12AssembleNested() {
	l1, l2 := &Label{}, &Label{}
	j1 := &JumpRel{OpArg: OpArg{Op: vm.SETUP_LOOP}, Dest: l1}
	j2 := &JumpRel{OpArg: OpArg{Op: vm.JUMP_FORWARD}, Dest: l2}
	back := &Label{}
	ja := &JumpAbs{OpArg: OpArg{Op: vm.JUMP_ABSOLUTE}, Dest: back}
	is := Instructions{j1, c12Gap("g1"), back, j2, c12Gap("g2"), l2, c12Gap("g3"), ja, l1, &Op{Op: vm.RETURN_VALUE}}
	_ = is.Assemble()
	verifReach("assembled")
	c12CheckJumps(is, []*JumpRel{j1, j2}, []*JumpAbs{ja})
}

// a chain: absolute jumps whose operands depend on the sizes of earlier jumps
//
//verif:property C12 C11
//verif:expect assembled
func VerifC12AssembleChain() {
	l1, l2, l3 := &Label{}, &Label{}, &Label{}
	a1 := &JumpAbs{OpArg: OpArg{Op: vm.POP_JUMP_IF_FALSE}, Dest: l1}
	a2 := &JumpAbs{OpArg: OpArg{Op: vm.POP_JUMP_IF_TRUE}, Dest: l2}
	a3 := &JumpAbs{OpArg: OpArg{Op: vm.JUMP_ABSOLUTE}, Dest: l3}
	is := Instructions{c12Gap("g0"), a1, a2, a3, c12Gap("g1"), l1, l2, l3, &Op{Op: vm.RETURN_VALUE}}
	_ = is.Assemble()
	verifReach("assembled")
	c12CheckJumps(is, nil, []*JumpAbs{a1, a2, a3})
}

// line table: Addr2Line at the start of every instruction gives that instruction's line
//
//verif:property C02 C12
//verif:expect checked
func VerifC02Lnotab() {
	n := verifBound(3, 4)
	var is Instructions
	line := 1
	first := 1 + int(verifInt64("first"))
	verifAssume(first >= 1 && first <= 300)
	line = first
	for i := 0; i < n; i++ {
		name := string(rune('a' + i))
		g := c12Gap("g" + name)
		verifAssume(g.size >= 1 && g.size <= uint32(verifBound(300, 600)))
		d := int(verifInt64("d" + name))
		verifAssume(d >= 0 && d <= verifBound(300, 600))
		if i > 0 {
			line += d
		}
		g.SetLineno(line)
		is = append(is, g)
	}
	is.Pass(0)
	lnotab := is.Lnotab()
	code := &py.Code{Firstlineno: 1, Lnotab: string(lnotab)}
	verifReach("checked")
	for _, in := range is {
		got := code.Addr2Line(int32(in.Pos()))
		verifAssert(int(got) == in.Lineno(), "Addr2Line(start of instruction) is the instruction's line")
		last := code.Addr2Line(int32(in.Pos() + in.Size() - 1))
		verifAssert(int(last) == in.Lineno(), "Addr2Line(last byte of instruction) is the instruction's line")
	}
}
