package compile

import (
	"strconv"

	"github.com/go-python/gpython/ast"
	"github.com/go-python/gpython/py"
	"github.com/go-python/gpython/symtable"
	"github.com/go-python/gpython/vm"
)

// C02 — an unhandled exception reaches the embedder with a traceback naming the
// line of the raising statement and of every active call, also when it passed
// through except/finally clauses and bare re-raises on the way.

func c02ExprAt(e ast.Expr, line int) {
	switch x := e.(type) {
	case *ast.Name:
		x.Lineno = line
	case *ast.Num:
		x.Lineno = line
	case *ast.Call:
		x.Lineno = line
		c02ExprAt(x.Func, line)
		for _, a := range x.Args {
			c02ExprAt(a, line)
		}
	}
}

func c02At(s ast.Stmt, line int) ast.Stmt {
	switch x := s.(type) {
	case *ast.ExprStmt:
		x.Lineno = line
		c02ExprAt(x.Value, line)
	case *ast.Raise:
		x.Lineno = line
		if x.Exc != nil {
			c02ExprAt(x.Exc, line)
		}
	case *ast.Try:
		x.Lineno = line
	case *ast.FunctionDef:
		x.Lineno = line
	case *ast.Pass:
		x.Lineno = line
	}
	return s
}

func c02CallStmt(name string, line int) ast.Stmt {
	c := &ast.Call{Func: &ast.Name{Id: ast.Identifier(name), Ctx: ast.Load}}
	c.Lineno = line
	c.Func.(*ast.Name).Lineno = line
	s := &ast.ExprStmt{Value: c}
	s.Lineno = line
	return s
}

func c02Def(name string, line int, body []ast.Stmt) ast.Stmt {
	f := &ast.FunctionDef{Name: ast.Identifier(name), Args: &ast.Arguments{}, Body: body}
	f.Lineno = line
	return f
}

//verif:property C02
//verif:runinit github.com/go-python/gpython/vm.init#1 github.com/go-python/gpython/vm.init#2
//verif:expect ran
func VerifC02Traceback() {
	vm.VReset(2)
	// inner(): line 2 probe (may raise), line 3 raise KeyError, line 4 probe
	raiseStmt := &ast.Raise{Exc: c02Name("KeyError")}
	p2 := c02Probe(2)
	p4 := c02Probe(4)
	inner := c02Def("inner", 1, []ast.Stmt{c02At(p2, 2), c02At(raiseStmt, 3), c02At(p4, 4)})
	// middle(): calls inner() at line 7, by variant wrapped in try/except-reraise or try/finally
	call := c02CallStmt("inner", 7)
	var mbody []ast.Stmt
	variant := verifChoice("variant", 4)
	switch variant {
	case 0:
		mbody = []ast.Stmt{call}
	case 1: // except KeyError: raise   (bare re-raise at line 9)
		rr := &ast.Raise{}
		rr.Lineno = 9
		t := &ast.Try{Body: []ast.Stmt{call}, Handlers: []*ast.ExceptHandler{{ExprType: c02Name("KeyError"), Body: []ast.Stmt{rr}}}}
		t.Lineno = 6
		t.Handlers[0].Lineno = 8
		c02ExprAt(t.Handlers[0].ExprType, 8)
		mbody = []ast.Stmt{t}
	case 2: // finally: probe at line 9
		t := &ast.Try{Body: []ast.Stmt{call}, Finalbody: []ast.Stmt{c02At(c02Probe(9), 9)}}
		t.Lineno = 6
		mbody = []ast.Stmt{t}
	default: // except ValueError (does not match): probe
		t := &ast.Try{Body: []ast.Stmt{call}, Handlers: []*ast.ExceptHandler{{ExprType: c02Name("ValueError"), Body: []ast.Stmt{c02At(c02Probe(9), 9)}}}}
		t.Lineno = 6
		t.Handlers[0].Lineno = 8
		c02ExprAt(t.Handlers[0].ExprType, 8)
		mbody = []ast.Stmt{t}
	}
	middle := c02Def("middle", 5, mbody)
	outer := c02Def("outer", 11, []ast.Stmt{c02CallStmt("middle", 12)})
	prog := []ast.Stmt{inner, middle, outer, c02CallStmt("outer", 14)}

	mod := &ast.Module{Body: prog}
	st, err := symtable.NewSymTable(mod, "<harness>")
	verifAssert(err == nil, "symtable ok")
	c := newCompiler(nil, compilerScopeModule)
	err = c.compileAst(mod, "<harness>", 0, false, st)
	verifAssert(err == nil, "compiles")
	for _, t := range []*py.Type{py.BaseException, py.ExceptionType, py.LookupError, py.KeyError, py.ValueError} {
		_ = t.Ready()
	}
	globals := py.StringDict{"p": &vm.VTok{ID: 0}, "KeyError": py.KeyError, "ValueError": py.ValueError}
	ctx := vm.VNewCtx(py.StringDict{})
	frame := &py.Frame{Context: ctx, Code: c.Code, Globals: globals, Locals: globals, Builtins: py.StringDict{}, Stack: make([]py.Object, 0, c.Code.Stacksize)}
	_, err = vm.RunFrame(frame)
	verifReach("ran")
	verifAssert(err != nil, "the exception reaches the embedder")
	ei, ok := err.(py.ExceptionInfo)
	verifAssert(ok, "as an ExceptionInfo")
	verifAssert(ei.Type == py.KeyError, "with its original type")
	// where was it raised? probe 2 failing (line 2) or the raise statement (line 3);
	// in variant 2 the finally-probe (line 9) may itself raise and replace it
	raisedAt := 3
	if verifChoiceOf("out1") == 1 {
		raisedAt = 2
	}
	want := []string{"<module>:14", "outer:12", "middle:7", "inner:" + strconv.Itoa(raisedAt)}
	if variant == 2 {
		// log: [probe2] (maybe) ... finally probe is the last logged call
		n := len(vm.VLog())
		if verifChoiceOf("out"+strconv.Itoa(n)) == 1 && vm.VLog()[n-1] == "call(t0,i1,i0,i9)" {
			want = []string{"<module>:14", "outer:12", "middle:9"}
		}
	}
	var got []string
	for tb := ei.Traceback; tb != nil; tb = tb.Next {
		got = append(got, tb.Frame.Code.Name+":"+strconv.Itoa(int(tb.Lineno)))
	}
	verifLog("got  " + strings2(got))
	verifLog("want " + strings2(want))
	verifAssert(len(got) == len(want), "one traceback entry per active call")
	for i := range want {
		verifAssert(got[i] == want[i], "traceback entry names the function and the line of the call / raise")
	}
}

func strings2(l []string) string {
	s := ""
	for _, x := range l {
		s += x + " "
	}
	return s
}
