package compile

import (
	"strconv"
	"strings"

	"github.com/go-python/gpython/ast"
	"github.com/go-python/gpython/py"
	"github.com/go-python/gpython/symtable"
	"github.com/go-python/gpython/vm"
)

// C02 — control flow and exceptions take exactly Python's paths.
//
// A bounded family of programs (nesting of if / while / for / try / with with
// break, continue and raise placed inside) is compiled by the real pipeline
// and run by the real VM over token objects. Every probe call, truth value and
// iterator step has a symbolic outcome (value / raises / exhausted), so "which
// point raises, breaks or continues" is decided by the solver's choices. The
// reference is a direct interpreter of the same AST written from the language
// reference (compound statements, section 8).

// names bound in the program's globals
//   p      probe function (token): p(k) logs call k and may raise KeyError
//   c, c2  loop / if conditions (tokens with symbolic truth)
//   it     iterable (token)
//   m      context manager (token)
//   KeyError, ValueError, IndexError, LookupError, Exception  the real classes

func c02Probe(k int) ast.Stmt {
	return &ast.ExprStmt{Value: &ast.Call{Func: &ast.Name{Id: "p", Ctx: ast.Load}, Args: []ast.Expr{&ast.Num{N: py.Int(k)}}}}
}
func c02Name(n string) ast.Expr { return &ast.Name{Id: ast.Identifier(n), Ctx: ast.Load} }

type c02Gen struct {
	nprobe int
	hot    int // which body of the outer statement gets a non-trivial inner statement
	hot2   int // which body of the nested statement gets one (0 = none)
	slot   int
	slot2  int
	depth  int
	inFin  int // nesting of finally bodies being generated
	// onlyLoops: nested compound statements are loops (a slice of the family for the quick tier)
	onlyLoops bool
	// tight: bodies hold the inner statement only (or pass), no probes: the code object then has
	// no slack in its declared stack size beyond what the statement itself needs (C12)
	tight bool
	// reraise: the handler bodies of the outermost try statement may end in a bare `raise`
	reraise bool
	// nestedKinds: the kinds a nested compound statement may have (nil: all)
	nestedKinds []int
}

// handlerBody: the body of an except clause (level-1 handlers may end in a bare raise)
func (g *c02Gen) handlerBody(inLoop bool, level int) []ast.Stmt {
	b := g.body(inLoop, level)
	if g.reraise && level == 1 && g.inFin == 0 && verifChoice("reraise", 2) == 1 {
		b = append(b, &ast.Raise{})
	}
	return b
}

func (g *c02Gen) probe() ast.Stmt {
	g.nprobe++
	return c02Probe(g.nprobe)
}

// inner statement placed in the middle of a body
func (g *c02Gen) inner(inLoop bool, level int) []ast.Stmt {
	if level == 1 {
		g.slot++
		if g.slot != g.hot {
			return nil
		}
	} else {
		g.slot2++
		if g.slot2 != g.hot2 {
			return nil
		}
	}
	n := 3
	if inLoop {
		n = 5
	}
	if level < g.depth {
		n += 7
	}
	k := verifChoice("inner"+strconv.Itoa(level), n)
	if !inLoop && k >= 3 {
		k += 2
	}
	switch k {
	case 0:
		return []ast.Stmt{&ast.Raise{Exc: c02Name("KeyError")}}
	case 1:
		return []ast.Stmt{&ast.Raise{Exc: c02Name("ValueError")}}
	case 2:
		return []ast.Stmt{&ast.Raise{Exc: c02Name("IndexError")}}
	case 3:
		return []ast.Stmt{&ast.Break{}}
	case 4:
		// 'continue' is not allowed inside a finally clause (a compile-time error in 3.4): not part of the family
		verifAssume(g.inFin == 0)
		return []ast.Stmt{&ast.Continue{}}
	}
	if g.onlyLoops {
		verifAssume(k-5 == 1 || k-5 == 2)
	}
	if g.nestedKinds != nil {
		ok := false
		for _, nk := range g.nestedKinds {
			if k-5 == nk {
				ok = true
			}
		}
		verifAssume(ok)
	}
	return []ast.Stmt{g.compound(k-5, inLoop, level+1)}
}

func (g *c02Gen) body(inLoop bool, level int) []ast.Stmt {
	if g.tight {
		b := g.inner(inLoop, level)
		if len(b) == 0 {
			b = []ast.Stmt{&ast.Pass{}}
		}
		return b
	}
	b := []ast.Stmt{g.probe()}
	b = append(b, g.inner(inLoop, level)...)
	b = append(b, g.probe())
	return b
}

var c02Handlers = []string{"KeyError", "ValueError", "LookupError", "Exception"}

func (g *c02Gen) compound(kind int, inLoop bool, level int) ast.Stmt {
	sfx := strconv.Itoa(level)
	switch kind {
	case 0:
		return &ast.If{Test: c02Name("c2"), Body: g.body(inLoop, level), Orelse: g.body(inLoop, level)}
	case 1:
		return &ast.While{Test: c02Name("c"), Body: g.body(true, level), Orelse: g.body(inLoop, level)}
	case 2:
		return &ast.For{Target: &ast.Name{Id: "x", Ctx: ast.Store}, Iter: c02Name("it"), Body: g.body(true, level), Orelse: g.body(inLoop, level)}
	case 3:
		h := c02Handlers[verifChoice("handler"+sfx, len(c02Handlers))]
		return &ast.Try{Body: g.body(inLoop, level), Handlers: []*ast.ExceptHandler{{ExprType: c02Name(h), Body: g.handlerBody(inLoop, level)}}, Orelse: g.body(inLoop, level)}
	case 4:
		b := g.body(inLoop, level)
		g.inFin++
		f := g.body(inLoop, level)
		g.inFin--
		return &ast.Try{Body: b, Finalbody: f}
	case 5:
		h := c02Handlers[verifChoice("handler"+sfx, len(c02Handlers))]
		b := g.body(inLoop, level)
		hb := g.handlerBody(inLoop, level)
		g.inFin++
		f := g.body(inLoop, level)
		g.inFin--
		return &ast.Try{Body: b, Handlers: []*ast.ExceptHandler{{ExprType: c02Name(h), Body: hb}}, Finalbody: f}
	default:
		return &ast.With{Items: []*ast.WithItem{{ContextExpr: c02Name("m")}}, Body: g.body(inLoop, level)}
	}
}

// ---- reference interpreter ---------------------------------------------------

type c02Sig int

const (
	sigNormal c02Sig = iota
	sigBreak
	sigContinue
	sigRaise
)

type c02Ref struct {
	log    []string
	next   int
	exc    string         // class name of the exception in flight
	trues  map[string]int // per condition token: how often true so far
	nexts  int            // items produced by the iterator
	failed bool           // the VM did not make the call the reference expects (no outcome recorded)
	// handling: the exceptions of the except clauses being executed, innermost last
	// (what a bare `raise` re-raises)
	handling []string
}

var c02Tok = map[string]string{"p": "t0", "c": "t1", "c2": "t2", "it": "t3", "m": "t4"}

func (r *c02Ref) fresh() string {
	r.next++
	return "t" + strconv.Itoa(r.next)
}

// outcome of the n-th logged call: 0 value, 1 raises KeyError
func (r *c02Ref) outcome() int {
	k := verifChoiceOf("out" + strconv.Itoa(len(r.log)))
	if k < 0 {
		r.failed = true
		return 0
	}
	return k
}

func (r *c02Ref) call(entry string) (string, c02Sig) {
	r.log = append(r.log, entry)
	if r.outcome() == 1 {
		r.exc = "KeyError"
		return "", sigRaise
	}
	return r.fresh(), sigNormal
}

func (r *c02Ref) truth(tok string) (bool, c02Sig) {
	r.log = append(r.log, "bool("+tok+")")
	if r.outcome() == 1 {
		r.exc = "KeyError"
		return false, sigRaise
	}
	if r.trues[tok] >= 3 {
		return false, sigNormal
	}
	t := verifTruthOf("truth" + strconv.Itoa(len(r.log)))
	if t {
		r.trues[tok]++
	}
	return t, sigNormal
}

var c02Bases = map[string][]string{
	"KeyError":   {"KeyError", "LookupError", "Exception"},
	"IndexError": {"IndexError", "LookupError", "Exception"},
	"ValueError": {"ValueError", "Exception"},
}

func c02Matches(raised, handler string) bool {
	for _, b := range c02Bases[raised] {
		if b == handler {
			return true
		}
	}
	return false
}

func (r *c02Ref) block(ss []ast.Stmt) c02Sig {
	for _, s := range ss {
		if sig := r.stmt(s); sig != sigNormal {
			return sig
		}
	}
	return sigNormal
}

func (r *c02Ref) stmt(s ast.Stmt) c02Sig {
	switch x := s.(type) {
	case *ast.ExprStmt:
		k := int(x.Value.(*ast.Call).Args[0].(*ast.Num).N.(py.Int))
		_, sig := r.call("call(t0,i1,i0,i" + strconv.Itoa(k) + ")")
		return sig
	case *ast.Raise:
		if x.Exc == nil {
			// re-raise the exception being handled; none: RuntimeError
			if len(r.handling) == 0 {
				r.exc = "RuntimeError"
			} else {
				r.exc = r.handling[len(r.handling)-1]
			}
			return sigRaise
		}
		r.exc = string(x.Exc.(*ast.Name).Id)
		return sigRaise
	case *ast.Break:
		return sigBreak
	case *ast.Continue:
		return sigContinue
	case *ast.If:
		t, sig := r.truth(c02Tok[string(x.Test.(*ast.Name).Id)])
		if sig != sigNormal {
			return sig
		}
		if t {
			return r.block(x.Body)
		}
		return r.block(x.Orelse)
	case *ast.While:
		for {
			t, sig := r.truth(c02Tok[string(x.Test.(*ast.Name).Id)])
			if sig != sigNormal {
				return sig
			}
			if !t {
				return r.block(x.Orelse)
			}
			switch sig := r.block(x.Body); sig {
			case sigBreak:
				return sigNormal
			case sigRaise:
				return sig
			}
		}
	case *ast.For:
		r.log = append(r.log, "iter(t3)")
		for {
			r.log = append(r.log, "next(t3)")
			k := verifChoiceOf("next" + strconv.Itoa(len(r.log)))
			if k < 0 {
				r.failed = true
				return sigNormal
			}
			if k == 1 {
				r.exc = "KeyError"
				return sigRaise // an error from the iterator is not exhaustion
			}
			if k == 0 {
				return r.block(x.Orelse)
			}
			r.nexts++
			r.fresh()
			switch sig := r.block(x.Body); sig {
			case sigBreak:
				return sigNormal
			case sigRaise:
				return sig
			}
		}
	case *ast.Try:
		sig := r.block(x.Body)
		if sig == sigRaise && len(x.Handlers) > 0 {
			h := string(x.Handlers[0].ExprType.(*ast.Name).Id)
			if c02Matches(r.exc, h) {
				r.handling = append(r.handling, r.exc)
				r.exc = ""
				sig = r.block(x.Handlers[0].Body)
				r.handling = r.handling[:len(r.handling)-1]
			}
		} else if sig == sigNormal && len(x.Handlers) > 0 {
			sig = r.block(x.Orelse)
		}
		if x.Finalbody != nil {
			saved := r.exc
			if fsig := r.block(x.Finalbody); fsig != sigNormal {
				return fsig // whatever leaves the finally clause replaces the pending outcome
			}
			r.exc = saved
		}
		return sig
	case *ast.With:
		exit, sig := r.call("getattr(t4,s:__exit__)")
		if sig != sigNormal {
			return sig
		}
		enter, sig := r.call("getattr(t4,s:__enter__)")
		if sig != sigNormal {
			return sig
		}
		if _, sig = r.call("call(" + enter + ",i0,i0)"); sig != sigNormal {
			return sig
		}
		bsig := r.block(x.Body)
		if bsig == sigRaise {
			res, sig := r.call("call(" + exit + ",i3,i0,?,?,?)")
			if sig != sigNormal {
				return sig
			}
			// the exception is suppressed iff the result of __exit__ is true
			t, sig := r.truth(res)
			if sig != sigNormal {
				return sig
			}
			if t {
				r.exc = ""
				return sigNormal
			}
			return sigRaise
		}
		if _, sig := r.call("call(" + exit + ",i3,i0,None,None,None)"); sig != sigNormal {
			return sig
		}
		return bsig
	}
	return sigNormal
}

func c02ExcName(err error) string {
	var t *py.Type
	switch e := err.(type) {
	case py.ExceptionInfo:
		t = e.Type
	case *py.Exception:
		t = e.Base
	}
	switch t {
	case py.KeyError:
		return "KeyError"
	case py.ValueError:
		return "ValueError"
	case py.IndexError:
		return "IndexError"
	case py.RuntimeError:
		return "RuntimeError"
	}
	return "?"
}

func c02Run(body []ast.Stmt) error {
	mod := &ast.Module{Body: body}
	st, err := symtable.NewSymTable(mod, "<harness>")
	if err != nil {
		return err
	}
	c := newCompiler(nil, compilerScopeModule)
	if err = c.compileAst(mod, "<harness>", 0, false, st); err != nil {
		return err
	}
	globals := py.StringDict{"p": &vm.VTok{ID: 0}, "c": &vm.VTok{ID: 1}, "c2": &vm.VTok{ID: 2}, "it": &vm.VTok{ID: 3}, "m": &vm.VTok{ID: 4},
		"KeyError": py.KeyError, "ValueError": py.ValueError, "IndexError": py.IndexError, "LookupError": py.LookupError, "Exception": py.ExceptionType}
	// package initialisation normally makes the built-in types ready (MRO etc.); do it for the ones used
	for _, t := range []*py.Type{py.BaseException, py.ExceptionType, py.LookupError, py.KeyError, py.IndexError, py.ValueError, py.RuntimeError} { // bases first, as package init does
		if rerr := t.Ready(); rerr != nil {
			return rerr
		}
	}
	frame := &py.Frame{Code: c.Code, Globals: globals, Locals: globals, Builtins: py.StringDict{}, Stack: make([]py.Object, 0, c.Code.Stacksize)}
	_, err = vm.RunFrame(frame)
	return err
}

func c02Check(kind int, depth int, hot, hot2 int) { c02CheckGen(&c02Gen{hot: hot, hot2: hot2, depth: depth}, kind) }

func c02CheckGen(g *c02Gen, kind int) {
	prog := []ast.Stmt{g.probe(), g.compound(kind, false, 1), g.probe()}
	vm.VReset(2)
	err := c02Run(prog)
	verifReach("ran")
	r := &c02Ref{next: 100, trues: map[string]int{}}
	sig := r.block(prog)
	log := vm.VLog()
	verifLog("vm : " + strings.Join(log, " "))
	verifLog("ref: " + strings.Join(r.log, " "))
	verifAssert(!r.failed, "the VM performs every call the reference reaches")
	n := len(r.log)
	if len(log) < n {
		n = len(log)
	}
	for i := 0; i < n; i++ {
		verifAssert(log[i] == r.log[i], "statements are reached in Python's order")
	}
	verifAssert(len(log) == len(r.log), "exactly the statements Python reaches are executed, each once")
	if sig == sigRaise {
		verifAssert(err != nil, "an unhandled exception reaches the embedder")
		if err != nil {
			verifAssert(c02ExcName(err) == r.exc, "with its original type")
		}
	} else {
		verifAssert(err == nil, "no exception escapes when every one was handled")
	}
}

//verif:property C02
//verif:runinit github.com/go-python/gpython/vm.init#2
//verif:expect ran
//verif:maxpaths 30000 300000
//verif:timeout 300 1500
func VerifC02Flow() {
	kind := verifChoice("kind", 7)
	depth := verifBound(1, 2)
	// which of the (up to 3) bodies of the outer statement carries the inner statement
	hot := 1 + verifChoice("hot", 3)
	c02Check(kind, depth, hot, 0)
}

// two levels of nesting: loop inside loop, try inside loop, loop inside try ... with
// break / continue / raise placed in any body of the nested statement
//
//verif:property C02
//verif:runinit github.com/go-python/gpython/vm.init#2
//verif:expect ran
//verif:maxpaths 60000 600000
//verif:timeout 400 2400
func VerifC02FlowNested() {
	kind := verifChoice("kind", 7)
	hot := 1 + verifChoice("hot", 3)
	hot2 := 1 + verifChoice("hot2", 3)
	if verifBound(0, 1) == 0 {
		// quick: the outer statement is a loop or a try/finally (where break/continue/else interplay lives)
		verifAssume(kind == 1 || kind == 2 || kind == 4)
	}
	c02Check(kind, 2, hot, hot2)
}

// the except clause: its body may hold a nested statement (a with that
// suppresses, a try that catches or lets through, a loop) and may end in a
// bare `raise`, which re-raises the exception of the clause - not one that a
// nested statement raised and disposed of meanwhile
//
//verif:property C02
//verif:runinit github.com/go-python/gpython/vm.init#2
//verif:expect ran
//verif:maxpaths 60000 600000
//verif:timeout 400 2400
func VerifC02Reraise() {
	kind := 3
	if verifChoice("fin", 2) == 1 {
		kind = 5
	}
	hot2 := 1 + verifChoice("hot2", 3)
	g := &c02Gen{hot: 2, hot2: hot2, depth: 2, reraise: true} // slot 2 of a try statement is its handler
	if verifBound(0, 1) == 0 {
		// quick: the nested statement is a with or a try/except (the two that dispose of an exception)
		g.nestedKinds = []int{3, 6}
		verifAssume(kind == 3)
	}
	c02CheckGen(g, kind)
}
