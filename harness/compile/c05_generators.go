package compile

import (
	"strconv"

	"github.com/go-python/gpython/py"
	"github.com/go-python/gpython/vm"
)

// C05 — whole generator functions through the real parser, compiler and VM:
// each next() / send() runs exactly the code up to the next yield, with
// locals, loop position and pending finally blocks preserved across the
// suspension; a value sent arrives at the yield expression; the return value
// is carried by the StopIteration; an exhausted generator stays exhausted.
//
// The body is a symbolic sequence of three items out of
//
//	p(K)                         a probe
//	yield TK                     a bare yield
//	v = yield TK ; p(v)          the value sent in is observed
//	for i in (TA, TB): yield i ; p(i)      loop position and loop variable across two suspensions
//	try: yield TK ; p(K)  finally: p(K')   a finally block pending across a suspension
//	L = TK (before) ... p(L) after the next item: a local kept across whatever the next item does
//
// followed by `return R` (or nothing). The driver resumes the generator up to
// six times, each time by next() or by send(token) (symbolic). Control flow is
// static, so the reference is the flattened list of events of the body.

type c05Event struct {
	kind string // probe, yield
	arg  string // probe: what is logged ("i7", "t21", "sent"); yield: the token name yielded
	bind bool   // yield: the resumption value is bound and probed next ("sent")
}

func c05Tok(k int) string { return "T" + strconv.Itoa(k) }

//verif:property C05
//verif:runinit github.com/go-python/gpython/vm.init#1 github.com/go-python/gpython/vm.init#2 github.com/go-python/gpython/vm.init@eval.go:1
//verif:expect ran
//verif:maxpaths 40000 400000
//verif:timeout 400 1500
func VerifC05GeneratorPrograms() {
	src := "def g():\n"
	var events []c05Event
	nitems := verifBound(2, 3)
	tok := 20 // token numbers used by the body
	probe := 0
	pendingLocal := ""
	for it := 0; it < nitems; it++ {
		sfx := strconv.Itoa(it)
		switch verifChoice("item"+sfx, 6) {
		case 0:
			probe++
			src += "    p(" + strconv.Itoa(probe) + ")\n"
			events = append(events, c05Event{kind: "probe", arg: "i" + strconv.Itoa(probe)})
		case 1:
			tok++
			src += "    yield " + c05Tok(tok) + "\n"
			events = append(events, c05Event{kind: "yield", arg: "t" + strconv.Itoa(tok)})
		case 2:
			tok++
			src += "    v" + sfx + " = yield " + c05Tok(tok) + "\n    p(v" + sfx + ")\n"
			events = append(events, c05Event{kind: "yield", arg: "t" + strconv.Itoa(tok), bind: true})
		case 3:
			a, b := tok+1, tok+2
			tok += 2
			src += "    for i" + sfx + " in (" + c05Tok(a) + ", " + c05Tok(b) + "):\n        yield i" + sfx + "\n        p(i" + sfx + ")\n"
			for _, k := range []int{a, b} {
				events = append(events, c05Event{kind: "yield", arg: "t" + strconv.Itoa(k)}, c05Event{kind: "probe", arg: "t" + strconv.Itoa(k)})
			}
		case 4:
			tok++
			probe += 2
			src += "    try:\n        yield " + c05Tok(tok) + "\n        p(" + strconv.Itoa(probe-1) + ")\n    finally:\n        p(" + strconv.Itoa(probe) + ")\n"
			events = append(events, c05Event{kind: "yield", arg: "t" + strconv.Itoa(tok)},
				c05Event{kind: "probe", arg: "i" + strconv.Itoa(probe-1)}, c05Event{kind: "probe", arg: "i" + strconv.Itoa(probe)})
		default:
			// a local assigned now and read after the next item
			tok++
			src += "    L" + sfx + " = " + c05Tok(tok) + "\n"
			if pendingLocal != "" {
				// read the earlier one first (keeps one pending at a time)
				src += "    p(" + pendingLocal[:2] + ")\n"
				events = append(events, c05Event{kind: "probe", arg: "t" + pendingLocal[3:]})
			}
			// the read is emitted after the next item (or at the end)
			pendingLocal = "L" + sfx + ":" + strconv.Itoa(tok)
			continue
		}
		if pendingLocal != "" {
			name, t := pendingLocal[:2], pendingLocal[3:]
			src += "    p(" + name + ")\n"
			events = append(events, c05Event{kind: "probe", arg: "t" + t})
			pendingLocal = ""
		}
	}
	if pendingLocal != "" {
		name, t := pendingLocal[:2], pendingLocal[3:]
		src += "    p(" + name + ")\n"
		events = append(events, c05Event{kind: "probe", arg: "t" + t})
	}
	hasYield := false
	for _, e := range events {
		if e.kind == "yield" {
			hasYield = true
		}
	}
	verifAssume(hasYield) // without a yield g is an ordinary function
	ret := verifChoice("ret", 2) == 1
	if ret {
		src += "    return R\n"
	}
	src += "gen = g()\n"
	verifLog(src)

	code, err := Compile(src, "<harness>", py.ExecMode, 0, true)
	verifAssert(err == nil, "the generator function compiles")
	for _, t := range []*py.Type{py.BaseException, py.ExceptionType, py.StopIteration, py.TypeError, py.NameError} {
		_ = t.Ready()
	}
	vm.VReset(1)
	globals := py.StringDict{"p": &vm.VTok{ID: 0}, "R": &vm.VTok{ID: 9}}
	for k := 20; k <= 30; k++ {
		globals[c05Tok(k)] = &vm.VTok{ID: k}
	}
	builtins := py.StringDict{}
	frame := &py.Frame{Context: vm.VNewCtx(builtins), Code: code, Globals: globals, Locals: globals, Builtins: builtins, Stack: make([]py.Object, 0, code.Stacksize)}
	_, err = vm.RunFrame(frame)
	verifAssert(err == nil, "calling a generator function runs none of its body")
	verifAssert(len(vm.VLog()) == 0, "calling a generator function runs none of its body")
	gen, ok := globals["gen"].(*py.Generator)
	verifAssert(ok, "calling a generator function returns a generator")
	verifReach("ran")

	// drive it
	pos := 0 // next event of the reference
	nlog := 0
	suspendedAtBind := false
	finished := false
	for step := 0; step < 6; step++ {
		var sent py.Object = py.None
		sentName := "None"
		// a value can be sent only to a generator suspended at a yield (not to one that has not started)
		if step > 0 && !finished && verifChoice("send"+strconv.Itoa(step), 2) == 1 {
			sent = &vm.VTok{ID: 50 + step}
			sentName = "t" + strconv.Itoa(50+step)
		}
		got, err := gen.Send(sent)
		if finished {
			verifAssert(err != nil && py.IsException(py.StopIteration, err), "an exhausted generator stays exhausted")
			verifAssert(len(vm.VLog()) == nlog, "and runs no code")
			continue
		}
		// the reference: the resumption value is observed if the yield bound it
		var want []string
		if suspendedAtBind {
			want = append(want, "call(t0,i1,i0,"+sentName+")")
		}
		suspendedAtBind = false
		yielded := ""
		for pos < len(events) {
			e := events[pos]
			pos++
			if e.kind == "yield" {
				yielded = e.arg
				suspendedAtBind = e.bind
				break
			}
			want = append(want, "call(t0,i1,i0,"+e.arg+")")
		}
		log := vm.VLog()
		verifAssert(len(log) == nlog+len(want), "a resumption runs exactly the code up to the next yield")
		for i := range want {
			if nlog+i < len(log) {
				verifAssert(log[nlog+i] == want[i], "with locals, loop position and pending blocks as they were left")
			}
		}
		nlog = len(log)
		if yielded != "" {
			verifAssert(err == nil && vm.VName(got) == yielded, "the yielded value is the result of next() / send()")
			continue
		}
		finished = true
		verifAssert(err != nil && py.IsException(py.StopIteration, err), "running off the end raises StopIteration")
		if ret {
			verifAssert(err != nil && py.StopIterationValue(err) == globals["R"], "the return value is carried by the StopIteration")
		}
	}
}
