package compile

import (
	"github.com/go-python/gpython/py"
)

// C11 — the compile pipeline is total: for every input text and every mode
// Compile returns a code object or a SyntaxError-family exception; it never
// panics and never reports an internal (SystemError-class) failure.
//
// Inputs: (a) texts of a few arbitrary symbolic BYTES through the real lexer;
// (b) sequences of tokens / fragments chosen symbolically from an alphabet of
// keywords, operators, literals (incl. malformed), brackets, indentation and
// line-continuation fragments.

func c11Check(src string, mode py.CompileMode) {
	for _, t := range []*py.Type{py.BaseException, py.ExceptionType, py.SyntaxError, py.IndentationError, py.TabError, py.SystemError, py.ValueError, py.TypeError} {
		_ = t.Ready()
	}
	code, err := Compile(src, "<c11>", mode, 0, true)
	verifReach("compiled")
	verifLog("src " + src)
	if err != nil {
		verifLog("err " + err.Error())
		verifAssert(py.IsException(py.SyntaxError, err), "a rejected text is rejected with a SyntaxError-family exception")
		return
	}
	verifAssert(code != nil, "otherwise a code object is returned")
}

var c11Modes = []py.CompileMode{py.ExecMode, py.EvalMode, py.SingleMode}

//verif:property C11
//verif:expect compiled
//verif:maxpaths 60000 400000
//verif:timeout 400 2400
func VerifC11Bytes() {
	n := 1 + verifChoice("n", verifBound(2, 3))
	src := verifString("s", n)
	mode := c11Modes[verifChoice("mode", 3)]
	c11Check(src, mode)
}

var c11Frags = []string{
	// the first 40 are the quick tier's alphabet
	"x", "1", "1.", "0x", "'a'", "'a", "\"\"\"a", "(", ")", "[", "]", "{", ",", ":", ".", "=", "+", "**", "-",
	"\n", "\n ", " ", "\\\n", "\\", "#c", "if", "else", "def", "lambda", "not", "for", "return", "f(", "*x", "**x", "1=2", "x=1", "$", "\x00", "\xc3\xa9",
	// thorough adds
	"1e", "b'\\xz'", "}", ";", "==", "*", "@", "->", "\n\t", "class", "in", "is", "while", "try", "except", "finally", "with", "as",
	"yield", "raise", "break", "continue", "pass", "global x", "nonlocal x", "import", "from", "del", "assert", "None", "...", "?", "\xff",
}

//verif:property C11
//verif:expect compiled
//verif:maxpaths 200000 2000000
//verif:timeout 500 3000
func VerifC11Tokens() {
	k := 1 + verifChoice("k", verifBound(2, 3))
	src := ""
	nf := verifBound(40, len(c11Frags))
	if k == 3 {
		nf = 40 // three fragments: the smaller alphabet keeps the product within reach
	}
	for i := 0; i < k; i++ {
		if i > 0 && verifChoice("sp"+string(rune('0'+i)), 2) == 1 {
			src += " "
		}
		src += c11Frags[verifChoice("f"+string(rune('0'+i)), nf)]
	}
	if verifChoice("nl", 2) == 1 {
		src += "\n"
	}
	mode := c11Modes[verifChoice("mode", 3)]
	c11Check(src, mode)
}
