package compile

import (
	"github.com/go-python/gpython/vm"
)

// C12 item 1 — cross-check of the two hand-written tables: the compiler's
// opcodeStackEffect (used to size the evaluation stack) against what the VM's
// opcode implementations really do to the stack.

//verif:property C12
//verif:runinit github.com/go-python/gpython/vm.init#2
//verif:expect checked
//verif:maxpaths 20000 60000
//verif:timeout 300 900
func VerifC12StackEffects() {
	k := verifChoice("op", len(vm.VOps))
	op := vm.VOps[k]
	e := vm.VerifOpEffect(op)
	table := opcodeStackEffect(op, uint32(e.Arg))
	if e.Failed && op != vm.RAISE_VARARGS {
		return // an opcode that raised leaves the stack to the unwinder
	}
	verifReach("checked")
	switch op {
	case vm.FOR_ITER:
		if e.Jumped {
			// stackDepthWalk: target_depth = depth(+1) - 2
			verifAssert(e.Delta == table-2, "FOR_ITER at exhaustion pops the iterator (walker: effect-2)")
		} else {
			verifAssert(e.Delta == table, "FOR_ITER pushes the next item")
		}
	case vm.JUMP_IF_TRUE_OR_POP, vm.JUMP_IF_FALSE_OR_POP:
		if e.Jumped {
			verifAssert(e.Delta == table, "JUMP_IF_x_OR_POP keeps TOS when jumping")
		} else {
			verifAssert(e.Delta == table-1, "JUMP_IF_x_OR_POP pops when falling through (walker: effect-1)")
		}
	case vm.YIELD_VALUE:
		// the yielded value is popped now; the value sent in is pushed on resumption
		verifAssert(e.Delta+1 == table, "YIELD_VALUE net effect including the value pushed on resume")
	case vm.SETUP_WITH, vm.SETUP_EXCEPT, vm.SETUP_FINALLY, vm.POP_EXCEPT, vm.END_FINALLY, vm.WITH_CLEANUP:
		// documented over-approximations: the table counts what the handler may find
		verifAssert(e.Delta <= table, "effect never exceeds the (over-approximating) table entry")
	default:
		verifAssert(e.Delta == table, "stack effect equals the compiler's table")
	}
	switch op {
	case vm.SETUP_LOOP, vm.SETUP_EXCEPT, vm.SETUP_FINALLY, vm.SETUP_WITH:
		verifAssert(e.Blocks == 1, "SETUP_x pushes one block")
	case vm.POP_BLOCK, vm.POP_EXCEPT:
		verifAssert(e.Blocks == -1, "POP_x pops one block")
	default:
		verifAssert(e.Blocks == 0, "no other opcode touches the block stack")
	}
}
