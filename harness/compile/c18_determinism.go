package compile

import (
	"github.com/go-python/gpython/ast"
	"github.com/go-python/gpython/py"
	"github.com/go-python/gpython/symtable"
)

// C18 — compiling the same input yields structurally identical code objects
// whatever order the hash maps of the symbol tables are walked in.
//
// The programs of the C03 family (several names, nested scopes, closures) are
// compiled twice on one path: once with every map range in insertion order and
// once under another iteration-order policy (reversed / rotated / swapped),
// and the two code objects are compared recursively.

func c18Same(a, b *py.Code) bool {
	if a.Argcount != b.Argcount || a.Kwonlyargcount != b.Kwonlyargcount || a.Nlocals != b.Nlocals || a.Stacksize != b.Stacksize ||
		a.Flags != b.Flags || a.Code != b.Code || a.Lnotab != b.Lnotab || a.Name != b.Name || a.Firstlineno != b.Firstlineno {
		return false
	}
	sl := func(x, y []string) bool {
		if len(x) != len(y) {
			return false
		}
		for i := range x {
			if x[i] != y[i] {
				return false
			}
		}
		return true
	}
	if !sl(a.Names, b.Names) || !sl(a.Varnames, b.Varnames) || !sl(a.Freevars, b.Freevars) || !sl(a.Cellvars, b.Cellvars) {
		return false
	}
	if len(a.Cell2arg) != len(b.Cell2arg) {
		return false
	}
	for i := range a.Cell2arg {
		if a.Cell2arg[i] != b.Cell2arg[i] {
			return false
		}
	}
	if len(a.Consts) != len(b.Consts) {
		return false
	}
	for i := range a.Consts {
		ca, oka := a.Consts[i].(*py.Code)
		cb, okb := b.Consts[i].(*py.Code)
		if oka != okb {
			return false
		}
		if oka {
			if !c18Same(ca, cb) {
				return false
			}
		} else if a.Consts[i] != b.Consts[i] {
			return false
		}
	}
	return true
}

func c18Compile(body []ast.Stmt) (*py.Code, error) {
	mod := &ast.Module{Body: body}
	st, err := symtable.NewSymTable(mod, "<harness>")
	if err != nil {
		return nil, err
	}
	c := newCompiler(nil, compilerScopeModule)
	if err = c.compileAst(mod, "<harness>", 0, false, st); err != nil {
		return nil, err
	}
	return c.Code, nil
}

func c18Program() []*sStmt {
	A := func(n string, v int) *sStmt { return &sStmt{kind: "assign", name: n, val: v} }
	P := func(n string) *sStmt { return &sStmt{kind: "probe", name: n} }
	names := []string{"x", "y", "z"}
	// g uses / declares a symbolic subset of the names
	var gbody []*sStmt
	for _, n := range names {
		switch verifChoice("g_"+n, 4) {
		case 1:
			gbody = append(gbody, P(n))
		case 2:
			gbody = append(gbody, &sStmt{kind: "nonlocal", name: n}, A(n, 3))
		case 3:
			gbody = append(gbody, A(n, 3), P(n))
		}
	}
	g := &sStmt{kind: "def", name: "g", body: gbody}
	h := &sStmt{kind: "def", name: "h", body: []*sStmt{P("x"), P("z")}}
	f := &sStmt{kind: "def", name: "f", params: []string{"y"}}
	f.body = append(f.body, A("x", 2), A("z", 2), g, h, &sStmt{kind: "call", name: "g"}, &sStmt{kind: "call", name: "h"}, P("x"), P("y"))
	return []*sStmt{A("x", 1), A("z", 1), f, &sStmt{kind: "call", name: "f", args: []int{5}}, P("x")}
}

//verif:property C18
//verif:expect compiled
func VerifC18MapOrder() {
	prog := c18Program()
	mk := func() []ast.Stmt {
		var body []ast.Stmt
		for _, s := range prog {
			body = append(body, s.toAst())
		}
		return body
	}
	verifMapPolicy(0)
	c1, err1 := c18Compile(mk())
	verifMapPolicy(1 + verifChoice("policy", 4))
	c2, err2 := c18Compile(mk())
	verifMapPolicy(0)
	verifReach("compiled")
	verifAssert((err1 == nil) == (err2 == nil), "acceptance does not depend on the order names are analysed in")
	if err1 == nil && err2 == nil {
		verifAssert(c18Same(c1, c2), "the code object does not depend on the order names are analysed in")
	}
}

// an earlier compilation (of another program, in another mode) leaves no state
// behind that a later compilation can observe
//
//verif:property C18
//verif:expect compiled
func VerifC18NoStateLeft() {
	prog := c18Program()
	mk := func() []ast.Stmt {
		var body []ast.Stmt
		for _, s := range prog {
			body = append(body, s.toAst())
		}
		// forms the compiler treats specially: bare expression statements and constants,
		// augmented assignment, starred targets
		body = append(body, &ast.ExprStmt{Value: c02Name("x")}, &ast.ExprStmt{Value: &ast.Num{N: py.Int(42)}})
		body = append(body, &ast.AugAssign{Target: &ast.Name{Id: "x", Ctx: ast.Store}, Op: ast.Add, Value: c02Name("z")})
		body = append(body, &ast.Assign{Targets: []ast.Expr{&ast.Tuple{Elts: []ast.Expr{&ast.Name{Id: "x", Ctx: ast.Store}, &ast.Starred{Value: &ast.Name{Id: "z", Ctx: ast.Store}, Ctx: ast.Store}}, Ctx: ast.Store}}, Value: c02Name("x")})
		return body
	}
	ref, err0 := c18Compile(mk())
	// something else is compiled in between: by symbolic choice an interactive ("single" mode)
	// statement, an expression ("eval" mode), a failing compilation, or the same program again
	switch verifChoice("between", 4) {
	case 0:
		c := newCompiler(nil, compilerScopeModule)
		m := &ast.Interactive{Body: []ast.Stmt{&ast.ExprStmt{Value: c02Name("x")}}}
		if st, err := symtable.NewSymTable(m, "<i>"); err == nil {
			_ = c.compileAst(m, "<i>", 0, false, st)
		}
	case 1:
		c := newCompiler(nil, compilerScopeModule)
		m := &ast.Expression{Body: &ast.BinOp{Left: c02Name("x"), Op: ast.Add, Right: c02Name("y")}}
		if st, err := symtable.NewSymTable(m, "<e>"); err == nil {
			_ = c.compileAst(m, "<e>", 0, false, st)
		}
	case 2:
		bad := []ast.Stmt{&ast.FunctionDef{Name: "q", Args: &ast.Arguments{}, Body: []ast.Stmt{&ast.Nonlocal{Names: []ast.Identifier{"nope"}}}}}
		_, _ = c18Compile(bad)
	default:
		_, _ = c18Compile(mk())
	}
	again, err1 := c18Compile(mk())
	verifReach("compiled")
	verifAssert(err0 == nil && err1 == nil, "both compilations succeed")
	verifAssert(c18Same(ref, again), "a compilation is not affected by the compilations before it")
}

// the same through the public entry point, from source text (real lexer and parser)
//
//verif:property C18
//verif:expect compiled
func VerifC18SourceRecompile() {
	srcs := []string{
		"x = 1\nhead, *rest = x\nx += 2\nx\n42\n",
		"def f(a, *, k=3):\n    def g():\n        nonlocal a\n        a = k\n        return a\n    return g\nf(1)\n",
		"class C:\n    y = 2\n    def m(self):\n        return y\nfor i in (1, 2):\n    i\n",
	}
	src := srcs[verifChoice("src", len(srcs))]
	ref, err0 := Compile(src, "<s>", py.ExecMode, 0, true)
	switch verifChoice("between", 4) {
	case 0:
		_, _ = Compile("x\n", "<i>", py.SingleMode, 0, true)
	case 1:
		_, _ = Compile("x + y", "<e>", py.EvalMode, 0, true)
	case 2:
		_, _ = Compile("def q():\n    nonlocal nope\n", "<bad>", py.ExecMode, 0, true)
	default:
		_, _ = Compile(src, "<s>", py.ExecMode, 0, true)
	}
	again, err1 := Compile(src, "<s>", py.ExecMode, 0, true)
	verifReach("compiled")
	verifAssert(err0 == nil && err1 == nil, "both compilations succeed")
	verifAssert(c18Same(ref, again), "compiling the same source again gives a structurally identical code object, whatever was compiled in between")
}
