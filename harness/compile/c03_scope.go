package compile

import (
	"strconv"
	"strings"

	"github.com/go-python/gpython/ast"
	"github.com/go-python/gpython/py"
	"github.com/go-python/gpython/symtable"
	"github.com/go-python/gpython/vm"
)

// C03 — every name resolves to the binding Python's lexical scoping selects.
//
// A family of programs over one variable x with nested functions is compiled
// by the real symtable + compiler and run by the real VM (closures, cells,
// global/nonlocal); the placement of bindings, declarations and uses is
// symbolic. Each use is a probe p(x) that logs the identity of the object it
// received. The reference is an interpreter of the same mini-language that
// implements the scoping rules of the language reference (4.1 Naming and
// binding) directly.

type sStmt struct {
	kind    string // assign, probe, global, nonlocal, def, call, ret
	name    string
	val     int      // assign: token number
	params  []string // def
	kwonly  []string // def
	body    []*sStmt // def
	args    []int    // call: tokens passed positionally
	kwargs  []int    // call: tokens passed by keyword
	kwnames []string
	attr    string // callattr
}

func sTokName(k int) string { return "T" + strconv.Itoa(k) }

// c03Form: the expression a probe reads the name through (one form per
// program, chosen by the harness). Every form evaluates to the value of the
// name; what differs is the syntax the symbol table has to look into and the
// scope the name occurrence belongs to.
//
//	0  x
//	1  (0 if 0 else x)                  else-branch of a conditional
//	2  (x if 1 else 0)                  body of a conditional
//	3  (lambda: x)()                    lambda scope: x is free in it
//	4  [x for _i in (0,)][0]            comprehension scope: element expression
//	5  [_i for _i in (x,)][0]           outermost iterable: evaluated in the enclosing scope
//	6  (lambda _a=x: _a)()              default: evaluated in the enclosing scope at definition
//	7  {'k': x for _i in (0,)}['k']     dict comprehension scope
//	8  (0 or x)                         boolean operator
//	9  (lambda: (lambda: x)())()        free variable passed through two scopes
//	10 [x for _i in (0,) if 1][0]       comprehension with a condition
//	11 (x,)[0]   12 [x][0]   13 {'k': x}['k']          displays
//	14 (lambda _a: _a)(x)   15 (..)(_a=x)   16 (..)(*(x,))    call argument positions
//	17 (x if (1 if 1 else 0) else 0)    nested conditional
var c03Form int

const c03NForms = 18

// c03FormNested: the name occurrence of this form lies in a function scope nested in the probe's scope
func c03FormNested(form int) bool {
	switch form {
	case 3, 4, 7, 9, 10:
		return true
	}
	return false
}

func c03ProbeExpr(name string) ast.Expr {
	x := c02Name(name)
	num := func(k int64) ast.Expr { return &ast.Num{N: py.Int(k)} }
	idx0 := func(e ast.Expr) ast.Expr {
		return &ast.Subscript{Value: e, Slice: &ast.Index{Value: num(0)}, Ctx: ast.Load}
	}
	gen := func(iter ast.Expr, ifs ...ast.Expr) []ast.Comprehension {
		return []ast.Comprehension{{Target: &ast.Name{Id: "_i", Ctx: ast.Store}, Iter: &ast.Tuple{Elts: []ast.Expr{iter}, Ctx: ast.Load}, Ifs: ifs}}
	}
	switch c03Form {
	case 1:
		return &ast.IfExp{Test: num(0), Body: num(0), Orelse: x}
	case 2:
		return &ast.IfExp{Test: num(1), Body: x, Orelse: num(0)}
	case 3:
		return &ast.Call{Func: &ast.Lambda{Args: &ast.Arguments{}, Body: x}}
	case 4:
		return idx0(&ast.ListComp{Elt: x, Generators: gen(num(0))})
	case 5:
		return idx0(&ast.ListComp{Elt: c02Name("_i"), Generators: gen(x)})
	case 6:
		return &ast.Call{Func: &ast.Lambda{Args: &ast.Arguments{Args: []*ast.Arg{{Arg: "_a"}}, Defaults: []ast.Expr{x}}, Body: c02Name("_a")}}
	case 7:
		k := &ast.Str{S: "k"} // gpython's dicts take string keys only
		return &ast.Subscript{Value: &ast.DictComp{Key: k, Value: x, Generators: gen(num(0))}, Slice: &ast.Index{Value: k}, Ctx: ast.Load}
	case 8:
		return &ast.BoolOp{Op: ast.Or, Values: []ast.Expr{num(0), x}}
	case 9:
		inner := &ast.Call{Func: &ast.Lambda{Args: &ast.Arguments{}, Body: x}}
		return &ast.Call{Func: &ast.Lambda{Args: &ast.Arguments{}, Body: inner}}
	case 10:
		return idx0(&ast.ListComp{Elt: x, Generators: gen(num(0), num(1))})
	case 11:
		return idx0(&ast.Tuple{Elts: []ast.Expr{x}, Ctx: ast.Load})
	case 12:
		return idx0(&ast.List{Elts: []ast.Expr{x}, Ctx: ast.Load})
	case 13:
		k := &ast.Str{S: "k"}
		return &ast.Subscript{Value: &ast.Dict{Keys: []ast.Expr{k}, Values: []ast.Expr{x}}, Slice: &ast.Index{Value: k}, Ctx: ast.Load}
	case 14, 15, 16:
		ident := &ast.Lambda{Args: &ast.Arguments{Args: []*ast.Arg{{Arg: "_a"}}}, Body: c02Name("_a")}
		switch c03Form {
		case 14:
			return &ast.Call{Func: ident, Args: []ast.Expr{x}}
		case 15:
			return &ast.Call{Func: ident, Keywords: []*ast.Keyword{{Arg: "_a", Value: x}}}
		default:
			return &ast.Call{Func: ident, Starargs: &ast.Tuple{Elts: []ast.Expr{x}, Ctx: ast.Load}}
		}
	case 17:
		// x[...] is not available on tokens; the name as the subscripted index instead: (0, 1)[0:x] is not either.
		// a conditional as the test of a conditional: (x if (1 if 1 else 0) else 0)
		return &ast.IfExp{Test: &ast.IfExp{Test: num(1), Body: num(1), Orelse: num(0)}, Body: x, Orelse: num(0)}
	}
	return x
}

func (s *sStmt) toAst() ast.Stmt {
	switch s.kind {
	case "assign":
		return &ast.Assign{Targets: []ast.Expr{&ast.Name{Id: ast.Identifier(s.name), Ctx: ast.Store}}, Value: c02Name(sTokName(s.val))}
	case "probe":
		return &ast.ExprStmt{Value: &ast.Call{Func: c02Name("p"), Args: []ast.Expr{c03ProbeExpr(s.name)}}}
	case "global":
		return &ast.Global{Names: []ast.Identifier{ast.Identifier(s.name)}}
	case "nonlocal":
		return &ast.Nonlocal{Names: []ast.Identifier{ast.Identifier(s.name)}}
	case "def":
		args := &ast.Arguments{}
		for _, p := range s.params {
			args.Args = append(args.Args, &ast.Arg{Arg: ast.Identifier(p)})
		}
		for _, p := range s.kwonly {
			args.Kwonlyargs = append(args.Kwonlyargs, &ast.Arg{Arg: ast.Identifier(p)})
			// no defaults: gpython's own parser leaves KwDefaults empty in that case
		}
		var body []ast.Stmt
		for _, b := range s.body {
			body = append(body, b.toAst())
		}
		if len(body) == 0 {
			body = []ast.Stmt{&ast.Pass{}}
		}
		return &ast.FunctionDef{Name: ast.Identifier(s.name), Args: args, Body: body}
	case "class":
		var body []ast.Stmt
		for _, b := range s.body {
			body = append(body, b.toAst())
		}
		if len(body) == 0 {
			body = []ast.Stmt{&ast.Pass{}}
		}
		return &ast.ClassDef{Name: ast.Identifier(s.name), Body: body}
	case "callattr": // C.m()
		return &ast.ExprStmt{Value: &ast.Call{Func: &ast.Attribute{Value: c02Name(s.name), Attr: ast.Identifier(s.attr), Ctx: ast.Load}}}
	case "call":
		c := &ast.Call{Func: c02Name(s.name)}
		for _, a := range s.args {
			c.Args = append(c.Args, c02Name(sTokName(a)))
		}
		for i, a := range s.kwargs {
			c.Keywords = append(c.Keywords, &ast.Keyword{Arg: ast.Identifier(s.kwnames[i]), Value: c02Name(sTokName(a))})
		}
		return &ast.ExprStmt{Value: c}
	}
	return &ast.Pass{}
}

// ---- the reference --------------------------------------------------------------

type sScope struct {
	isClass  bool
	def      *sStmt // nil for the module
	parent   *sScope
	globals  map[string]bool
	nonlocal map[string]bool
	bound    map[string]bool
}

func sAnalyze(def *sStmt, body []*sStmt, parent *sScope) *sScope {
	sc := &sScope{def: def, parent: parent, globals: map[string]bool{}, nonlocal: map[string]bool{}, bound: map[string]bool{}}
	if def != nil && def.kind == "class" {
		sc.isClass = true
	}
	if def != nil {
		for _, p := range def.params {
			sc.bound[p] = true
		}
		for _, p := range def.kwonly {
			sc.bound[p] = true
		}
	}
	for _, s := range body {
		switch s.kind {
		case "assign", "def", "class":
			sc.bound[s.name] = true
		case "global":
			sc.globals[s.name] = true
		case "nonlocal":
			sc.nonlocal[s.name] = true
		}
	}
	return sc
}

// sBinder: the enclosing function scope whose binding a free / nonlocal use of n in sc refers to, or nil (global)
func sBinder(sc *sScope, n string) *sScope {
	for p := sc.parent; p != nil && p.def != nil; p = p.parent {
		if p.isClass {
			continue // class bodies are invisible to the scopes nested in them
		}
		if p.globals[n] {
			return nil // an explicit global declaration hides outer function bindings from inner scopes
		}
		if p.bound[n] && !p.nonlocal[n] {
			return p
		}
	}
	return nil
}

// compile-time rejections of the language reference
func sRejected(sc *sScope, body []*sStmt) bool {
	if sc.def != nil {
		for n := range sc.nonlocal {
			if sBinder(sc, n) == nil {
				return true // no binding for nonlocal found
			}
			for _, p := range append(append([]string{}, sc.def.params...), sc.def.kwonly...) {
				if p == n {
					return true // parameter declared nonlocal
				}
			}
		}
		for n := range sc.globals {
			for _, p := range append(append([]string{}, sc.def.params...), sc.def.kwonly...) {
				if p == n {
					return true // parameter declared global
				}
			}
			if sc.nonlocal[n] {
				return true
			}
		}
	}
	for _, s := range body {
		if s.kind == "def" || s.kind == "class" {
			if sRejected(sAnalyze(s, s.body, sc), s.body) {
				return true
			}
		}
	}
	return false
}

type sCell struct {
	val   string
	bound bool
}

type sEnv struct {
	scope  *sScope
	vars   map[string]*sCell
	parent *sEnv // environment of the defining invocation
}

type sFunc struct {
	def *sStmt
	env *sEnv
}

type sRef struct {
	log     []string
	globals map[string]*sCell
	funcs   map[string]*sFunc // function objects are stored by the name of the cell value
	classes map[string]*sEnv
	nfunc   int
	err     string // "" or "NameError"
}

func (r *sRef) cellFor(env *sEnv, n string, forStore bool) *sCell {
	sc := env.scope
	if sc.def == nil || sc.globals[n] {
		return r.global(n)
	}
	if sc.isClass && !sc.nonlocal[n] {
		// class body: stores go to the class namespace; loads look there first,
		// then in the enclosing function's cell (if one binds the name), then globally
		if forStore {
			return env.cell(n)
		}
		if c, ok := env.vars[n]; ok && c.bound {
			return c
		}
		if sc.bound[n] {
			// a name bound somewhere in the class body is a class-local: before its binding
			// it is looked up in the globals, NOT in enclosing functions (language reference 4.1)
			return r.global(n)
		}
		if b := sBinder(sc, n); b != nil {
			for e := env.parent; e != nil; e = e.parent {
				if e.scope == b {
					return e.cell(n)
				}
			}
		}
		return r.global(n)
	}
	if sc.nonlocal[n] || !sc.bound[n] {
		b := sBinder(sc, n)
		if b == nil {
			return r.global(n)
		}
		for e := env.parent; e != nil; e = e.parent {
			if e.scope == b {
				return e.cell(n)
			}
		}
		return r.global(n)
	}
	return env.cell(n)
}

func (e *sEnv) cell(n string) *sCell {
	c, ok := e.vars[n]
	if !ok {
		c = &sCell{}
		e.vars[n] = c
	}
	return c
}

func (r *sRef) global(n string) *sCell {
	c, ok := r.globals[n]
	if !ok {
		c = &sCell{}
		r.globals[n] = c
	}
	return c
}

func (r *sRef) run(env *sEnv, body []*sStmt) {
	for _, s := range body {
		if r.err != "" {
			return
		}
		switch s.kind {
		case "assign":
			c := r.cellFor(env, s.name, true)
			c.val, c.bound = "t"+strconv.Itoa(s.val), true
		case "probe":
			penv := env
			if c03FormNested(c03Form) {
				// the occurrence lies in a lambda / comprehension: a function scope of its own,
				// nested in this one, that neither binds nor declares the name
				lsc := sAnalyze(&sStmt{kind: "def", name: "<lambda>"}, nil, env.scope)
				penv = &sEnv{scope: lsc, vars: map[string]*sCell{}, parent: env}
			}
			c := r.cellFor(penv, s.name, false)
			if !c.bound {
				r.err = "NameError"
				return
			}
			r.log = append(r.log, "call(t0,i1,i0,"+c.val+")")
		case "def":
			r.nfunc++
			id := "f" + strconv.Itoa(r.nfunc)
			r.funcs[id] = &sFunc{def: s, env: env}
			c := r.cellFor(env, s.name, true)
			c.val, c.bound = id, true
		case "class":
			ce := &sEnv{scope: sAnalyze(s, s.body, env.scope), vars: map[string]*sCell{}, parent: env}
			r.run(ce, s.body) // the class body runs once, at definition time
			if r.err != "" {
				return
			}
			r.nfunc++
			id := "c" + strconv.Itoa(r.nfunc)
			r.classes[id] = ce
			c := r.cellFor(env, s.name, true)
			c.val, c.bound = id, true
		case "callattr":
			c := r.cellFor(env, s.name, false)
			if !c.bound {
				r.err = "NameError"
				return
			}
			ce := r.classes[c.val]
			m := ce.vars[s.attr]
			f := r.funcs[m.val]
			ne := &sEnv{scope: sAnalyze(f.def, f.def.body, f.env.scope), vars: map[string]*sCell{}, parent: f.env}
			r.run(ne, f.def.body)
		case "call":
			c := r.cellFor(env, s.name, false)
			if !c.bound {
				r.err = "NameError"
				return
			}
			f := r.funcs[c.val]
			ne := &sEnv{scope: sAnalyze(f.def, f.def.body, f.env.scope), vars: map[string]*sCell{}, parent: f.env}
			for i, p := range f.def.params {
				pc := ne.cell(p)
				pc.val, pc.bound = "t"+strconv.Itoa(s.args[i]), true
			}
			for i, p := range s.kwnames {
				pc := ne.cell(p)
				pc.val, pc.bound = "t"+strconv.Itoa(s.kwargs[i]), true
			}
			r.run(ne, f.def.body)
		}
	}
}

// ---- running the real thing -------------------------------------------------------

func c03Run(prog []*sStmt, ntok int, builtins py.StringDict) (err error) {
	var body []ast.Stmt
	for _, s := range prog {
		body = append(body, s.toAst())
	}
	mod := &ast.Module{Body: body}
	st, err := symtable.NewSymTable(mod, "<harness>")
	if err != nil {
		return err
	}
	c := newCompiler(nil, compilerScopeModule)
	if err = c.compileAst(mod, "<harness>", 0, false, st); err != nil {
		return err
	}
	for _, t := range []*py.Type{py.BaseException, py.ExceptionType, py.NameError, py.UnboundLocalError, py.SyntaxError} {
		_ = t.Ready()
	}
	globals := py.StringDict{"p": &vm.VTok{ID: 0}}
	for k := 1; k <= ntok; k++ {
		globals[sTokName(k)] = &vm.VTok{ID: k}
	}
	if builtins == nil {
		builtins = py.StringDict{}
	}
	ctx := vm.VNewCtx(builtins)
	frame := &py.Frame{Context: ctx, Code: c.Code, Globals: globals, Locals: globals, Builtins: builtins, Stack: make([]py.Object, 0, c.Code.Stacksize)}
	_, err = vm.RunFrame(frame)
	return err
}

func c03Check(prog []*sStmt, ntok int) { c03CheckWith(prog, ntok, nil) }

func c03CheckWith(prog []*sStmt, ntok int, builtins py.StringDict) {
	vm.VReset(1)
	err := c03Run(prog, ntok, builtins)
	verifReach("ran")
	msc := sAnalyze(nil, prog, nil)
	if sRejected(msc, prog) {
		verifAssert(err != nil && py.IsException(py.SyntaxError, err), "a declaration the language forbids is rejected at compile time")
		return
	}
	r := &sRef{globals: map[string]*sCell{}, funcs: map[string]*sFunc{}, classes: map[string]*sEnv{}}
	r.run(&sEnv{scope: msc, vars: map[string]*sCell{}}, prog)
	log := vm.VLog()
	verifLog("vm : " + strings.Join(log, " "))
	verifLog("ref: " + strings.Join(r.log, " "))
	if err != nil {
		verifLog("err: " + err.Error())
	}
	n := len(log)
	if len(r.log) < n {
		n = len(r.log)
	}
	for i := 0; i < n; i++ {
		verifAssert(log[i] == r.log[i], "each use of the name sees the binding Python's scoping rules select")
	}
	verifAssert(len(log) == len(r.log), "the same uses are reached")
	if r.err != "" {
		verifAssert(err != nil && py.IsException(py.NameError, err), "a use before binding raises NameError / UnboundLocalError")
	} else {
		verifAssert(err == nil, "the program runs without error")
	}
}

//verif:property C03 C01
//verif:runinit github.com/go-python/gpython/vm.init#1 github.com/go-python/gpython/vm.init#2
//verif:expect ran
//verif:maxpaths 20000 200000
func VerifC03Closures() {
	c03Form = verifChoice("form", c03NForms)
	A := func(n string, v int) *sStmt { return &sStmt{kind: "assign", name: n, val: v} }
	P := func(n string) *sStmt { return &sStmt{kind: "probe", name: n} }
	// g
	var gbody []*sStmt
	switch verifChoice("g_decl", 3) {
	case 1:
		gbody = append(gbody, &sStmt{kind: "nonlocal", name: "x"})
	case 2:
		gbody = append(gbody, &sStmt{kind: "global", name: "x"})
	}
	switch verifChoice("g_bind", 3) {
	case 0:
		gbody = append(gbody, P("x"))
	case 1:
		gbody = append(gbody, A("x", 3), P("x"))
	default:
		gbody = append(gbody, P("x"), A("x", 3), P("x"))
	}
	g := &sStmt{kind: "def", name: "g", body: gbody}
	// f
	f := &sStmt{kind: "def", name: "f"}
	fparam := verifChoice("f_param", 2) == 1
	if fparam {
		f.params = []string{"x"}
	}
	switch verifChoice("f_pre", 3) {
	case 1:
		f.body = append(f.body, A("x", 2))
	case 2:
		f.body = append(f.body, &sStmt{kind: "global", name: "x"}, A("x", 2))
	}
	f.body = append(f.body, g)
	if verifChoice("f_mid", 2) == 1 {
		f.body = append(f.body, A("x", 4)) // rebinding after g is defined: the closure sees it
	}
	f.body = append(f.body, &sStmt{kind: "call", name: "g"}, P("x"))
	call := &sStmt{kind: "call", name: "f"}
	if fparam {
		call.args = []int{5}
	}
	prog := []*sStmt{A("x", 1), P("x"), f, call, P("x")}
	c03Check(prog, 5)
}

// two sibling functions inside f; the first may declare x global or nonlocal:
// the second must be unaffected by its sibling's declarations (in either order)
//
//verif:property C03
//verif:runinit github.com/go-python/gpython/vm.init#1 github.com/go-python/gpython/vm.init#2
//verif:expect ran
//verif:maxpaths 20000 200000
func VerifC03Siblings() {
	c03Form = verifChoice("form", c03NForms)
	A := func(n string, v int) *sStmt { return &sStmt{kind: "assign", name: n, val: v} }
	P := func(n string) *sStmt { return &sStmt{kind: "probe", name: n} }
	var abody []*sStmt
	switch verifChoice("a_decl", 3) {
	case 1:
		abody = append(abody, &sStmt{kind: "global", name: "x"})
	case 2:
		abody = append(abody, &sStmt{kind: "nonlocal", name: "x"})
	}
	if verifChoice("a_bind", 2) == 1 {
		abody = append(abody, A("x", 3))
	}
	abody = append(abody, P("x"))
	var bbody []*sStmt
	switch verifChoice("b_decl", 2) {
	case 1:
		bbody = append(bbody, &sStmt{kind: "nonlocal", name: "x"}, A("x", 6))
	}
	bbody = append(bbody, P("x"))
	a := &sStmt{kind: "def", name: "a", body: abody}
	b := &sStmt{kind: "def", name: "b", body: bbody}
	f := &sStmt{kind: "def", name: "f"}
	f.body = append(f.body, A("x", 2))
	if verifChoice("order", 2) == 0 {
		f.body = append(f.body, a, b)
	} else {
		f.body = append(f.body, b, a)
	}
	f.body = append(f.body, &sStmt{kind: "call", name: "a"}, &sStmt{kind: "call", name: "b"}, P("x"))
	prog := []*sStmt{A("x", 1), f, &sStmt{kind: "call", name: "f"}, P("x")}
	c03Check(prog, 6)
}

// parameters (positional, keyword-only) captured by a closure: the argument reaches the cell
//
//verif:property C03
//verif:runinit github.com/go-python/gpython/vm.init#1 github.com/go-python/gpython/vm.init#2
//verif:expect ran
func VerifC03CapturedParams() {
	c03Form = verifChoice("form", c03NForms)
	P := func(n string) *sStmt { return &sStmt{kind: "probe", name: n} }
	npos := verifChoice("npos", 3)
	nkw := verifChoice("nkw", 3)
	f := &sStmt{kind: "def", name: "f"}
	call := &sStmt{kind: "call", name: "f"}
	names := []string{}
	for i := 0; i < npos; i++ {
		n := "a" + strconv.Itoa(i)
		f.params = append(f.params, n)
		call.args = append(call.args, 1+i)
		names = append(names, n)
	}
	for i := 0; i < nkw; i++ {
		n := "k" + strconv.Itoa(i)
		f.kwonly = append(f.kwonly, n)
		call.kwnames = append(call.kwnames, n)
		call.kwargs = append(call.kwargs, 4+i)
		names = append(names, n)
	}
	verifAssume(len(names) > 0)
	// the closure captures a symbolic subset of the parameters
	g := &sStmt{kind: "def", name: "g"}
	for _, n := range names {
		if verifChoice("cap_"+n, 2) == 1 {
			g.body = append(g.body, P(n))
		}
	}
	f.body = append(f.body, g)
	for _, n := range names {
		f.body = append(f.body, P(n)) // f itself also reads every parameter
	}
	f.body = append(f.body, &sStmt{kind: "call", name: "g"})
	prog := []*sStmt{f, call}
	c03Check(prog, 6)
}

// VerifC03ClassProgram: a function f binding x, a class C inside it (which may
// declare x global / bind x in its own namespace) with a method m using x.
// Exported for the harness in stdlib/builtin, which supplies the real __build_class__.
func VerifC03ClassProgram(builtins py.StringDict) {
	c03Form = verifChoice("form", c03NForms)
	A := func(n string, v int) *sStmt { return &sStmt{kind: "assign", name: n, val: v} }
	P := func(n string) *sStmt { return &sStmt{kind: "probe", name: n} }
	var mbody []*sStmt
	switch verifChoice("m_decl", 3) {
	case 1:
		mbody = append(mbody, &sStmt{kind: "nonlocal", name: "x"}, A("x", 6))
	case 2:
		mbody = append(mbody, &sStmt{kind: "global", name: "x"})
	}
	mbody = append(mbody, P("x"))
	m := &sStmt{kind: "def", name: "m", body: mbody}
	var cbody []*sStmt
	switch verifChoice("c_decl", 3) {
	case 1:
		cbody = append(cbody, &sStmt{kind: "global", name: "x"})
	case 2:
		cbody = append(cbody, &sStmt{kind: "nonlocal", name: "x"})
	}
	switch verifChoice("c_bind", 3) {
	case 1:
		cbody = append(cbody, A("x", 3), P("x")) // a class attribute: invisible to the method
	case 2:
		cbody = append(cbody, P("x"), A("x", 3))
	default:
		cbody = append(cbody, P("x"))
	}
	cbody = append(cbody, m)
	cls := &sStmt{kind: "class", name: "C", body: cbody}
	f := &sStmt{kind: "def", name: "f"}
	if verifChoice("f_bind", 2) == 1 {
		f.body = append(f.body, A("x", 2))
	}
	f.body = append(f.body, cls, &sStmt{kind: "callattr", name: "C", attr: "m"}, P("x"))
	prog := []*sStmt{A("x", 1), f, &sStmt{kind: "call", name: "f"}, P("x")}
	c03CheckWith(prog, 6, builtins)
}
