package compile

import (
	"strconv"

	"github.com/go-python/gpython/py"
	"github.com/go-python/gpython/vm"
)

// C04 — keyword-only parameters with and without defaults, from source text:
// the real parser builds the argument list, the real compiler emits the
// defaults, the real VM binds the call.
//
//	def f([x,] *[args], k0[=D0], k1[=D1], k2[=D2]): p(k0); p(k1); p(k2)
//	f([X,] k_i=T_i for a symbolic subset)
//
// Which parameters have a default and which keywords the call passes are
// symbolic. Reference: a passed keyword binds its parameter; otherwise the
// parameter's own default; otherwise the call is a TypeError and the body does
// not run.

//verif:property C04
//verif:runinit github.com/go-python/gpython/vm.init#1 github.com/go-python/gpython/vm.init#2
//verif:expect ran
//verif:maxpaths 20000 200000
func VerifC04KwOnlyDefaults() {
	nkw := 1 + verifChoice("nkw", 3)
	withPos := verifChoice("pos", 2) == 1
	star := []string{"*", "*args"}[verifChoice("star", 2)]
	lambda := verifChoice("lambda", 2) == 1
	hasDef := make([]bool, nkw)
	passed := make([]bool, nkw)
	params := ""
	if withPos {
		params = "x, "
	}
	params += star
	call := ""
	if withPos {
		call = "X"
	}
	for i := 0; i < nkw; i++ {
		k := "k" + strconv.Itoa(i)
		hasDef[i] = verifChoice("def_"+k, 2) == 1
		passed[i] = verifChoice("pass_"+k, 2) == 1
		params += ", " + k
		if hasDef[i] {
			params += "=D" + strconv.Itoa(i)
		}
		if passed[i] {
			if call != "" {
				call += ", "
			}
			call += k + "=T" + strconv.Itoa(i)
		}
	}
	var src string
	if lambda {
		elts := ""
		for i := 0; i < nkw; i++ {
			elts += "p(k" + strconv.Itoa(i) + "), "
		}
		src = "f = lambda " + params + ": (" + elts + ")\n"
	} else {
		src = "def f(" + params + "):\n"
		for i := 0; i < nkw; i++ {
			src += "    p(k" + strconv.Itoa(i) + ")\n"
		}
	}
	src += "f(" + call + ")\n"
	verifLog(src)
	code, err := Compile(src, "<harness>", py.ExecMode, 0, true)
	verifAssert(err == nil, "a legal definition and call compile")
	for _, t := range []*py.Type{py.BaseException, py.ExceptionType, py.TypeError, py.NameError} {
		_ = t.Ready()
	}
	vm.VReset(1)
	globals := py.StringDict{"p": &vm.VTok{ID: 0}, "X": &vm.VTok{ID: 5}}
	for i := 0; i < 3; i++ {
		globals["D"+strconv.Itoa(i)] = &vm.VTok{ID: 10 + i}
		globals["T"+strconv.Itoa(i)] = &vm.VTok{ID: 20 + i}
	}
	builtins := py.StringDict{}
	ctx := vm.VNewCtx(builtins)
	frame := &py.Frame{Context: ctx, Code: code, Globals: globals, Locals: globals, Builtins: builtins, Stack: make([]py.Object, 0, code.Stacksize)}
	_, err = vm.RunFrame(frame)
	verifReach("ran")
	log := vm.VLog()
	legal := true
	var want []string
	for i := 0; i < nkw; i++ {
		switch {
		case passed[i]:
			want = append(want, "call(t0,i1,i0,t"+strconv.Itoa(20+i)+")")
		case hasDef[i]:
			want = append(want, "call(t0,i1,i0,t"+strconv.Itoa(10+i)+")")
		default:
			legal = false
		}
	}
	if !legal {
		verifAssert(err != nil && py.IsException(py.TypeError, err), "a keyword-only parameter without default that is not passed is a TypeError")
		verifAssert(len(log) == 0, "and the body does not run")
		return
	}
	verifAssert(err == nil, "a call that passes or defaults every keyword-only parameter is legal")
	verifAssert(len(log) == len(want), "the body runs once")
	for i := range want {
		if i < len(log) {
			verifAssert(log[i] == want[i], "each keyword-only parameter receives its own keyword argument or its own default")
		}
	}
}
