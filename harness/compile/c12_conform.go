package compile

import (
	"github.com/go-python/gpython/ast"
	"github.com/go-python/gpython/py"
	"github.com/go-python/gpython/symtable"
	"github.com/go-python/gpython/vm"
)

// C12 items 4-5 — every code object the compiler emits for the program family
// of C02 (nested if / while / for / try / with, with break, continue, raise and,
// inside a function, return placed anywhere) is statically well-formed, and the
// VM stays within what the code object declares on every executed path: the
// family's probes, conditions, iterators and context managers have symbolic
// outcomes, so "every executed path" ranges over which point raises, breaks,
// continues, returns or is silenced.
//
// static, on the bytes of each code object (nested ones included):
//   every instruction decodes inside the code; every jump operand lands on an
//   instruction boundary inside the code; every operand indexes an existing
//   constant / name / local / cell; the code does not fall off its end.
// dynamic, at every executed instruction:
//   the instruction pointer is on a boundary; the value stack holds at most
//   co_stacksize objects; a frame that returns normally leaves no block and no
//   value behind.

type c12Decoded struct {
	starts map[int]bool
	ops    []vm.OpCode
	args   []int32
	offs   []int
}

func c12Decode(code *py.Code) *c12Decoded {
	d := &c12Decoded{starts: map[int]bool{}}
	b := code.Code
	ext := int32(0)
	for i := 0; i < len(b); {
		start := i
		op := vm.OpCode(b[i])
		i++
		arg := int32(0)
		if op.HAS_ARG() {
			verifAssert(i+1 < len(b), "every instruction decodes inside the code")
			arg = int32(b[i]) | int32(b[i+1])<<8 | ext<<16
			i += 2
		}
		if op == vm.EXTENDED_ARG {
			ext = arg
			d.starts[start] = true
			continue
		}
		ext = 0
		d.starts[start] = true
		d.ops = append(d.ops, op)
		d.args = append(d.args, arg)
		d.offs = append(d.offs, i) // offset behind the instruction
	}
	return d
}

func c12Static(code *py.Code) {
	d := c12Decode(code)
	n := len(code.Code)
	verifAssert(n > 0, "a code object has instructions")
	for k, op := range d.ops {
		arg, next := int(d.args[k]), d.offs[k]
		switch op {
		case vm.JUMP_FORWARD, vm.FOR_ITER, vm.SETUP_LOOP, vm.SETUP_EXCEPT, vm.SETUP_FINALLY, vm.SETUP_WITH:
			t := next + arg
			verifAssert(t < n && d.starts[t], "every relative jump lands on an instruction boundary inside the code")
		case vm.JUMP_ABSOLUTE, vm.POP_JUMP_IF_FALSE, vm.POP_JUMP_IF_TRUE, vm.JUMP_IF_FALSE_OR_POP, vm.JUMP_IF_TRUE_OR_POP, vm.CONTINUE_LOOP:
			verifAssert(arg < n && d.starts[arg], "every absolute jump lands on an instruction boundary inside the code")
		case vm.LOAD_CONST:
			verifAssert(arg < len(code.Consts), "LOAD_CONST indexes an existing constant")
		case vm.LOAD_NAME, vm.STORE_NAME, vm.DELETE_NAME, vm.LOAD_ATTR, vm.STORE_ATTR, vm.DELETE_ATTR, vm.LOAD_GLOBAL, vm.STORE_GLOBAL, vm.DELETE_GLOBAL, vm.IMPORT_NAME, vm.IMPORT_FROM:
			verifAssert(arg < len(code.Names), "a name operand indexes an existing name")
		case vm.LOAD_FAST, vm.STORE_FAST, vm.DELETE_FAST:
			verifAssert(arg < len(code.Varnames), "a local operand indexes an existing local")
		case vm.LOAD_DEREF, vm.STORE_DEREF, vm.DELETE_DEREF, vm.LOAD_CLOSURE, vm.LOAD_CLASSDEREF:
			verifAssert(arg < len(code.Cellvars)+len(code.Freevars), "a cell operand indexes an existing cell")
		}
	}
	last := d.ops[len(d.ops)-1]
	verifAssert(last == vm.RETURN_VALUE || last == vm.JUMP_ABSOLUTE || last == vm.RAISE_VARARGS, "the code does not fall off its end")
	verifAssert(code.Stacksize >= 0, "stack size is declared")
	for _, c := range code.Consts {
		if nested, ok := c.(*py.Code); ok {
			c12Static(nested)
		}
	}
}

// c12Run compiles the module body, checks every code object statically, runs it with the
// dynamic checks installed and returns the error of the run.
func c12Run(body []ast.Stmt) error {
	mod := &ast.Module{Body: body}
	st, err := symtable.NewSymTable(mod, "<harness>")
	if err != nil {
		return err
	}
	c := newCompiler(nil, compilerScopeModule)
	if err = c.compileAst(mod, "<harness>", 0, false, st); err != nil {
		return err
	}
	c12Static(c.Code)
	verifReach("static")
	globals := py.StringDict{"p": &vm.VTok{ID: 0}, "c": &vm.VTok{ID: 1}, "c2": &vm.VTok{ID: 2}, "it": &vm.VTok{ID: 3}, "m": &vm.VTok{ID: 4},
		"KeyError": py.KeyError, "ValueError": py.ValueError, "IndexError": py.IndexError, "LookupError": py.LookupError, "Exception": py.ExceptionType}
	for _, t := range []*py.Type{py.BaseException, py.ExceptionType, py.LookupError, py.KeyError, py.IndexError, py.ValueError} {
		if rerr := t.Ready(); rerr != nil {
			return rerr
		}
	}
	decoded := map[*py.Code]*c12Decoded{}
	restore := vm.VOnInstr(func(f *py.Frame, op vm.OpCode, arg int32) {
		d := decoded[f.Code]
		if d == nil {
			d = c12Decode(f.Code)
			decoded[f.Code] = d
		}
		at := int(f.Lasti)
		verifAssert(at == len(f.Code.Code) || d.starts[at], "the instruction pointer stays on instruction boundaries")
		verifAssert(len(f.Stack) <= int(f.Code.Stacksize), "the value stack never exceeds the declared stack size")
		// the frame's stack is allocated with the declared size as its capacity: a push beyond it
		// inside an instruction (exception unwinding, WITH_CLEANUP, ...) makes append reallocate
		verifAssert(cap(f.Stack) <= int(f.Code.Stacksize) || int(f.Code.Stacksize) == 0, "the value stack never outgrows the declared stack size inside an instruction either")
		if op == vm.RETURN_VALUE {
			verifAssert(len(f.Stack) >= 1, "RETURN_VALUE finds its operand")
		}
	})
	defer restore()
	frame := py.NewFrame(vm.VNewCtx(py.StringDict{}), globals, globals, c.Code, nil)
	_, err = vm.RunFrame(frame)
	verifAssert(cap(frame.Stack) <= int(c.Code.Stacksize) || c.Code.Stacksize == 0, "the value stack never outgrows the declared stack size inside an instruction either")
	if err == nil {
		verifAssert(len(frame.Blockstack) == 0, "a frame that returns normally leaves no block behind")
		verifAssert(len(frame.Stack) == 0, "a frame that returns normally leaves no value behind")
	}
	return err
}

// the module-level family of C02
//
//verif:property C12
//verif:runinit github.com/go-python/gpython/vm.init#2
//verif:expect static
//verif:maxpaths 30000 300000
//verif:timeout 300 1500
func VerifC12ConformFlow() {
	kind := verifChoice("kind", 7)
	hot := 1 + verifChoice("hot", 3)
	g := &c02Gen{hot: hot, depth: 1}
	if verifBound(0, 1) == 1 {
		g.depth = 2
		g.hot2 = 1 + verifChoice("hot2", 3)
	} else if verifChoice("slice", 2) == 1 {
		// quick tier, second slice: a loop nested in any body of a loop (break / continue / raise in
		// any body of the inner loop, its else clause included)
		verifAssume(kind == 1 || kind == 2)
		g.depth = 2
		g.hot2 = 1 + verifChoice("hot2", 3)
		g.onlyLoops = true
	}
	prog := []ast.Stmt{g.probe(), g.compound(kind, false, 1), g.probe()}
	vm.VReset(2)
	_ = c12Run(prog)
}

// the same statements with nothing else in their bodies (no probe calls): the
// declared stack size then has no slack beyond what the statement's own
// set-up, unwinding and clean-up need, at module level and as a function body
//
//verif:property C12
//verif:runinit github.com/go-python/gpython/vm.init#2 github.com/go-python/gpython/py.init@type.go:1 github.com/go-python/gpython/vm.init@eval.go:1
//verif:expect static
//verif:maxpaths 30000 300000
//verif:timeout 300 1500
func VerifC12StackTight() {
	kind := verifChoice("kind", 7)
	hot := 1 + verifChoice("hot", 3)
	g := &c02Gen{hot: hot, depth: verifBound(1, 2), tight: true}
	g.hot2 = 1 + verifChoice("hot2", 3)
	stmt := g.compound(kind, false, 1)
	vm.VReset(2)
	if verifChoice("where", 2) == 0 {
		_ = c12Run([]ast.Stmt{stmt})
		return
	}
	def := &ast.FunctionDef{Name: "f", Args: &ast.Arguments{}, Body: []ast.Stmt{stmt}}
	call := &ast.ExprStmt{Value: &ast.Call{Func: c02Name("f")}}
	_ = c12Run([]ast.Stmt{def, call})
}

// the same statements as the body of a function, with `return` as a further
// inner statement and the compound statement last in the body (so that the
// code ends in whatever the statement ends in)
//
//verif:property C12
//verif:runinit github.com/go-python/gpython/vm.init#2 github.com/go-python/gpython/py.init@type.go:1 github.com/go-python/gpython/vm.init@eval.go:1
//verif:expect static
//verif:maxpaths 30000 300000
//verif:timeout 300 1500
func VerifC12ConformFunction() {
	kind := verifChoice("kind", 7)
	g := &c02Gen{hot: 0, depth: 1}
	// returns placed in the bodies of the statement: a case split per body
	ret := func(name string) []ast.Stmt {
		switch verifChoice(name, verifBound(2, 3)) {
		case 1:
			return []ast.Stmt{&ast.Return{Value: &ast.Num{N: py.Int(1)}}}
		case 2:
			return []ast.Stmt{&ast.Return{}}
		}
		return nil
	}
	stmt := g.compound(kind, false, 1)
	switch s := stmt.(type) {
	case *ast.If:
		s.Body = append(s.Body, ret("ret_body")...)
		s.Orelse = append(s.Orelse, ret("ret_else")...)
	case *ast.While:
		s.Body = append(s.Body, ret("ret_body")...)
		s.Orelse = append(s.Orelse, ret("ret_else")...)
	case *ast.For:
		s.Body = append(s.Body, ret("ret_body")...)
		s.Orelse = append(s.Orelse, ret("ret_else")...)
	case *ast.Try:
		s.Body = append(s.Body, ret("ret_body")...)
		for _, h := range s.Handlers {
			h.Body = append(h.Body, ret("ret_handler")...)
		}
		if len(s.Orelse) > 0 {
			s.Orelse = append(s.Orelse, ret("ret_else")...)
		}
		if len(s.Finalbody) > 0 {
			s.Finalbody = append(s.Finalbody, ret("ret_final")...)
		}
	case *ast.With:
		s.Body = append(s.Body, ret("ret_body")...)
	}
	body := []ast.Stmt{g.probe(), stmt}
	if verifChoice("tail", 2) == 1 {
		body = append(body, g.probe())
	}
	fn := &ast.FunctionDef{Name: "f", Args: &ast.Arguments{}, Body: body}
	call := &ast.ExprStmt{Value: &ast.Call{Func: c02Name("f")}}
	prog := []ast.Stmt{fn, call}
	vm.VReset(2)
	_ = c12Run(prog)
}
