package builtin

import (
	"github.com/go-python/gpython/compile"
	"github.com/go-python/gpython/py"
)

// C03 — class bodies: the real __build_class__ builtin runs the class body.

//verif:property C03 C11
//verif:runinit github.com/go-python/gpython/py.init@type.go:1 github.com/go-python/gpython/vm.init#1 github.com/go-python/gpython/vm.init#2
//verif:expect ran
func VerifC03ClassScopes() {
	// module functions get their Module when a context instantiates the module
	impl := &py.ModuleImpl{Info: py.ModuleInfo{Name: "builtins"}, Globals: py.StringDict{},
		Methods: []*py.Method{py.MustNewMethod("__build_class__", builtin___build_class__, 0, "")}}
	m, err := py.NewModuleStore().NewModule(nil, impl)
	verifAssert(err == nil, "builtins module instantiated")
	compile.VerifC03ClassProgram(m.Globals)
}
