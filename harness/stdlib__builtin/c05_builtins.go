package builtin

import (
	"strconv"

	"github.com/go-python/gpython/py"
)

// C05 / C15 — builtins that consume an iterable (all, any, sum, min, max,
// sorted, next) stop only on StopIteration in any of its forms, propagate any
// other exception unchanged, and agree with the operators they are defined by.

type bProducer struct {
	calls int
	items []py.Object
}

var (
	bProducerType = py.NewType("bproducer", "")
	bOther        = py.ExceptionNewf(py.KeyError, "producer failed")
	bStopInstance = py.ExceptionNewf(py.StopIteration, "done")
)

func (p *bProducer) Type() *py.Type               { return bProducerType }
func (p *bProducer) M__iter__() (py.Object, error) { return p, nil }

func (p *bProducer) M__next__() (py.Object, error) {
	p.calls++
	n, lo := 5, 0
	if len(p.items) >= 2 {
		lo, n = 1, 4
	}
	switch lo + verifChoice("next"+strconv.Itoa(p.calls), n) {
	case 0:
		v := py.Int(verifInt64("v" + strconv.Itoa(p.calls)))
		p.items = append(p.items, v)
		return v, nil
	case 1:
		return nil, py.StopIteration
	case 2:
		return nil, bStopInstance
	case 3:
		return nil, py.ExceptionInfo{Type: py.StopIteration, Value: bStopInstance}
	}
	return nil, bOther
}

// how the last call ended: 1 StopIteration (any form), 2 other error, 0 with a value
func (p *bProducer) ended() int {
	if p.calls == len(p.items) {
		return 0
	}
	k := verifChoiceOf("next" + strconv.Itoa(p.calls))
	if len(p.items) >= 2 {
		k++
	}
	if k == 4 {
		return 2
	}
	return 1
}

func bReady() {
	for _, t := range []*py.Type{py.BaseException, py.ExceptionType, py.StopIteration, py.LookupError, py.KeyError, py.ValueError} {
		_ = t.Ready()
	}
}

//verif:property C05 C15
//verif:expect folded
//verif:maxpaths 20000 100000
func VerifC05BuiltinFolds() {
	bReady()
	p := &bProducer{}
	which := verifChoice("builtin", 6)
	var got py.Object
	var err error
	switch which {
	case 0:
		got, err = builtin_all(nil, p)
	case 1:
		got, err = builtin_any(nil, p)
	case 2:
		got, err = builtin_sum(nil, py.Tuple{p})
	case 3:
		got, err = builtin_min(nil, py.Tuple{p}, nil)
	case 4:
		got, err = builtin_max(nil, py.Tuple{p}, nil)
	default:
		got, err = builtin_sorted(nil, py.Tuple{p}, nil)
	}
	verifReach("folded")
	// all/any may stop early on a deciding item
	if which <= 1 && p.ended() == 0 {
		last := p.items[len(p.items)-1].(py.Int)
		verifAssert(err == nil && got == py.Object(py.Bool(which == 1)) && (last != 0) == (which == 1), "all/any stop early only on a deciding item")
		return
	}
	if p.ended() == 2 {
		verifAssert(err == error(bOther), "an exception raised by the iterator propagates unchanged")
		return
	}
	verifAssert(p.ended() == 1, "the iterable is consumed to its end")
	switch which {
	case 0:
		verifAssert(err == nil && got == py.Object(py.True), "all() of items that are all true")
	case 1:
		verifAssert(err == nil && got == py.Object(py.False), "any() of items that are all false")
	case 2:
		want := py.Object(py.Int(0))
		for _, it := range p.items {
			want, _ = py.Add(want, it)
		}
		eq, _ := py.Eq(got, want)
		verifAssert(err == nil && eq == py.Object(py.True), "sum() is the left fold of + from 0")
	case 3, 4:
		if len(p.items) == 0 {
			e, ok := err.(*py.Exception)
			verifAssert(ok && e.Base == py.ValueError, "min/max of an empty iterable is a ValueError")
			return
		}
		verifAssert(err == nil, "no error")
		g, ok := got.(py.Int)
		verifAssert(ok, "an item is returned")
		for _, it := range p.items {
			if which == 3 {
				verifAssert(g <= it.(py.Int), "min() is not above any item")
			} else {
				verifAssert(g >= it.(py.Int), "max() is not below any item")
			}
		}
		found := false
		for _, it := range p.items {
			if it.(py.Int) == g {
				found = true
			}
		}
		verifAssert(found, "min/max returns one of the items")
	default:
		l, ok := got.(*py.List)
		verifAssert(err == nil && ok && len(l.Items) == len(p.items), "sorted() returns a list of all items")
		for i := 1; i < len(l.Items); i++ {
			verifAssert(l.Items[i-1].(py.Int) <= l.Items[i].(py.Int), "in ascending order")
		}
	}
}

//verif:property C05
//verif:expect called
func VerifC05BuiltinNext() {
	bReady()
	p := &bProducer{}
	withDefault := verifChoice("default", 2) == 1
	def := py.Object(py.String("default"))
	args := py.Tuple{p}
	if withDefault {
		args = py.Tuple{p, def}
	}
	got, err := builtin_next(nil, args)
	verifReach("called")
	switch p.ended() {
	case 0:
		verifAssert(err == nil && got == p.items[0], "next() returns the item")
	case 1:
		if withDefault {
			verifAssert(err == nil && got == def, "the default replaces StopIteration")
		} else {
			verifAssert(err != nil && py.IsException(py.StopIteration, err), "StopIteration propagates without a default")
		}
	default:
		verifAssert(err == error(bOther), "any other exception propagates unchanged, default or not")
	}
}

// zip / map / filter / enumerate are lazy consumers: each next() on them draws
// from the producer, they end exactly when the producer ends (StopIteration in
// any form), pass any other exception on unchanged, and zip() of nothing is empty.
//
//verif:property C05
//verif:runinit github.com/go-python/gpython/py.init@type.go:1
//verif:expect drove
//verif:maxpaths 20000 100000
func VerifC05LazyConsumers() {
	bReady()
	p := &bProducer{}
	ident := py.MustNewMethod("ident", func(self py.Object, args py.Tuple) (py.Object, error) {
		if len(args) != 1 {
			return nil, py.ExceptionNewf(py.TypeError, "one argument")
		}
		return args[0], nil
	}, 0, "")
	which := verifChoice("consumer", 5)
	var it py.Object
	var err error
	switch which {
	case 0:
		it, err = py.Call(py.ZipType, py.Tuple{p}, nil)
	case 1:
		it, err = py.Call(py.MapType, py.Tuple{ident, p}, nil)
	case 2:
		it, err = py.Call(py.FilterType, py.Tuple{ident, p}, nil)
	case 3:
		it, err = py.Call(py.EnumerateType, py.Tuple{p}, nil)
	case 4:
		it, err = py.Call(py.ZipType, nil, nil)
	}
	verifAssert(err == nil, "the lazy consumer is created without touching the producer")
	verifAssert(p.calls == 0, "nothing is drawn before the first next()")
	var got []py.Object
	var end error
	for k := 0; k < 4; k++ {
		v, e := py.Next(it)
		if e != nil {
			end = e
			break
		}
		got = append(got, v)
	}
	verifReach("drove")
	if which == 4 {
		verifAssert(end != nil && py.IsException(py.StopIteration, end) && len(got) == 0, "zip() of no iterables is empty")
		return
	}
	if p.ended() == 2 {
		verifAssert(end == error(bOther), "an exception raised by the producer propagates unchanged")
	} else if p.ended() == 1 {
		verifAssert(end != nil && py.IsException(py.StopIteration, end), "the consumer ends when the producer ends")
	}
	// the items delivered so far
	want := p.items
	switch which {
	case 0:
		verifAssert(len(got) == len(want) || (p.ended() == 0 && len(got) <= len(want)), "zip delivers one tuple per item")
		for i := range got {
			t, ok := got[i].(py.Tuple)
			verifAssert(ok && len(t) == 1 && t[0] == want[i], "zip yields 1-tuples of the items in order")
		}
	case 1:
		for i := range got {
			verifAssert(got[i] == want[i], "map yields f(item) in order")
		}
	case 2:
		n := 0
		for _, w := range want {
			if w.(py.Int) != 0 {
				if n < len(got) {
					verifAssert(got[n] == w, "filter yields the true items in order")
				}
				n++
			}
		}
		verifAssert(len(got) <= n, "filter yields only true items")
	case 3:
		for i := range got {
			t, ok := got[i].(py.Tuple)
			verifAssert(ok && len(t) == 2 && t[0] == py.Object(py.Int(i)) && t[1] == want[i], "enumerate yields (index, item)")
		}
	}
}
