package builtin

import (
	"math/big"

	"github.com/go-python/gpython/py"
)

// C07 — hex(n), oct(n), bin(n) for an integer of either representation (word,
// arbitrary precision - also one that would fit a word - or bool): the text is
// [-] prefix digits, digits canonical (no leading zero, lower case) and
// denoting |n| exactly.

func c07bOperand(name string, bits int) (py.Object, *big.Int) {
	switch verifChoice(name+"_rep", 3) {
	case 0:
		v := verifInt64(name)
		return py.Int(v), big.NewInt(v)
	case 1:
		b := verifBigInt(name, bits)
		return (*py.BigInt)(b), new(big.Int).Set(b)
	default:
		if verifBool(name) {
			return py.Bool(true), big.NewInt(1)
		}
		return py.Bool(false), big.NewInt(0)
	}
}

func c07bCanon(s string, prefix string, base int, v *big.Int) bool {
	if v.Sign() < 0 {
		if len(s) == 0 || s[0] != '-' {
			return false
		}
		s = s[1:]
	}
	if len(s) < len(prefix) || s[:len(prefix)] != prefix {
		return false
	}
	s = s[len(prefix):]
	if len(s) == 0 || (len(s) > 1 && s[0] == '0') {
		return false
	}
	lower := true
	for i := 0; i < len(s); i++ {
		lower = verifAnd(lower, uint8(s[i]-'A') >= 26)
	}
	got, ok := verifParseDigits(s, base)
	return verifAnd(lower, ok) && got.Cmp(new(big.Int).Abs(v)) == 0
}

//verif:havoc int:text
//verif:property C07
//verif:encoding int
//verif:maxpaths 30000 100000
//verif:timeout 400 1500
//verif:expect called
func VerifC07BaseText() {
	a, av := c07bOperand("a", verifBound(66, 100))
	var got py.Object
	var err error
	var prefix string
	var base int
	switch verifChoice("fn", 3) {
	case 0:
		got, err = builtin_hex(nil, a)
		prefix, base = "0x", 16
	case 1:
		got, err = builtin_oct(nil, a)
		prefix, base = "0o", 8
	default:
		got, err = builtin_bin(nil, a)
		prefix, base = "0b", 2
	}
	verifReach("called")
	verifAssert(err == nil, "no error")
	s, ok := got.(py.String)
	verifAssert(ok, "the result is a string")
	verifAssert(c07bCanon(string(s), prefix, base, av), "hex/oct/bin(n) is the canonical prefixed text of n")
	if base == 16 {
		return // reading hexadecimal text back is VerifC07TextShort/Long (the real parser forks on every digit's class)
	}
	// reading the text back with base 0 gives n
	back, err := py.IntFromString(string(s), 0)
	verifAssert(err == nil, "int(text, 0) accepts the text")
	var bv *big.Int
	switch b := back.(type) {
	case py.Int:
		bv = big.NewInt(int64(b))
	case *py.BigInt:
		bv = (*big.Int)(b)
	}
	verifAssert(bv != nil && bv.Cmp(av) == 0, "int(hex/oct/bin(n), 0) == n")
}
