package builtin

import (
	"github.com/go-python/gpython/py"
)

// C10 — every builtin function and every builtin type constructor applied to
// 0..3 positional arguments (and one keyword argument) of any kinds: no Go
// panic, whatever the types and the (symbolic) scalar values.
//
// Not called here: input, open, print (I/O), compile/eval/exec/__import__
// (they need a context and run the parser: C11 drives that pipeline), and
// globals/locals/vars (implemented inside the VM's call instruction).

func c10Builtins() *py.Module {
	impl := &py.ModuleImpl{Info: py.ModuleInfo{Name: "builtins"}, Globals: py.StringDict{},
		Methods: []*py.Method{
			py.MustNewMethod("__build_class__", builtin___build_class__, 0, ""),
			py.MustNewMethod("abs", builtin_abs, 0, ""),
			py.MustNewMethod("all", builtin_all, 0, ""),
			py.MustNewMethod("any", builtin_any, 0, ""),
			py.MustNewMethod("ascii", builtin_ascii, 0, ""),
			py.MustNewMethod("bin", builtin_bin, 0, ""),
			py.MustNewMethod("chr", builtin_chr, 0, ""),
			py.MustNewMethod("delattr", builtin_delattr, 0, ""),
			py.MustNewMethod("divmod", builtin_divmod, 0, ""),
			py.MustNewMethod("exit", builtin_exit, 0, ""),
			py.MustNewMethod("getattr", builtin_getattr, 0, ""),
			py.MustNewMethod("hasattr", builtin_hasattr, 0, ""),
			py.MustNewMethod("hex", builtin_hex, 0, ""),
			py.MustNewMethod("isinstance", builtin_isinstance, 0, ""),
			py.MustNewMethod("iter", builtin_iter, 0, ""),
			py.MustNewMethod("len", builtin_len, 0, ""),
			py.MustNewMethod("max", builtin_max, 0, ""),
			py.MustNewMethod("min", builtin_min, 0, ""),
			py.MustNewMethod("next", builtin_next, 0, ""),
			py.MustNewMethod("oct", builtin_oct, 0, ""),
			py.MustNewMethod("ord", builtin_ord, 0, ""),
			py.MustNewMethod("pow", builtin_pow, 0, ""),
			py.MustNewMethod("quit", builtin_quit, 0, ""),
			py.MustNewMethod("repr", builtin_repr, 0, ""),
			py.MustNewMethod("round", builtin_round, 0, ""),
			py.MustNewMethod("setattr", builtin_setattr, 0, ""),
			py.MustNewMethod("sorted", builtin_sorted, 0, ""),
			py.MustNewMethod("sum", builtin_sum, 0, ""),
		}}
	m, err := py.NewModuleStore().NewModule(nil, impl)
	verifAssert(err == nil, "builtins module instantiated")
	return m
}

var c10FuncNames = []string{"__build_class__", "abs", "all", "any", "ascii", "bin", "chr", "delattr", "divmod", "exit", "getattr", "hasattr", "hex",
	"isinstance", "iter", "len", "max", "min", "next", "oct", "ord", "pow", "quit", "repr", "round", "setattr", "sorted", "sum"}

var c10Constructors = []*py.Type{py.BoolType, py.BytesType, py.ClassMethodType, py.ComplexType, py.StringDictType, py.EnumerateType, py.FilterType,
	py.FloatType, py.FrozenSetType, py.IntType, py.ListType, py.MapType, py.ObjectType, py.RangeType, py.SetType, py.SliceType, py.StaticMethodType,
	py.StringType, py.TupleType, py.TypeType, py.ZipType, py.ValueError, py.BaseException}

func c10Callable(m *py.Module) py.Object {
	n := len(c10FuncNames)
	k := verifChoice("callable", n+len(c10Constructors))
	if k < n {
		return m.Globals[c10FuncNames[k]]
	}
	return c10Constructors[k-n]
}

func c10Args(maxN int) py.Tuple {
	n := verifChoice("nargs", maxN+1)
	args := make(py.Tuple, n)
	for i := range args {
		name := "arg" + string(rune('0'+i))
		if i == 2 {
			args[i] = py.VerifC10Scalar(name)
		} else {
			args[i] = py.VerifC10Compact(name)
		}
	}
	return args
}

//verif:property C10
//verif:timeout 600 3600
//verif:maxpaths 600000 8000000
//verif:runinit github.com/go-python/gpython/py.init@type.go:1 github.com/go-python/gpython/py.init@exception.go:1
//verif:havoc math.Pow math.Mod math/cmplx.Pow math.Exp math.Log math.Sincos math.Sin math.Cos math.Atan2 strconv.FormatFloat strconv.AppendFloat strconv.ParseFloat
//verif:expect called
func VerifC10BuiltinCalls() {
	m := c10Builtins()
	fn := c10Callable(m)
	var args py.Tuple
	if verifBound(0, 1) == 0 && verifChoice("three_scalars", 2) == 1 {
		// quick tier: three arguments are explored over the scalar kinds only (thorough: any kinds for the first two)
		args = py.Tuple{py.VerifC10Scalar("arg0"), py.VerifC10Scalar("arg1"), py.VerifC10Scalar("arg2")}
	} else {
		args = c10Args(verifBound(2, 3))
	}
	// divmod/pow of two symbolic integers: non-linear; VerifC10IntArith / VerifC10IntPow (and C07) cover those operators
	if k := verifChoiceOf("callable"); (k == 8 || k == 21) && len(args) >= 2 && py.VerifC10IsInt(args[0]) && py.VerifC10IsInt(args[1]) {
		return
	}
	// divmod with a float operand: VerifC15FloatMod decides float divmod (a Go panic there is a violation too)
	if k := verifChoiceOf("callable"); k == 8 && len(args) >= 2 {
		_, f0 := args[0].(py.Float)
		_, f1 := args[1].(py.Float)
		if f0 || f1 {
			return
		}
	}
	_, _ = py.Call(fn, args, nil)
	verifReach("called")
	verifAssert(true, "the operation came back (value or error) without a Go panic, for every value of the symbolic operands on this path")
}

// one keyword argument, at most one positional argument
//
//verif:property C10
//verif:timeout 600 3600
//verif:maxpaths 600000 8000000
//verif:runinit github.com/go-python/gpython/py.init@type.go:1 github.com/go-python/gpython/py.init@exception.go:1
//verif:havoc math.Pow math.Mod math/cmplx.Pow math.Exp math.Log math.Sincos math.Sin math.Cos math.Atan2 strconv.FormatFloat strconv.AppendFloat strconv.ParseFloat
//verif:expect called
func VerifC10BuiltinKeywords() {
	m := c10Builtins()
	fn := c10Callable(m)
	args := c10Args(1)
	names := []string{"key", "reverse", "base", "default", "start", "x", "real", "imag", "encoding", "object"}
	kw := py.StringDict{names[verifChoice("kwname", verifBound(5, len(names)))]: py.VerifC10Scalar("kwval")}
	_, _ = py.Call(fn, args, kw)
	verifReach("called")
	verifAssert(true, "the operation came back (value or error) without a Go panic, for every value of the symbolic operands on this path")
}

// a misbehaving object (see harness/py/c10_weird.go) as an argument of every builtin function and type constructor
//
//verif:property C10
//verif:timeout 600 3600
//verif:maxpaths 600000 8000000
//verif:runinit github.com/go-python/gpython/py.init@type.go:1 github.com/go-python/gpython/py.init@exception.go:1
//verif:havoc math.Pow math.Mod math/cmplx.Pow math.Exp math.Log math.Sincos math.Sin math.Cos math.Atan2 strconv.FormatFloat strconv.AppendFloat strconv.ParseFloat
//verif:expect called
func VerifC10BuiltinWeird() {
	m := c10Builtins()
	fn := c10Callable(m)
	w := py.VerifC10Weird()
	var args py.Tuple
	switch verifChoice("shape", 4) {
	case 0:
		args = py.Tuple{w}
	case 1:
		args = py.Tuple{w, py.VerifC10Scalar("arg1")}
	case 2:
		args = py.Tuple{py.VerifC10Scalar("arg0"), w}
	case 3:
		args = py.Tuple{py.VerifC10Scalar("arg0"), py.VerifC10Scalar("arg1"), w}
	}
	_, _ = py.Call(fn, args, nil)
	verifReach("called")
	verifAssert(true, "the operation came back (value or error) without a Go panic, for every value of the symbolic operands on this path")
}
