package builtin

import "github.com/go-python/gpython/py"

// C14 — ord / chr over every code point: chr(i) is a string of one code point
// (stored in the UTF-8 width of its range) and ord gives i back; outside
// range(0x110000) chr raises ValueError. The lone surrogates U+D800..U+DFFF
// have no UTF-8 form and are outside the claim.

//verif:property C14
//verif:expect called
func VerifC14OrdChr() {
	for _, t := range []*py.Type{py.BaseException, py.ExceptionType, py.ValueError, py.TypeError} {
		_ = t.Ready()
	}
	i := verifInt64("i")
	r, err := builtin_chr(nil, py.Tuple{py.Int(i)})
	verifReach("called")
	if i < 0 || i >= 0x110000 {
		verifAssert(err != nil && py.IsException(py.ValueError, err), "chr() outside range(0x110000) raises ValueError")
		return
	}
	verifAssume(i < 0xD800 || i > 0xDFFF)
	verifAssert(err == nil, "chr() of a code point is defined")
	s, ok := r.(py.String)
	verifAssert(ok, "chr() returns a string")
	width := 4
	switch {
	case i < 0x80:
		width = 1
	case i < 0x800:
		width = 2
	case i < 0x10000:
		width = 3
	}
	verifAssert(len(string(s)) == width, "the character is stored in the UTF-8 width of its range")
	n, err := py.Len(s)
	verifAssert(err == nil && n == py.Object(py.Int(1)), "chr(i) has length 1")
	back, err := builtin_ord(nil, s)
	verifAssert(err == nil, "ord() accepts every single character")
	verifAssert(back == py.Object(py.Int(i)), "ord(chr(i)) == i")
}
