package vm

import (
	"strconv"

	"github.com/go-python/gpython/py"
)

// C05 — the VM's own consumers of iterators: for loops, unpacking, star-calls,
// yield from. The producer ends by StopIteration in any of its three forms or
// by another exception.

// vNextOutcomes reads back how the producer's next() calls went: the items it
// yielded and how it ended (0 not ended, 1 StopIteration of some form, 2 other error).
func vNextOutcomes() (items int, ended int) {
	for i, e := range vLog {
		if len(e) < 5 || e[:5] != "next(" {
			continue
		}
		k := verifChoiceOf("next" + strconv.Itoa(i+1))
		n := 3
		if items >= vMaxItems {
			n = 2
		}
		switch {
		case k == 1:
			return items, 2
		case k == 0 || k == n || k == n+1:
			return items, 1
		}
		items++
	}
	return items, 0
}

//verif:property C05
//verif:runinit github.com/go-python/gpython/vm.init#2
//verif:expect ran
//verif:maxpaths 20000 100000
func VerifC05VmConsumers() {
	for _, t := range []*py.Type{py.BaseException, py.ExceptionType, py.StopIteration, py.LookupError, py.KeyError} {
		_ = t.Ready()
	}
	VReset(1)
	vStopForms = true
	vm, _ := vFrame(2)
	fr := vm.frame
	fr.Lasti = 10
	prod := &VTok{ID: 20}
	which := verifChoice("consumer", 5)
	var err error
	want := 0
	switch which {
	case 0: // FOR_ITER: one step
		fr.Stack = append(fr.Stack, prod)
		err = jumpTable[FOR_ITER](vm, 30)
		items, ended := vNextOutcomes()
		verifReach("ran")
		switch {
		case items == 1:
			verifAssert(err == nil && len(fr.Stack) == 4 && fr.Lasti == 10, "the next item is pushed and the loop body follows")
		case ended == 1:
			verifAssert(err == nil && len(fr.Stack) == 2 && fr.Lasti == 40, "StopIteration in any form ends the loop: iterator popped, jump past the body")
		default:
			verifAssert(err == error(vErr), "another exception propagates unchanged")
		}
		return
	case 1: // UNPACK_SEQUENCE 2
		want = 2
		fr.Stack = append(fr.Stack, prod)
		err = jumpTable[UNPACK_SEQUENCE](vm, 2)
	case 2: // UNPACK_EX 1 before, 0 after
		want = -1
		fr.Stack = append(fr.Stack, prod)
		err = jumpTable[UNPACK_EX](vm, 1)
	case 3: // f(*prod)
		want = -2
		fr.Stack = append(fr.Stack, &VTok{ID: 21}, prod)
		err = jumpTable[CALL_FUNCTION_VAR](vm, 0)
	default: // yield from prod  (resumed by next(): None on the stack, or by send(v))
		var sent py.Object = py.None
		if verifChoice("sent", 2) == 1 {
			sent = &VTok{ID: 22}
		}
		fr.Stack = append(fr.Stack, prod, sent)
		depth := len(fr.Stack)
		err = jumpTable[YIELD_FROM](vm, 0)
		items, ended := vNextOutcomes()
		verifReach("ran")
		if sent == py.None {
			verifAssert(len(vLog) == 1 && vLog[0] == "next(t20)", "next() on the outer generator advances the delegate by next()")
		} else {
			verifAssert(len(vLog) == 1 && vLog[0] == "next(t20;send=t22)", "a value sent to the outer generator is forwarded to the delegate's send()")
		}
		switch {
		case items == 1:
			verifAssert(err == nil && vm.why == whyYield && fr.Lasti == 9, "an item is yielded and the instruction will be re-executed")
			verifAssert(len(fr.Stack) == depth-1 && vm.TOP() == py.Object(prod), "the delegate stays on the stack while it is being iterated")
		case ended == 1:
			verifAssert(err == nil && vm.why == whyNot, "StopIteration in any form ends the delegation; execution continues")
			// the value of the yield from expression is the value the StopIteration carries (None if none)
			verifAssert(len(fr.Stack) == depth-1, "the delegate is replaced by the value of the expression")
			var want py.Object = py.None
			k := verifChoiceOf("next1")
			if k == 3 || k == 4 { // the instance forms: vStopInstance carries its argument
				want = vStopInstance.Args.(py.Tuple)[0]
			}
			verifAssert(vm.TOP() == want, "the value of a yield from expression is the return value of the delegate, carried by its StopIteration")
		default:
			verifAssert(err == error(vErr), "another exception propagates unchanged")
		}
		return
	}
	items, ended := vNextOutcomes()
	verifReach("ran")
	if ended == 2 {
		verifAssert(err == error(vErr), "an exception raised by the iterator propagates unchanged")
		return
	}
	switch {
	case want == 2: // exactly two items then StopIteration
		if items == 2 && ended == 1 {
			verifAssert(err == nil, "two items unpack into two targets")
		} else {
			e, ok := err.(*py.Exception)
			verifAssert(ok && e.Base == py.ValueError, "a wrong number of items is a ValueError")
		}
	case want == -1: // a, *b = prod : at least one item
		if items >= 1 {
			verifAssert(err == nil, "starred unpacking accepts any surplus")
		} else {
			e, ok := err.(*py.Exception)
			verifAssert(ok && e.Base == py.ValueError, "too few items is a ValueError")
		}
	default: // star call: the callee gets exactly the items
		verifAssert(ended == 1, "the iterable is consumed to its end")
		n := 0
		for _, e := range vLog {
			if len(e) >= 5 && e[:5] == "call(" {
				n++
				verifAssert(e[:14] == "call(t21,i"+strconv.Itoa(items)+",i0", "the callee receives one positional argument per item")
			}
		}
		verifAssert(n == 1 && err == nil, "the call is made once")
	}
}
