package vm

import (
	"github.com/go-python/gpython/py"
)

// C01 item 1 — opcode semantics of the expression/assignment opcodes: which
// operand is the receiver, in which order operands are consumed, what is left
// on the stack. The reference is the bytecode documentation ("TOS = TOS1 op TOS").

type c01Bin struct {
	op   OpCode
	name string // the special method that must be tried first, receiver TOS1, argument TOS
}

var c01Binary = []c01Bin{
	{BINARY_POWER, "pow"}, {BINARY_MULTIPLY, "mul"}, {BINARY_MODULO, "mod"}, {BINARY_ADD, "add"}, {BINARY_SUBTRACT, "sub"},
	{BINARY_SUBSCR, "getitem"}, {BINARY_FLOOR_DIVIDE, "floordiv"}, {BINARY_TRUE_DIVIDE, "truediv"},
	{BINARY_LSHIFT, "lshift"}, {BINARY_RSHIFT, "rshift"}, {BINARY_AND, "and"}, {BINARY_XOR, "xor"}, {BINARY_OR, "or"},
	{INPLACE_POWER, "ipow"}, {INPLACE_MULTIPLY, "imul"}, {INPLACE_MODULO, "imod"}, {INPLACE_ADD, "iadd"}, {INPLACE_SUBTRACT, "isub"},
	{INPLACE_FLOOR_DIVIDE, "ifloordiv"}, {INPLACE_TRUE_DIVIDE, "itruediv"},
	{INPLACE_LSHIFT, "ilshift"}, {INPLACE_RSHIFT, "irshift"}, {INPLACE_AND, "iand"}, {INPLACE_XOR, "ixor"}, {INPLACE_OR, "ior"},
}

func c01SameBelow(stack []py.Object, toks []py.Object, n int) bool {
	for i := 0; i < n; i++ {
		if stack[i] != toks[i] {
			return false
		}
	}
	return true
}

//verif:property C01
//verif:runinit github.com/go-python/gpython/vm.init#2
//verif:expect ran
func VerifC01BinaryOps() {
	b := c01Binary[verifChoice("op", len(c01Binary))]
	VReset(2)
	vm, toks := vFrame(6)
	err := jumpTable[b.op](vm, 0)
	verifReach("ran")
	verifAssert(len(vLog) == 1, "exactly one special method is called")
	verifAssert(vLog[0] == b.name+"(t4,t5)", "TOS1 is the receiver and TOS the argument of the operator's own method")
	if err != nil {
		return
	}
	st := vm.frame.Stack
	verifAssert(len(st) == 5, "two operands replaced by one result")
	r, ok := st[4].(*VTok)
	verifAssert(ok && r.ID == 101, "the result is what the method returned")
	verifAssert(c01SameBelow(st, toks, 4), "the stack below the operands is untouched")
}

var c01Unary = []c01Bin{{UNARY_POSITIVE, "pos"}, {UNARY_NEGATIVE, "neg"}, {UNARY_INVERT, "invert"}}

//verif:property C01
//verif:runinit github.com/go-python/gpython/vm.init#2
//verif:expect ran
func VerifC01UnaryOps() {
	b := c01Unary[verifChoice("op", len(c01Unary))]
	VReset(2)
	vm, toks := vFrame(6)
	err := jumpTable[b.op](vm, 0)
	verifReach("ran")
	verifAssert(len(vLog) == 1 && vLog[0] == b.name+"(t5)", "the operator's method is called once on TOS")
	if err != nil {
		return
	}
	st := vm.frame.Stack
	r, ok := st[5].(*VTok)
	verifAssert(len(st) == 6 && ok && r.ID == 101, "TOS replaced by the result")
	verifAssert(c01SameBelow(st, toks, 5), "the stack below is untouched")
}

//verif:property C01
//verif:runinit github.com/go-python/gpython/vm.init#2
//verif:expect ran
func VerifC01Not() {
	VReset(2)
	vm, _ := vFrame(6)
	err := jumpTable[UNARY_NOT](vm, 0)
	verifReach("ran")
	verifAssert(len(vLog) == 1 && vLog[0] == "bool(t5)", "truth value of TOS taken once")
	if err != nil {
		return
	}
	truth := verifTruthOf("truth1")
	verifAssert(vm.frame.Stack[5] == py.Object(py.NewBool(!truth)), "not x is the negated truth value")
}

var c01Cmp = []string{"lt", "le", "eq", "ne", "gt", "ge"}

//verif:property C01
//verif:runinit github.com/go-python/gpython/vm.init#2
//verif:expect ran
func VerifC01CompareOps() {
	k := verifChoice("op", 10)
	VReset(2)
	vm, toks := vFrame(6)
	err := jumpTable[COMPARE_OP](vm, int32(k))
	verifReach("ran")
	st := vm.frame.Stack
	switch {
	case k < 6:
		verifAssert(len(vLog) == 1 && vLog[0] == c01Cmp[k]+"(t4,t5)", "TOS1 cmp TOS via the left operand's method")
		if err == nil {
			r, ok := st[4].(*VTok)
			verifAssert(len(st) == 5 && ok && r.ID == 101, "result of the comparison method on the stack")
		}
	case k == PyCmp_IN || k == PyCmp_NOT_IN:
		verifAssert(len(vLog) == 1 && vLog[0] == "contains(t5,t4)", "a in b asks b.__contains__(a)")
		if err == nil {
			truth := verifTruthOf("truth1")
			verifAssert(len(st) == 5 && st[4] == py.Object(py.NewBool(truth == (k == PyCmp_IN))), "in / not in polarity")
		}
	default: // is, is not
		verifAssert(len(vLog) == 0 && err == nil, "identity needs no method")
		verifAssert(len(st) == 5 && st[4] == py.Object(py.NewBool(k != PyCmp_IS)), "distinct objects are not identical")
	}
	verifAssert(c01SameBelow(st, toks, 4), "the stack below the operands is untouched")
}

//verif:property C01
//verif:runinit github.com/go-python/gpython/vm.init#2
//verif:expect ran
func VerifC01IdentitySame() {
	k := PyCmp_IS + verifChoice("isnot", 2)
	VReset(1)
	vm, toks := vFrame(6)
	vm.frame.Stack[5] = toks[4] // the same object twice
	err := jumpTable[COMPARE_OP](vm, int32(k))
	verifReach("ran")
	verifAssert(err == nil, "no error")
	verifAssert(vm.frame.Stack[4] == py.Object(py.NewBool(k == PyCmp_IS)), "an object is identical to itself")
}

//verif:property C01
//verif:runinit github.com/go-python/gpython/vm.init#2
//verif:expect ran
func VerifC01SubscrAttr() {
	VReset(2)
	vm, toks := vFrame(6)
	which := verifChoice("op", 5)
	var err error
	want := ""
	left := 0
	switch which {
	case 0:
		err, want, left = jumpTable[STORE_SUBSCR](vm, 0), "setitem(t4,t5,t3)", 3 // TOS1[TOS] = TOS2
	case 1:
		err, want, left = jumpTable[DELETE_SUBSCR](vm, 0), "delitem(t4,t5)", 4 // del TOS1[TOS]
	case 2:
		err, want, left = jumpTable[STORE_ATTR](vm, 1), "setattr(t5,s:n1,t4)", 4 // TOS.name = TOS1
	case 3:
		err, want, left = jumpTable[DELETE_ATTR](vm, 1), "delattr(t5,s:n1)", 5
	default:
		err, want, left = jumpTable[LOAD_ATTR](vm, 1), "getattr(t5,s:n1)", 5
	}
	verifReach("ran")
	verifAssert(len(vLog) == 1 && vLog[0] == want, "operands in the documented roles")
	if err != nil {
		return
	}
	st := vm.frame.Stack
	if which == 4 {
		r, ok := st[5].(*VTok)
		verifAssert(len(st) == 6 && ok && r.ID == 101, "attribute value replaces TOS")
	} else {
		verifAssert(len(st) == left, "operands consumed")
	}
	verifAssert(c01SameBelow(st, toks, left), "the stack below is untouched")
}

//verif:property C01
//verif:runinit github.com/go-python/gpython/vm.init#2
//verif:expect ran
func VerifC01StackOps() {
	VReset(1)
	vm, t := vFrame(6)
	which := verifChoice("op", 8)
	var want []py.Object
	var err error
	switch which {
	case 0:
		err, want = jumpTable[ROT_TWO](vm, 0), []py.Object{t[0], t[1], t[2], t[3], t[5], t[4]}
	case 1:
		err, want = jumpTable[ROT_THREE](vm, 0), []py.Object{t[0], t[1], t[2], t[5], t[3], t[4]}
	case 2:
		err, want = jumpTable[DUP_TOP](vm, 0), []py.Object{t[0], t[1], t[2], t[3], t[4], t[5], t[5]}
	case 3:
		err, want = jumpTable[DUP_TOP_TWO](vm, 0), []py.Object{t[0], t[1], t[2], t[3], t[4], t[5], t[4], t[5]}
	case 4:
		err, want = jumpTable[POP_TOP](vm, 0), []py.Object{t[0], t[1], t[2], t[3], t[4]}
	case 5:
		n := verifChoice("n", 4)
		err = jumpTable[BUILD_TUPLE](vm, int32(n))
		want = append(append([]py.Object{}, t[:6-n]...), py.Tuple(nil))
		if err == nil {
			tup, ok := vm.frame.Stack[len(vm.frame.Stack)-1].(py.Tuple)
			verifAssert(ok && len(tup) == n, "tuple of n items")
			for i := 0; i < n; i++ {
				verifAssert(tup[i] == t[6-n+i], "items in stack order (first pushed first)")
			}
			want[len(want)-1] = vm.frame.Stack[len(vm.frame.Stack)-1]
		}
	case 6:
		n := verifChoice("n", 4)
		err = jumpTable[BUILD_LIST](vm, int32(n))
		want = append(append([]py.Object{}, t[:6-n]...), nil)
		if err == nil {
			l, ok := vm.frame.Stack[len(vm.frame.Stack)-1].(*py.List)
			verifAssert(ok && len(l.Items) == n, "list of n items")
			for i := 0; i < n; i++ {
				verifAssert(l.Items[i] == t[6-n+i], "items in stack order (first pushed first)")
			}
			want[len(want)-1] = l
		}
	default:
		three := verifChoice("three", 2) == 1
		argc := int32(2)
		if three {
			argc = 3
		}
		err = jumpTable[BUILD_SLICE](vm, argc)
		want = append(append([]py.Object{}, t[:6-int(argc)]...), nil)
		if err == nil {
			s, ok := vm.frame.Stack[len(vm.frame.Stack)-1].(*py.Slice)
			verifAssert(ok, "a slice object")
			if three {
				verifAssert(s.Start == t[3] && s.Stop == t[4] && s.Step == t[5], "slice(TOS2, TOS1, TOS)")
			} else {
				verifAssert(s.Start == t[4] && s.Stop == t[5] && s.Step == py.Object(py.None), "slice(TOS1, TOS)")
			}
			want[len(want)-1] = s
		}
	}
	verifReach("ran")
	verifAssert(err == nil, "no error")
	st := vm.frame.Stack
	verifAssert(len(st) == len(want), "stack depth")
	for i := range want {
		if _, isTuple := want[i].(py.Tuple); isTuple {
			continue // checked element-wise above (tuples are not comparable with ==)
		}
		verifAssert(st[i] == want[i], "stack contents")
	}
}

//verif:property C01
//verif:runinit github.com/go-python/gpython/vm.init#2
//verif:expect ran
func VerifC01Jumps() {
	VReset(2)
	vm, t := vFrame(6)
	vm.frame.Lasti = 10
	which := verifChoice("op", 4)
	ops := []OpCode{POP_JUMP_IF_TRUE, POP_JUMP_IF_FALSE, JUMP_IF_TRUE_OR_POP, JUMP_IF_FALSE_OR_POP}
	err := jumpTable[ops[which]](vm, 40)
	verifReach("ran")
	verifAssert(len(vLog) == 1 && vLog[0] == "bool(t5)", "truth value of TOS taken exactly once")
	if err != nil {
		return
	}
	truth := verifTruthOf("truth1")
	jumpWhen := which == 0 || which == 2
	jumped := vm.frame.Lasti == 40
	verifAssert(jumped == (truth == jumpWhen), "jump taken iff the truth value matches the opcode's polarity")
	verifAssert(jumped || vm.frame.Lasti == 10, "otherwise execution falls through")
	st := vm.frame.Stack
	if which < 2 || !jumped {
		verifAssert(len(st) == 5, "TOS popped")
	} else {
		verifAssert(len(st) == 6 && st[5] == t[5], "TOS kept when JUMP_IF_x_OR_POP jumps")
	}
	verifAssert(c01SameBelow(st, t, 5), "the stack below is untouched")
}

//verif:property C01 C04
//verif:runinit github.com/go-python/gpython/vm.init#2
//verif:expect ran
func VerifC01Call() {
	VReset(2)
	vm, t := vFrame(3)
	na := verifChoice("nargs", 3)
	nk := verifChoice("nkw", 3)
	push := func(o py.Object) { vm.frame.Stack = append(vm.frame.Stack, o) }
	fn := &VTok{ID: 20}
	push(fn)
	want := "call(t20,i" + string(rune('0'+na)) + ",i" + string(rune('0'+nk))
	for i := 0; i < na; i++ {
		a := &VTok{ID: 30 + i}
		push(a)
		want += "," + vName(a)
	}
	kwv := []*VTok{}
	for i := 0; i < nk; i++ {
		push(py.String("kw" + string(rune('0'+i))))
		v := &VTok{ID: 40 + i}
		kwv = append(kwv, v)
		push(v)
	}
	want += ")"
	err := jumpTable[CALL_FUNCTION](vm, int32(na|nk<<8))
	verifReach("ran")
	verifAssert(len(vLog) == 1 && vLog[0] == want, "callee receives the positional arguments in order and the keyword count")
	if err != nil {
		return
	}
	st := vm.frame.Stack
	r, ok := st[len(st)-1].(*VTok)
	verifAssert(len(st) == 4 && ok && r.ID == 101, "callable and arguments replaced by the result")
	verifAssert(c01SameBelow(st, t, 3), "the stack below is untouched")
}

// identity of objects whose Go representation is not comparable with ==
//
//verif:property C01 C10
//verif:runinit github.com/go-python/gpython/vm.init#2
//verif:expect ran
func VerifC01IdentityContainers() {
	k := PyCmp_IS + verifChoice("isnot", 2)
	VReset(1)
	vm, _ := vFrame(6)
	var a, b py.Object
	same := verifChoice("same", 2) == 1
	switch verifChoice("kind", 4) {
	case 0:
		t := py.Tuple{py.Int(1), py.Int(2)}
		a, b = t, py.Tuple{py.Int(1), py.Int(2)}
		if same {
			b = t
		}
	case 1:
		t := py.Bytes("ab")
		a, b = t, py.Bytes("ab")
		if same {
			b = t
		}
	case 2:
		d := py.StringDict{}
		a, b = d, py.StringDict{}
		if same {
			b = d
		}
	default:
		a, b = py.Tuple{}, py.Tuple{}
		same = true // the empty tuple is a singleton in Python
	}
	vm.frame.Stack[4], vm.frame.Stack[5] = a, b
	err := jumpTable[COMPARE_OP](vm, int32(k))
	verifReach("ran")
	verifAssert(err == nil, "no error")
	verifAssert(vm.frame.Stack[4] == py.Object(py.NewBool(same == (k == PyCmp_IS))), "identity of containers")
}

// unpacking: the targets receive the items left to right (TOS is the first target)
//
//verif:property C01
//verif:runinit github.com/go-python/gpython/vm.init#2
//verif:expect ran
func VerifC01Unpack() {
	VReset(1)
	vm, t := vFrame(2)
	n := verifChoice("n", 6)
	items := make([]py.Object, n)
	for i := range items {
		items[i] = &VTok{ID: 30 + i}
	}
	var src py.Object
	switch verifChoice("src", 2) {
	case 0:
		src = py.Tuple(items)
	default:
		src = py.NewListFromItems(items)
	}
	vm.frame.Stack = append(vm.frame.Stack, src)
	star := verifChoice("star", 2) == 1
	before := verifChoice("before", 3)
	after := 0
	var err error
	if star {
		after = verifChoice("after", 3)
		err = jumpTable[UNPACK_EX](vm, int32(before|after<<8))
	} else {
		err = jumpTable[UNPACK_SEQUENCE](vm, int32(before))
	}
	verifReach("ran")
	if (!star && before != n) || (star && before+after > n) {
		verifAssert(err != nil, "wrong number of values raises")
		return
	}
	verifAssert(err == nil, "no error")
	st := vm.frame.Stack
	pop := func() py.Object {
		o := st[len(st)-1]
		st = st[:len(st)-1]
		return o
	}
	for i := 0; i < before; i++ {
		verifAssert(pop() == items[i], "leading targets get the first items in order")
	}
	if star {
		l, ok := pop().(*py.List)
		verifAssert(ok && len(l.Items) == n-before-after, "the starred target gets a list of the middle items")
		for i := range l.Items {
			verifAssert(l.Items[i] == items[before+i], "middle items in order")
		}
		for i := 0; i < after; i++ {
			verifAssert(pop() == items[n-after+i], "trailing targets get the last items in order")
		}
	}
	verifAssert(len(st) == 2 && st[0] == t[0] && st[1] == t[1], "the stack below is untouched")
}
