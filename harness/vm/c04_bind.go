package vm

import (
	"github.com/go-python/gpython/py"
)

// C04 — call arguments bind to parameters exactly as Python's algorithm says.
//
// Signature and call shape are symbolic: number of positional parameters (0..2),
// keyword-only parameters (0..2), number of positional defaults, which keyword-only
// parameters have defaults, *args / **kwargs, number of positional actuals (0..3),
// which parameter names (and one foreign name) are passed as keywords; the Go
// map holding the keywords is iterated in every order. Arguments are distinct
// tokens. EvalCode is stopped after binding (generator flag) and the prepared
// frame is compared with the reference algorithm (language reference 6.3.4).

//verif:property C04
//verif:maporder
//verif:expect bound
//verif:maxpaths 400000 2000000
//verif:timeout 300 1500
func VerifC04EvalCode() {
	posNames := []string{"a", "b"}
	kwNames := []string{"k", "l"}
	argcount := verifChoice("argcount", 3)
	kwonly := verifChoice("kwonly", 3)
	varargs := verifChoice("varargs", 2) == 1
	varkw := verifChoice("varkw", 2) == 1
	ndef := verifChoice("ndef", argcount+1)
	npos := verifChoice("npos", 4)

	var names []string
	names = append(names, posNames[:argcount]...)
	names = append(names, kwNames[:kwonly]...)
	total := argcount + kwonly
	varnames := append([]string{}, names...)
	flags := int32(py.CO_GENERATOR)
	if varargs {
		flags |= py.CO_VARARGS
		varnames = append(varnames, "args")
	}
	if varkw {
		flags |= py.CO_VARKEYWORDS
		varnames = append(varnames, "kw")
	}
	code := &py.Code{Argcount: int32(argcount), Kwonlyargcount: int32(kwonly), Nlocals: int32(len(varnames)), Varnames: varnames, Flags: flags, Name: "f"}
	// parameters captured by an inner function live in cells: none of them, all of them
	// (*args and **kwargs included), or only the last slot
	switch verifChoice("cells", 3) {
	case 1:
		code.Cellvars = append([]string{}, varnames...)
	case 2:
		if len(varnames) > 0 {
			code.Cellvars = []string{varnames[len(varnames)-1]}
		}
	}
	code.InitCell2arg()
	isCell := map[string]int{}
	for i, n := range code.Cellvars {
		isCell[n] = i
	}

	// actuals
	args := make([]py.Object, npos)
	for i := range args {
		args[i] = &VTok{ID: 10 + i}
	}
	kws := py.StringDict{}
	kwGiven := map[string]py.Object{}
	for i, n := range names {
		if verifChoice("kw_"+n, 2) == 1 {
			t := &VTok{ID: 20 + i}
			kws[n] = t
			kwGiven[n] = t
		}
	}
	if verifChoice("kw_z", 2) == 1 {
		t := &VTok{ID: 29}
		kws["z"] = t
		kwGiven["z"] = t
	}
	// defaults
	defs := make([]py.Object, ndef)
	for i := range defs {
		defs[i] = &VTok{ID: 30 + i}
	}
	var kwdefs py.StringDict
	kwHasDef := map[string]py.Object{}
	for i := 0; i < kwonly; i++ {
		if verifChoice("kwdef_"+kwNames[i], 2) == 1 {
			if kwdefs == nil {
				kwdefs = py.StringDict{}
			}
			t := &VTok{ID: 40 + i}
			kwdefs[kwNames[i]] = t
			kwHasDef[kwNames[i]] = t
		}
	}

	ctx := VNewCtx(py.StringDict{})
	res, err := EvalCode(ctx, code, py.StringDict{}, nil, args, kws, defs, kwdefs, nil)
	verifReach("bound")

	// ---- the reference algorithm ----
	slots := make([]py.Object, total)
	fail := false
	var extra []py.Object
	for i, a := range args {
		if i < argcount {
			slots[i] = a
		} else {
			extra = append(extra, a)
		}
	}
	if len(extra) > 0 && !varargs {
		fail = true
	}
	unexpected := map[string]py.Object{}
	for _, n := range append(append([]string{}, names...), "z") { // fixed order: the reference does not depend on it
		v, given := kwGiven[n]
		if !given {
			continue
		}
		found := -1
		for j, pn := range names {
			if pn == n {
				found = j
			}
		}
		if found < 0 {
			if !varkw {
				fail = true
			}
			unexpected[n] = v
			continue
		}
		if slots[found] != nil {
			fail = true // multiple values for the parameter
			continue
		}
		slots[found] = v
	}
	for i := 0; i < argcount; i++ {
		if slots[i] == nil {
			d := i - (argcount - ndef)
			if d >= 0 {
				slots[i] = defs[d]
			} else {
				fail = true // missing required positional
			}
		}
	}
	for i := 0; i < kwonly; i++ {
		if slots[argcount+i] == nil {
			if d, ok := kwHasDef[kwNames[i]]; ok {
				slots[argcount+i] = d
			} else {
				fail = true // missing required keyword-only
			}
		}
	}

	if fail {
		verifAssert(err != nil, "an illegal call raises")
		if err != nil {
			e, ok := err.(*py.Exception)
			verifAssert(ok && e.Base == py.TypeError, "a binding error is a TypeError")
		}
		return
	}
	verifAssert(err == nil, "a legal call binds without error")
	g, ok := res.(*py.Generator)
	verifAssert(ok, "prepared frame available")
	fl := append([]py.Object{}, g.Frame.Localsplus[:len(varnames)]...)
	// a parameter that is a cell variable is delivered in its cell
	for i, n := range varnames {
		if ci, cell := isCell[n]; cell {
			c, ok := g.Frame.CellAndFreeVars[ci].(*py.Cell)
			verifAssert(ok, "a captured parameter has a cell")
			if ok {
				fl[i] = c.Get()
			}
		}
	}
	for i := 0; i < total; i++ {
		verifAssert(fl[i] == slots[i], "each parameter receives exactly the argument the binding algorithm assigns")
	}
	next := total
	if varargs {
		t, ok := fl[next].(py.Tuple)
		verifAssert(ok && len(t) == len(extra), "*args collects exactly the surplus positionals")
		for i := range extra {
			verifAssert(t[i] == extra[i], "*args keeps the order of the surplus positionals")
		}
		next++
	}
	if varkw {
		d, ok := fl[next].(py.StringDict)
		verifAssert(ok && len(d) == len(unexpected), "**kwargs collects exactly the unexpected keywords")
		if v, has := unexpected["z"]; has {
			verifAssert(d["z"] == v, "**kwargs maps each unexpected keyword to its value")
		}
	}
}
