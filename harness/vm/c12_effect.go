package vm

import (
	"github.com/go-python/gpython/py"
)

// C12 item 1 — the VM side of the stack-effect cross-check: run ONE opcode
// through the real jump table on a frame of token objects and report what it
// did to the value stack, the block stack and the instruction pointer.

type vCtx struct{ store *py.ModuleStore }

func (c *vCtx) ResolveAndCompile(pathname string, opts py.CompileOpts) (py.CompileOut, error) {
	return py.CompileOut{}, vErr
}
func (c *vCtx) ModuleInit(impl *py.ModuleImpl) (*py.Module, error) { return nil, vErr }
func (c *vCtx) RunCode(code *py.Code, globals, locals py.StringDict, closure py.Tuple) (py.Object, error) {
	return EvalCode(c, code, globals, locals, nil, nil, nil, nil, closure)
}
func (c *vCtx) GetModule(moduleName string) (*py.Module, error) { return nil, vErr }
func (c *vCtx) Store() *py.ModuleStore                          { return c.store }
func (c *vCtx) Close() error                                    { return nil }
func (c *vCtx) Done() <-chan struct{}                           { return nil }

// VOps lists the opcodes the cross-check runs.
var VOps = []OpCode{
	POP_TOP, ROT_TWO, ROT_THREE, DUP_TOP, DUP_TOP_TWO, // NOP is never emitted by the compiler and has no table entry
	UNARY_POSITIVE, UNARY_NEGATIVE, UNARY_NOT, UNARY_INVERT,
	BINARY_POWER, BINARY_MULTIPLY, BINARY_MODULO, BINARY_ADD, BINARY_SUBTRACT, BINARY_SUBSCR, BINARY_FLOOR_DIVIDE, BINARY_TRUE_DIVIDE,
	INPLACE_FLOOR_DIVIDE, INPLACE_TRUE_DIVIDE, STORE_MAP, INPLACE_ADD, INPLACE_SUBTRACT, INPLACE_MULTIPLY, INPLACE_MODULO,
	STORE_SUBSCR, DELETE_SUBSCR, BINARY_LSHIFT, BINARY_RSHIFT, BINARY_AND, BINARY_XOR, BINARY_OR, INPLACE_POWER, GET_ITER,
	PRINT_EXPR, LOAD_BUILD_CLASS, YIELD_FROM, INPLACE_LSHIFT, INPLACE_RSHIFT, INPLACE_AND, INPLACE_XOR, INPLACE_OR,
	BREAK_LOOP, WITH_CLEANUP, RETURN_VALUE, IMPORT_STAR, YIELD_VALUE, POP_BLOCK, END_FINALLY, POP_EXCEPT,
	STORE_NAME, DELETE_NAME, UNPACK_SEQUENCE, FOR_ITER, UNPACK_EX, STORE_ATTR, DELETE_ATTR, STORE_GLOBAL, DELETE_GLOBAL,
	LOAD_CONST, LOAD_NAME, BUILD_TUPLE, BUILD_LIST, BUILD_SET, BUILD_MAP, LOAD_ATTR, COMPARE_OP, IMPORT_NAME, IMPORT_FROM,
	JUMP_FORWARD, JUMP_IF_FALSE_OR_POP, JUMP_IF_TRUE_OR_POP, JUMP_ABSOLUTE, POP_JUMP_IF_FALSE, POP_JUMP_IF_TRUE,
	LOAD_GLOBAL, CONTINUE_LOOP, SETUP_LOOP, SETUP_EXCEPT, SETUP_FINALLY, LOAD_FAST, STORE_FAST, DELETE_FAST,
	RAISE_VARARGS, CALL_FUNCTION, MAKE_FUNCTION, BUILD_SLICE, MAKE_CLOSURE, LOAD_CLOSURE, LOAD_DEREF, STORE_DEREF, DELETE_DEREF,
	CALL_FUNCTION_VAR, CALL_FUNCTION_KW, CALL_FUNCTION_VAR_KW, SETUP_WITH, LIST_APPEND, SET_ADD, MAP_ADD, LOAD_CLASSDEREF,
}

// VEffect is what one executed opcode did.
type VEffect struct {
	Op      OpCode
	Arg     int32
	Delta   int  // change of the value stack depth
	Blocks  int  // change of the block stack depth
	Jumped  bool // Lasti moved
	Failed  bool // the opcode returned an error (effect is then irrelevant: the frame unwinds)
	Why     int  // vm.why afterwards
	Variant int  // which operand scenario was used
}

const vJumpTarget = 40

// VerifOpEffect runs opcode number k of VOps. The operand and the contents of
// the stack are chosen (symbolically where a count is involved) to be valid
// for that opcode.
func VerifOpEffect(op OpCode) VEffect {
	VReset(2)
	PrintExpr = func(string) {}
	vm, _ := vFrame(8)
	fr := vm.frame
	fr.Lasti = 10
	fr.Locals["c0"] = &VTok{ID: 62} // a class-body local that shadows cell c0
	fr.Builtins["__import__"] = &VTok{ID: 63}
	vm.context = &vCtx{store: &py.ModuleStore{Builtins: &py.Module{Globals: py.StringDict{"__build_class__": &VTok{ID: 64}}}}}
	fr.Context = vm.context
	push := func(o py.Object) { fr.Stack = append(fr.Stack, o) }
	var arg int32
	variant := 0
	switch op {
	case STORE_MAP:
		push(py.NewStringDict())
		push(&VTok{ID: 20})
		push(py.String("k"))
	case MAP_ADD:
		arg = int32(1 + verifChoice("arg", 3))
		for i := 0; i < 3; i++ {
			push(py.NewStringDict())
		}
		push(&VTok{ID: 20}) // value
		push(py.String("k"))
	case LIST_APPEND:
		arg = int32(1 + verifChoice("arg", 3))
		for i := 0; i < 3; i++ {
			push(py.NewList())
		}
		push(&VTok{ID: 20})
	case SET_ADD:
		arg = int32(1 + verifChoice("arg", 3))
		for i := 0; i < 3; i++ {
			push(py.NewSet())
		}
		push(&VTok{ID: 20})
	case UNPACK_SEQUENCE:
		arg = int32(verifChoice("arg", 4))
		variant = verifChoice("variant", 3)
		items := make([]py.Object, arg)
		for i := range items {
			items[i] = &VTok{ID: 30 + i}
		}
		switch variant {
		case 0:
			push(py.Tuple(items))
		case 1:
			push(py.NewListFromItems(items))
		default:
			push(&VTok{ID: 20}) // generic iterator with symbolic length
		}
	case UNPACK_EX:
		before := verifChoice("before", 3)
		after := verifChoice("after", 3)
		arg = int32(before | after<<8)
		variant = verifChoice("variant", 2)
		if variant == 0 {
			n := verifChoice("n", 6)
			items := make([]py.Object, n)
			for i := range items {
				items[i] = &VTok{ID: 30 + i}
			}
			push(py.NewListFromItems(items))
		} else {
			push(&VTok{ID: 20})
		}
	case BUILD_TUPLE, BUILD_LIST, BUILD_SET:
		arg = int32(verifChoice("arg", 5))
	case BUILD_MAP:
		arg = int32(verifChoice("arg", 3))
	case BUILD_SLICE:
		arg = int32(2 + verifChoice("arg", 2))
	case COMPARE_OP:
		arg = int32(verifChoice("arg", 11))
		if arg == PyCmp_EXC_MATCH {
			push(py.KeyError)
			push(py.KeyError)
		}
	case LOAD_CONST, LOAD_FAST, STORE_FAST, DELETE_FAST, LOAD_CLOSURE, LOAD_DEREF, STORE_DEREF, DELETE_DEREF, LOAD_CLASSDEREF:
		arg = int32(verifChoice("arg", 2))
	case LOAD_NAME, STORE_NAME, DELETE_NAME, LOAD_GLOBAL, STORE_GLOBAL, DELETE_GLOBAL, LOAD_ATTR, STORE_ATTR, DELETE_ATTR, IMPORT_NAME, IMPORT_FROM:
		arg = int32(verifChoice("arg", 3))
	case JUMP_FORWARD, SETUP_LOOP, SETUP_EXCEPT, SETUP_FINALLY, FOR_ITER, SETUP_WITH:
		arg = vJumpTarget - 10
	case JUMP_ABSOLUTE, POP_JUMP_IF_FALSE, POP_JUMP_IF_TRUE, JUMP_IF_FALSE_OR_POP, JUMP_IF_TRUE_OR_POP, CONTINUE_LOOP:
		arg = vJumpTarget
	case RAISE_VARARGS:
		arg = int32(verifChoice("arg", 3))
	case CALL_FUNCTION, CALL_FUNCTION_VAR, CALL_FUNCTION_KW, CALL_FUNCTION_VAR_KW:
		na := verifChoice("nargs", 3)
		nk := verifChoice("nkw", 2)
		arg = int32(na | nk<<8)
		push(&VTok{ID: 20}) // the callable
		for i := 0; i < na; i++ {
			push(&VTok{ID: 30 + i})
		}
		for i := 0; i < nk; i++ {
			push(py.String("kw"))
			push(&VTok{ID: 40 + i})
		}
		if op == CALL_FUNCTION_VAR || op == CALL_FUNCTION_VAR_KW {
			push(py.Tuple{&VTok{ID: 45}})
		}
		if op == CALL_FUNCTION_KW || op == CALL_FUNCTION_VAR_KW {
			push(py.StringDict{"other": &VTok{ID: 46}})
		}
	case MAKE_FUNCTION, MAKE_CLOSURE:
		nd := verifChoice("ndefaults", 3)
		nkd := verifChoice("nkwdefaults", 2)
		nann := verifChoice("nann", 3) // 0 = none, else nann-1 annotated names
		arg = int32(nd | nkd<<8)
		for i := 0; i < nd; i++ {
			push(&VTok{ID: 30 + i})
		}
		for i := 0; i < nkd; i++ {
			push(py.String("kwd"))
			push(&VTok{ID: 40 + i})
		}
		if nann > 0 {
			names := py.Tuple{}
			for i := 0; i < nann-1; i++ {
				push(&VTok{ID: 47 + i})
				names = append(names, py.String("a"+string(rune('0'+i))))
			}
			push(names)
			arg |= int32(nann) << 16
		}
		if op == MAKE_CLOSURE {
			push(py.Tuple{py.NewCell(nil)})
		}
		push(&py.Code{Name: "f"})
		push(py.String("qual"))
	case END_FINALLY:
		variant = verifChoice("variant", 5)
		switch variant {
		case 0:
			push(py.None)
		case 1:
			push(py.Int(whyBreak))
		case 2:
			push(&VTok{ID: 20})
			push(py.Int(whyReturn))
		case 3:
			push(&VTok{ID: 20})
			push(py.Int(whyContinue))
		default:
			push(py.None)      // traceback
			push(&VTok{ID: 20}) // value
			push(py.KeyError)  // class
		}
	case WITH_CLEANUP:
		variant = verifChoice("variant", 3)
		switch variant {
		case 0: // normal exit: [exit_func, None]
			push(&VTok{ID: 20})
			push(py.None)
		case 1: // break through the with: [exit_func, why]
			push(&VTok{ID: 20})
			push(py.Int(whyBreak))
		default: // return through the with: [exit_func, retval, why]
			push(&VTok{ID: 20})
			push(&VTok{ID: 21})
			push(py.Int(whyReturn))
		}
	case POP_EXCEPT:
		fr.PushBlock(py.TryBlockExceptHandler, -1, len(fr.Stack)-3)
	case POP_BLOCK:
		fr.PushBlock(py.TryBlockSetupLoop, vJumpTarget, len(fr.Stack))
	case IMPORT_STAR:
		variant = verifChoice("variant", 2)
		m := &py.Module{Globals: py.StringDict{"x": &VTok{ID: 20}, "_y": &VTok{ID: 21}}}
		if variant == 1 {
			m.Globals["__all__"] = py.Tuple{py.String("x")}
		}
		push(m)
	}
	pre := len(fr.Stack)
	preBlocks := len(fr.Blockstack)
	preLasti := fr.Lasti
	err := jumpTable[op](vm, arg)
	return VEffect{Op: op, Arg: arg, Delta: len(fr.Stack) - pre, Blocks: len(fr.Blockstack) - preBlocks,
		Jumped: fr.Lasti != preLasti, Failed: err != nil, Why: int(vm.why), Variant: variant}
}

// VerifDecode runs the real RunFrame instruction decoder on code and reports
// the (opcode, operand) pairs it dispatches: every handler except EXTENDED_ARG
// is replaced by a recorder; the recorder for the last byte's opcode stops the frame.
func VerifDecode(code string, stopAfter int) (ops []OpCode, args []int32) {
	for i := range jumpTable {
		op := OpCode(i)
		jumpTable[i] = func(vm *Vm, arg int32) error {
			ops = append(ops, op)
			args = append(args, arg)
			if len(ops) >= stopAfter {
				vm.retval = py.None
				vm.why = whyReturn
			}
			return nil
		}
	}
	jumpTable[EXTENDED_ARG] = do_EXTENDED_ARG
	frame := &py.Frame{Code: &py.Code{Code: code}}
	_, _ = RunFrame(frame)
	return
}

// VNewCtx returns a minimal py.Context whose builtins hold the given names.
func VNewCtx(builtins py.StringDict) py.Context {
	return &vCtx{store: &py.ModuleStore{Builtins: &py.Module{Globals: builtins}}}
}
