package vm

import (
	"strconv"

	"github.com/go-python/gpython/py"
)

// Token objects: opaque Python objects whose every special method logs the
// call and returns, by a symbolic choice, a fresh token or an error. Results of
// operations on tokens are thus uninterpreted and the log is the evaluation order.

type VTok struct {
	ID    int
	nexts int // items already produced as an iterator
	trues int // how often the truth value came out true
}

var (
	vTokType = py.NewType("veriftok", "token object of the verification harness")
	vLog     []string
	vNext    int
	vErr     = py.ExceptionNewf(py.KeyError, "token method failed")
	// how many outcomes token methods may have: 1 = always a value, 2 = value or error
	vOutcomes = 2
	// a token used as an iterator yields at most this many items
	vMaxItems = 3
	// whether iterators also end with StopIteration instances / ExceptionInfo
	vStopForms    = false
	vStopInstance = py.ExceptionNewf(py.StopIteration, "done")
)

func (t *VTok) Type() *py.Type { return vTokType }

func VReset(outcomes int) {
	vStopForms = false
	vLog = nil
	vNext = 100
	vOutcomes = outcomes
}

func vFresh() *VTok {
	vNext++
	return &VTok{ID: vNext}
}

func vName(o py.Object) string {
	switch x := o.(type) {
	case *VTok:
		return "t" + strconv.Itoa(x.ID)
	case py.Int:
		return "i" + strconv.Itoa(int(x))
	case py.String:
		return "s:" + string(x)
	case py.NoneType:
		return "None"
	case nil:
		return "nil"
	}
	return "?"
}

func vOut(op string, recv *VTok, args ...py.Object) (py.Object, error) {
	e := op + "(" + vName(recv)
	for _, a := range args {
		e += "," + vName(a)
	}
	e += ")"
	vLog = append(vLog, e)
	if vOutcomes > 1 && verifChoice("out"+strconv.Itoa(len(vLog)), vOutcomes) == 1 {
		return nil, vErr
	}
	return vFresh(), nil
}

func (t *VTok) M__neg__() (py.Object, error)    { return vOut("neg", t) }
func (t *VTok) M__pos__() (py.Object, error)    { return vOut("pos", t) }
func (t *VTok) M__invert__() (py.Object, error) { return vOut("invert", t) }
func (t *VTok) M__abs__() (py.Object, error)    { return vOut("abs", t) }

func (t *VTok) M__add__(o py.Object) (py.Object, error)      { return vOut("add", t, o) }
func (t *VTok) M__sub__(o py.Object) (py.Object, error)      { return vOut("sub", t, o) }
func (t *VTok) M__mul__(o py.Object) (py.Object, error)      { return vOut("mul", t, o) }
func (t *VTok) M__truediv__(o py.Object) (py.Object, error)  { return vOut("truediv", t, o) }
func (t *VTok) M__floordiv__(o py.Object) (py.Object, error) { return vOut("floordiv", t, o) }
func (t *VTok) M__mod__(o py.Object) (py.Object, error)      { return vOut("mod", t, o) }
func (t *VTok) M__lshift__(o py.Object) (py.Object, error)   { return vOut("lshift", t, o) }
func (t *VTok) M__rshift__(o py.Object) (py.Object, error)   { return vOut("rshift", t, o) }
func (t *VTok) M__and__(o py.Object) (py.Object, error)      { return vOut("and", t, o) }
func (t *VTok) M__or__(o py.Object) (py.Object, error)       { return vOut("or", t, o) }
func (t *VTok) M__xor__(o py.Object) (py.Object, error)      { return vOut("xor", t, o) }
func (t *VTok) M__pow__(o, m py.Object) (py.Object, error)   { return vOut("pow", t, o) }

func (t *VTok) M__iadd__(o py.Object) (py.Object, error) { return vOut("iadd", t, o) }
func (t *VTok) M__isub__(o py.Object) (py.Object, error) { return vOut("isub", t, o) }
func (t *VTok) M__imul__(o py.Object) (py.Object, error) { return vOut("imul", t, o) }
func (t *VTok) M__itruediv__(o py.Object) (py.Object, error) { return vOut("itruediv", t, o) }
func (t *VTok) M__ifloordiv__(o py.Object) (py.Object, error) { return vOut("ifloordiv", t, o) }
func (t *VTok) M__imod__(o py.Object) (py.Object, error) { return vOut("imod", t, o) }
func (t *VTok) M__ilshift__(o py.Object) (py.Object, error) { return vOut("ilshift", t, o) }
func (t *VTok) M__irshift__(o py.Object) (py.Object, error) { return vOut("irshift", t, o) }
func (t *VTok) M__iand__(o py.Object) (py.Object, error) { return vOut("iand", t, o) }
func (t *VTok) M__ior__(o py.Object) (py.Object, error) { return vOut("ior", t, o) }
func (t *VTok) M__ixor__(o py.Object) (py.Object, error) { return vOut("ixor", t, o) }
func (t *VTok) M__ipow__(o, m py.Object) (py.Object, error) { return vOut("ipow", t, o) }
func (t *VTok) M__contains__(o py.Object) (py.Object, error) {
	vLog = append(vLog, "contains("+vName(t)+","+vName(o)+")")
	n := strconv.Itoa(len(vLog))
	if vOutcomes > 1 && verifChoice("out"+n, vOutcomes) == 1 {
		return nil, vErr
	}
	return py.NewBool(verifBool("truth" + n)), nil
}

func (t *VTok) M__lt__(o py.Object) (py.Object, error) { return vOut("lt", t, o) }
func (t *VTok) M__le__(o py.Object) (py.Object, error) { return vOut("le", t, o) }
func (t *VTok) M__eq__(o py.Object) (py.Object, error) { return vOut("eq", t, o) }
func (t *VTok) M__ne__(o py.Object) (py.Object, error) { return vOut("ne", t, o) }
func (t *VTok) M__gt__(o py.Object) (py.Object, error) { return vOut("gt", t, o) }
func (t *VTok) M__ge__(o py.Object) (py.Object, error) { return vOut("ge", t, o) }

func (t *VTok) M__getitem__(k py.Object) (py.Object, error)    { return vOut("getitem", t, k) }
func (t *VTok) M__setitem__(k, v py.Object) (py.Object, error) { return vOut("setitem", t, k, v) }
func (t *VTok) M__delitem__(k py.Object) (py.Object, error)    { return vOut("delitem", t, k) }

func (t *VTok) M__getattribute__(name string) (py.Object, error) {
	return vOut("getattr", t, py.String(name))
}
func (t *VTok) M__setattr__(name string, v py.Object) (py.Object, error) {
	return vOut("setattr", t, py.String(name), v)
}
func (t *VTok) M__delattr__(name string) (py.Object, error) {
	return vOut("delattr", t, py.String(name))
}

func (t *VTok) M__call__(args py.Tuple, kwargs py.StringDict) (py.Object, error) {
	a := []py.Object{py.Int(len(args)), py.Int(len(kwargs))}
	a = append(a, args...)
	return vOut("call", t, a...)
}

func (t *VTok) M__repr__() (py.Object, error) { return py.String("<tok>"), nil }

// truth value: symbolic bool, or an error
func (t *VTok) M__bool__() (py.Object, error) {
	vLog = append(vLog, "bool("+vName(t)+")")
	n := strconv.Itoa(len(vLog))
	if vOutcomes > 1 && verifChoice("out"+n, vOutcomes) == 1 {
		return nil, vErr
	}
	if t.trues >= vMaxItems {
		return py.False, nil // bounded: a token is true at most vMaxItems times (keeps loops finite)
	}
	b := verifBool("truth" + n)
	if b {
		t.trues++
	}
	return py.NewBool(b), nil
}

// iteration: a token is its own iterator with a symbolic number of items
func (t *VTok) M__iter__() (py.Object, error) {
	vLog = append(vLog, "iter("+vName(t)+")")
	return t, nil
}

func (t *VTok) M__next__() (py.Object, error) { return t.produce("next(" + vName(t) + ")") }

// Send: a token is also a coroutine-like delegate: send(v) is logged with the
// value sent and then behaves as next() (the entry starts with "next(" so that
// vNextOutcomes counts it)
func (t *VTok) Send(v py.Object) (py.Object, error) {
	return t.produce("next(" + vName(t) + ";send=" + vName(v) + ")")
}

func (t *VTok) produce(entry string) (py.Object, error) {
	vLog = append(vLog, entry)
	n := 3
	if t.nexts >= vMaxItems {
		n = 2 // bounded producer: only exhaustion or failure remain
	}
	if vStopForms {
		// 3: StopIteration raised as an instance, 4: as an ExceptionInfo (what a Python-level raise produces)
		k := verifChoice("next"+strconv.Itoa(len(vLog)), n+2)
		switch {
		case k == 0:
			return nil, py.StopIteration
		case k == 1:
			return nil, vErr
		case k == n:
			return nil, vStopInstance
		case k == n+1:
			return nil, py.ExceptionInfo{Type: py.StopIteration, Value: vStopInstance}
		}
		t.nexts++
		return vFresh(), nil
	}
	switch verifChoice("next"+strconv.Itoa(len(vLog)), n) {
	case 0:
		return nil, py.StopIteration
	case 1:
		return nil, vErr
	}
	t.nexts++
	return vFresh(), nil
}

// vFrame builds a frame whose value stack holds n distinct tokens.
func vFrame(n int) (*Vm, []py.Object) {
	toks := make([]py.Object, n)
	for i := range toks {
		toks[i] = &VTok{ID: i}
	}
	alloc := []py.Object{&VTok{ID: 70}, nil, py.NewCell(&VTok{ID: 80}), py.NewCell(nil)}
	code := &py.Code{
		Nlocals:  2,
		Code:     "",
		Names:    []string{"n0", "n1", "n2"},
		Consts:   py.Tuple{&VTok{ID: 50}, &VTok{ID: 51}},
		Varnames: []string{"v0", "v1"},
		Cellvars: []string{"c0"},
		Freevars: []string{"f0"},
		Name:     "harness",
	}
	frame := &py.Frame{
		Code:            code,
		Globals:         py.StringDict{"n0": &VTok{ID: 60}},
		Locals:          py.StringDict{"n1": &VTok{ID: 61}},
		Builtins:        py.StringDict{},
		Stack:           append(make([]py.Object, 0, 32), toks...),
		LocalVars:       alloc[:2],
		CellAndFreeVars: alloc[2:],
		Localsplus:      alloc,
	}
	return &Vm{frame: frame}, toks
}

// VLog returns a copy of the evaluation log.
func VLog() []string { return append([]string{}, vLog...) }

// VName names an object for comparison with the oracle.
func VName(o py.Object) string {
	switch x := o.(type) {
	case py.Bool:
		if x {
			return "True"
		}
		return "False"
	}
	return vName(o)
}

// VTraceOps wraps every jump table entry so that executed opcodes are logged (debug aid).
func VTraceOps() {
	for i := range jumpTable {
		op := OpCode(i)
		f := jumpTable[i]
		jumpTable[i] = func(vm *Vm, arg int32) error {
			vLog = append(vLog, "op"+strconv.Itoa(int(op))+":"+strconv.Itoa(int(arg))+"@"+strconv.Itoa(int(vm.frame.Lasti))+"/"+strconv.Itoa(len(vm.frame.Stack))+"/"+strconv.Itoa(len(vm.frame.Blockstack)))
			return f(vm, arg)
		}
	}
}

// VOnInstr wraps every jump table entry so that cb sees each instruction about to be
// executed (frame.Lasti already points behind it). The returned function restores the table.
func VOnInstr(cb func(f *py.Frame, op OpCode, arg int32)) (restore func()) {
	saved := jumpTable
	for i := range jumpTable {
		op := OpCode(i)
		f := saved[i]
		jumpTable[i] = func(vm *Vm, arg int32) error {
			cb(vm.frame, op, arg)
			return f(vm, arg)
		}
	}
	return func() { jumpTable = saved }
}
