package py

import "math/big"

// C17 — string-keyed dicts and sets of hashable scalars match a reference
// model: one step from an arbitrary pre-state (see c17_list.go for the scheme).
// Pre-state of a dict: any subset of the key pool {"a","b","c"} with distinct
// values; a second variable is an alias or a dict of its own. The model keeps
// (present, value) per pool key, so it does not use a Go map.

var c17Keys = []string{"a", "b", "c", "d"}

type c17D struct {
	has [4]bool
	val [4]Object
}

func c17MkDict(name string, base int, nkeys int) (StringDict, *c17D) {
	d := StringDict{}
	m := &c17D{}
	for i := 0; i < nkeys; i++ {
		if verifChoice(name+"_has_"+c17Keys[i], 2) == 1 {
			d[c17Keys[i]] = Int(base + i)
			m.has[i], m.val[i] = true, Int(base+i)
		}
	}
	return d, m
}

func c17DictMatches(d StringDict, m *c17D) bool {
	n := 0
	for i, k := range c17Keys {
		v, ok := d[k]
		if ok != m.has[i] {
			return false
		}
		if ok {
			n++
			if v != m.val[i] {
				return false
			}
		}
	}
	return len(d) == n
}

type c17DPool struct {
	real  [2]StringDict
	model [2]*c17D
	alias bool
}

func c17DictPre() *c17DPool {
	p := &c17DPool{}
	p.real[0], p.model[0] = c17MkDict("d", 100, 3)
	if verifChoice("e_alias_d", 2) == 1 {
		p.real[1], p.model[1], p.alias = p.real[0], p.model[0], true
	} else {
		p.real[1], p.model[1] = c17MkDict("e", 100, 2) // same values as d for equal keys, so == can hold
	}
	return p
}

func c17DictPost(p *c17DPool) {
	verifAssert(c17DictMatches(p.real[0], p.model[0]) && c17DictMatches(p.real[1], p.model[1]), "every dict variable holds what the model holds")
}

func c17Key(name string) (Object, int) {
	i := verifChoice(name, 4)
	return String(c17Keys[i]), i
}

//verif:property C17
//verif:maxpaths 400000 4000000
//verif:runinit github.com/go-python/gpython/py.init@dict.go:1
//verif:expect called
func VerifC17DictStep() {
	p := c17DictPre()
	s := verifChoice("s", 2)
	d, m := p.real[s], p.model[s]
	switch verifChoice("op", 12) {
	case 0: // d[k] = v
		k, i := c17Key("k")
		_, err := SetItem(d, k, Int(777))
		verifAssert(err == nil, "no error")
		m.has[i], m.val[i] = true, Int(777)
	case 1: // del d[k]
		k, i := c17Key("k")
		_, err := DelItem(d, k)
		if m.has[i] {
			verifAssert(err == nil, "no error")
			m.has[i], m.val[i] = false, nil
		} else {
			verifAssert(err != nil && c07ErrIs(err, KeyError), "KeyError for a missing key")
		}
	case 2: // d[k]
		k, i := c17Key("k")
		v, err := GetItem(d, k)
		if m.has[i] {
			verifAssert(err == nil && v == m.val[i], "d[k]")
		} else {
			verifAssert(err != nil && c07ErrIs(err, KeyError), "KeyError for a missing key")
		}
	case 3: // d.get(k[, default])
		k, i := c17Key("k")
		args := Tuple{k}
		var dflt Object = None
		if verifChoice("with_default", 2) == 1 {
			dflt = Int(555)
			args = Tuple{k, dflt}
		}
		v, err := c17CallMethod(d, "get", args, nil)
		verifAssert(err == nil, "no error")
		if m.has[i] {
			verifAssert(v == m.val[i], "get of a present key")
		} else {
			verifAssert(v == dflt, "get of a missing key gives the default")
		}
	case 4: // k in d
		k, i := c17Key("k")
		got, err := SequenceContains(d, k)
		verifAssert(err == nil && got == m.has[i], "membership")
	case 5: // len
		n := 0
		for i := range c17Keys {
			if m.has[i] {
				n++
			}
		}
		got, err := Len(d)
		verifAssert(err == nil && got == Object(Int(n)), "len")
	case 6: // d == e, d != e
		a, b := p.model[0], p.model[1]
		same := true
		for i := range c17Keys {
			if a.has[i] != b.has[i] || (a.has[i] && a.val[i] != b.val[i]) {
				same = false
			}
		}
		r, err := Eq(p.real[0], p.real[1])
		verifAssert(err == nil && r == Object(NewBool(same)), "== compares contents")
		r, err = Ne(p.real[0], p.real[1])
		verifAssert(err == nil && r == Object(NewBool(!same)), "!= is its negation")
	case 7: // iteration over keys
		var seen [4]int
		err := Iterate(d, func(o Object) bool {
			for i, k := range c17Keys {
				if o == Object(String(k)) {
					seen[i]++
				}
			}
			return false
		})
		verifAssert(err == nil, "no error")
		for i := range c17Keys {
			want := 0
			if m.has[i] {
				want = 1
			}
			verifAssert(seen[i] == want, "iteration yields every key exactly once")
		}
	case 8: // items() / values() / keys()
		var seen [4]int
		it, err := c17CallMethod(d, "items", nil, nil)
		verifAssert(err == nil, "no error")
		err = Iterate(it, func(o Object) bool {
			t, ok := o.(Tuple)
			verifAssert(ok && len(t) == 2, "items are pairs")
			for i, k := range c17Keys {
				if t[0] == Object(String(k)) && m.has[i] && t[1] == m.val[i] {
					seen[i]++
				}
			}
			return false
		})
		verifAssert(err == nil, "no error")
		for i := range c17Keys {
			want := 0
			if m.has[i] {
				want = 1
			}
			verifAssert(seen[i] == want, "items() yields every pair exactly once")
		}
	case 9: // copy by constructor: dict(d)
		r, err := DictNew(DictType, Tuple{d}, nil)
		verifAssert(err == nil, "dict(d) copies a dict")
		c, ok := r.(StringDict)
		verifAssert(ok && c17DictMatches(c, m), "the copy holds the same items")
		c["a"] = Int(999)
		delete(c, "b")
	case 10: // Copy()
		c := d.Copy()
		verifAssert(c17DictMatches(c, m), "the copy holds the same items")
		c["a"] = Int(999)
		delete(c, "b")
	case 11: // a key snapshot survives mutation while iterating
		it, err := Iter(d)
		verifAssert(err == nil, "iter")
		_, err = SetItem(d, String("d"), Int(1))
		verifAssert(err == nil, "no error")
		m.has[3], m.val[3] = true, Int(1)
		n := 0
		err = Iterate(it, func(o Object) bool { n++; return false })
		verifAssert(err == nil && n <= 4, "an iterator obtained before the insertion still ends")
	}
	verifReach("called")
	c17DictPost(p)
}

// sets of hashable scalars. Elements of the pool with their equality classes;
// the last two are second copies of equal values. Numerically equal values of
// different types (1 == 1.0 == True) are in VerifC17SetNumericTower.
var c17Elems = []Object{Int(1), Int(2), String("a"), Float(2.5), None, Int(3 - 2), String("ab"[:1])}
var c17Class = []int{0, 1, 2, 3, 4, 0, 2}

const c17NClass = 5

type c17S struct{ has [c17NClass]bool }

func c17MkSet(name string, n int) (*Set, *c17S) {
	s := NewSet()
	m := &c17S{}
	for i := 0; i < n; i++ {
		if verifChoice(name+"_has_"+string(rune('0'+i)), 2) == 1 {
			s.items[c17Elems[i]] = SetValue{}
			m.has[c17Class[i]] = true
		}
	}
	return s, m
}

func c17SetMatches(s *Set, m *c17S) bool {
	var seen [c17NClass]int
	err := Iterate(s, func(o Object) bool {
		for i, e := range c17Elems {
			if o == e {
				seen[c17Class[i]]++
				break
			}
		}
		return false
	})
	if err != nil {
		return false
	}
	n := 0
	for c := 0; c < c17NClass; c++ {
		want := 0
		if m.has[c] {
			want = 1
			n++
		}
		if seen[c] != want {
			return false
		}
	}
	l, err := Len(s)
	return err == nil && l == Object(Int(n))
}

//verif:property C17
//verif:maxpaths 400000 4000000
//verif:runinit github.com/go-python/gpython/py.init@set.go:1
//verif:expect called
func VerifC17SetStep() {
	var real [2]*Set
	var model [2]*c17S
	real[0], model[0] = c17MkSet("s", 5)
	if verifChoice("t_alias_s", 2) == 1 {
		real[1], model[1] = real[0], model[0]
	} else {
		real[1], model[1] = c17MkSet("t", 3)
	}
	w := verifChoice("w", 2)
	s, m := real[w], model[w]
	switch verifChoice("op", 9) {
	case 0: // s.add(e)
		i := verifChoice("e", len(c17Elems))
		r, err := c17CallMethod(s, "add", Tuple{c17Elems[i]}, nil)
		verifAssert(err == nil && r == None, "add returns None")
		m.has[c17Class[i]] = true
	case 1: // e in s
		i := verifChoice("e", len(c17Elems))
		got, err := SequenceContains(s, c17Elems[i])
		verifAssert(err == nil && got == m.has[c17Class[i]], "membership")
	case 2: // == / !=
		same := model[0].has == model[1].has
		r, err := Eq(real[0], real[1])
		verifAssert(err == nil && r == Object(NewBool(same)), "== compares contents")
		r, err = Ne(real[0], real[1])
		verifAssert(err == nil && r == Object(NewBool(!same)), "!= is its negation")
	case 3, 4, 5, 6: // & | - ^ give fresh sets
		op := verifChoiceOf("op")
		var r Object
		var err error
		want := &c17S{}
		a, b := model[0].has, model[1].has
		for c := 0; c < c17NClass; c++ {
			switch op {
			case 3:
				want.has[c] = a[c] && b[c]
			case 4:
				want.has[c] = a[c] || b[c]
			case 5:
				want.has[c] = a[c] && !b[c]
			case 6:
				want.has[c] = a[c] != b[c]
			}
		}
		switch op {
		case 3:
			r, err = And(real[0], real[1])
		case 4:
			r, err = Or(real[0], real[1])
		case 5:
			r, err = Sub(real[0], real[1])
		case 6:
			r, err = Xor(real[0], real[1])
		}
		verifAssert(err == nil, "no error")
		rs, ok := r.(*Set)
		verifAssert(ok && rs != real[0] && rs != real[1], "result is a new set")
		verifAssert(c17SetMatches(rs, want), "set algebra")
		rs.Add(String("zz"))
	case 7: // copy by constructor
		r, err := SetNew(SetType, Tuple{s}, nil)
		verifAssert(err == nil, "no error")
		rs, ok := r.(*Set)
		verifAssert(ok && rs != s && c17SetMatches(rs, m), "set(s) is a new set with the same elements")
		rs.Add(String("zz"))
	case 8: // construction from a sequence with duplicates
		i := verifChoice("e1", len(c17Elems))
		j := verifChoice("e2", len(c17Elems))
		r, err := SetNew(SetType, Tuple{Tuple{c17Elems[i], c17Elems[j], c17Elems[i]}}, nil)
		verifAssert(err == nil, "no error")
		want := &c17S{}
		want.has[c17Class[i]] = true
		want.has[c17Class[j]] = true
		rs, ok := r.(*Set)
		verifAssert(ok && c17SetMatches(rs, want), "set(sequence) keeps one element per equality class")
	}
	verifReach("called")
	verifAssert(c17SetMatches(real[0], model[0]) && c17SetMatches(real[1], model[1]), "every set variable holds what the model holds")
}

// 1 == 1.0 == True (and a big-int object equal to another): a set keeps one of them.
var c17Tower = []Object{Int(1), Float(1.0), True}

//verif:property C17
//verif:expect called
func VerifC17SetNumericTower() {
	i := verifChoice("e1", 3)
	j := verifChoice("e2", 3)
	s := NewSet()
	var err error
	if verifChoice("how", 2) == 0 {
		s.Add(c17Tower[i])
		_, err = c17CallMethod0(s, c17Tower[j])
	} else {
		var r Object
		r, err = SetNew(SetType, Tuple{Tuple{c17Tower[i], c17Tower[j]}}, nil)
		if err == nil {
			s = r.(*Set)
		}
	}
	verifReach("called")
	verifAssert(err == nil, "no error")
	n, err := Len(s)
	verifAssert(err == nil && n == Object(Int(1)), "numerically equal elements of different types are one element of a set")
}

// {a} == {b} whenever a == b, whatever the types and object identities
//
//verif:property C17
//verif:expect called
func VerifC17SetEqAcrossTypes() {
	pool := []Object{Int(1), Float(1.0), True, Int(2), Float(2.0), NewBigIntShift(70), NewBigIntShift(70), NewBigIntShift(71)}
	class := []int{0, 0, 0, 1, 1, 2, 2, 3}
	i := verifChoice("a", len(pool))
	j := verifChoice("b", len(pool))
	x, y := NewSetFromItems([]Object{pool[i], String("k")}), NewSetFromItems([]Object{String("k"), pool[j]})
	r, err := Eq(x, y)
	verifReach("called")
	verifAssert(err == nil && r == Object(NewBool(class[i] == class[j])), "sets are equal iff their elements are equal")
	r, err = Ne(x, y)
	verifAssert(err == nil && r == Object(NewBool(class[i] != class[j])), "!= is its negation")
}

func NewBigIntShift(n uint) Object {
	b := big.NewInt(1)
	b.Lsh(b, n)
	return (*BigInt)(b)
}

func c17CallMethod0(s *Set, e Object) (Object, error) {
	s.Add(e)
	return None, nil
}
