package py

import "math/big"

// C13 — indexing and slicing follow Python's sequence model for all indices.
//
// Sequence length is a case split 0..N, elements are distinct concrete
// objects; every index / slice bound is symbolic: absent, any int64, or (for
// the "big" harnesses) a big int beyond the word range. The oracle is the
// library reference's definition written over exact integers (math/big).

type c13B struct {
	obj  Object
	none bool
	v    *big.Int
}

// c13Bound makes one symbolic slice bound / index.
// kinds: 1 = Int only, 2 = Int|None, 3 = Int|None|*BigInt
func c13Bound(name string, kinds int) c13B {
	switch verifChoice(name+"_kind", kinds) {
	case 1:
		return c13B{obj: None, none: true}
	case 2:
		b := verifBigInt(name, 100)
		return c13B{obj: (*BigInt)(b), v: new(big.Int).Set(b)}
	}
	v := verifInt64(name)
	return c13B{obj: Int(v), v: big.NewInt(v)}
}

func c13Items(n int, base int) []Object {
	items := make([]Object, n)
	for i := range items {
		items[i] = Int(base + i)
	}
	return items
}

// c13RefIndices: the positions s[i:j:k] selects in a sequence of length n,
// per the library reference (Sequence Types, notes 3-5). zeroStep reports k == 0.
func c13RefIndices(n int, a, b, k c13B) (idx []int, zeroStep bool) {
	N := big.NewInt(int64(n))
	step := big.NewInt(1)
	if !k.none {
		step = k.v
	}
	if step.Sign() == 0 {
		return nil, true
	}
	zero := big.NewInt(0)
	minus1 := big.NewInt(-1)
	if step.Sign() > 0 {
		i := new(big.Int)
		if !a.none {
			i.Set(a.v)
			if i.Sign() < 0 {
				i.Add(i, N)
			}
			if i.Sign() < 0 {
				i.Set(zero)
			}
			if i.Cmp(N) > 0 {
				i.Set(N)
			}
		}
		j := new(big.Int).Set(N)
		if !b.none {
			j.Set(b.v)
			if j.Sign() < 0 {
				j.Add(j, N)
			}
			if j.Sign() < 0 {
				j.Set(zero)
			}
			if j.Cmp(N) > 0 {
				j.Set(N)
			}
		}
		for x := i; x.Cmp(j) < 0; x = new(big.Int).Add(x, step) {
			idx = append(idx, int(x.Int64()))
		}
		return idx, false
	}
	Nm1 := big.NewInt(int64(n - 1))
	i := new(big.Int).Set(Nm1)
	if !a.none {
		i.Set(a.v)
		if i.Sign() < 0 {
			i.Add(i, N)
		}
		if i.Sign() < 0 {
			i.Set(minus1)
		}
		if i.Cmp(Nm1) > 0 {
			i.Set(Nm1)
		}
	}
	j := new(big.Int).Set(minus1)
	if !b.none {
		j.Set(b.v)
		if j.Sign() < 0 {
			j.Add(j, N)
		}
		if j.Sign() < 0 {
			j.Set(minus1)
		}
		if j.Cmp(Nm1) > 0 {
			j.Set(Nm1)
		}
	}
	for x := i; x.Cmp(j) > 0; x = new(big.Int).Add(x, step) {
		idx = append(idx, int(x.Int64()))
	}
	return idx, false
}

// c13RefIndex: normalised position of index i in a sequence of length n, or -1 for IndexError.
func c13RefIndex(n int, i c13B) int {
	v := new(big.Int).Set(i.v)
	if v.Sign() < 0 {
		v.Add(v, big.NewInt(int64(n)))
	}
	if v.Sign() < 0 || v.Cmp(big.NewInt(int64(n))) >= 0 {
		return -1
	}
	return int(v.Int64())
}

func c13SameItems(got []Object, want []Object) bool {
	if len(got) != len(want) {
		return false
	}
	for i := range want {
		if got[i] != want[i] {
			return false
		}
	}
	return true
}

func c13Pick(items []Object, idx []int) []Object {
	out := make([]Object, len(idx))
	for i, x := range idx {
		out[i] = items[x]
	}
	return out
}

// ---------------------------------------------------------------------------
// slice normalisation itself

//verif:property C13
//verif:encoding int
//verif:expect called
func VerifC13GetIndices() {
	n := verifChoice("n", verifBound(4, 7))
	a, b, k := c13Bound("start", 2), c13Bound("stop", 2), c13Bound("step", 2)
	start, _, step, slicelength, err := NewSlice(a.obj, b.obj, k.obj).GetIndices(n)
	verifReach("called")
	ref, zero := c13RefIndices(n, a, b, k)
	if zero {
		verifAssert(err != nil && c07ErrIs(err, ValueError), "zero step raises ValueError")
		return
	}
	verifAssert(err == nil, "no error")
	verifAssert(slicelength == len(ref), "slice length")
	for m, x := range ref {
		verifAssert(start+m*step == x, "m-th selected position is start + m*step")
	}
}

// ---------------------------------------------------------------------------
// list

func c13GetSlice(mk func(items []Object) Object, unpack func(o Object) ([]Object, bool), kinds int) {
	nmax := verifBound(4, 7)
	if kinds == 3 {
		nmax = verifBound(3, 6) // three kinds of bound per position: keep the quick tier small
	}
	n := verifChoice("n", nmax)
	items := c13Items(n, 101)
	seq := mk(items)
	a, b, k := c13Bound("start", kinds), c13Bound("stop", kinds), c13Bound("step", kinds)
	got, err := GetItem(seq, NewSlice(a.obj, b.obj, k.obj))
	verifReach("called")
	ref, zero := c13RefIndices(n, a, b, k)
	if zero {
		verifAssert(err != nil && c07ErrIs(err, ValueError), "zero step raises ValueError")
		return
	}
	verifAssert(err == nil, "no error")
	gi, ok := unpack(got)
	verifAssert(ok, "result has the operand's type")
	verifAssert(c13SameItems(gi, c13Pick(items, ref)), "selected elements")
	after, _ := unpack(seq)
	verifAssert(c13SameItems(after, items), "operand unchanged")
	if l, isList := got.(*List); isList && len(l.Items) > 0 {
		l.Items[0] = Int(-7)
		after, _ = unpack(seq)
		verifAssert(c13SameItems(after, items), "result does not alias the operand")
	}
}

func c13MkList(items []Object) Object { return NewListFromItems(items) }
func c13UnList(o Object) ([]Object, bool) {
	l, ok := o.(*List)
	if !ok {
		return nil, false
	}
	return l.Items, true
}
func c13MkTuple(items []Object) Object { return Tuple(append([]Object{}, items...)) }
func c13UnTuple(o Object) ([]Object, bool) {
	t, ok := o.(Tuple)
	return []Object(t), ok
}

//verif:property C13
//verif:encoding int
//verif:expect called
func VerifC13ListGetSlice() { c13GetSlice(c13MkList, c13UnList, 2) }

//verif:property C13
//verif:encoding int
//verif:expect called
func VerifC13TupleGetSlice() { c13GetSlice(c13MkTuple, c13UnTuple, 2) }

//verif:property C13
//verif:encoding int
//verif:expect called
//verif:maxpaths 6000 60000
func VerifC13ListGetSliceBig() { c13GetSlice(c13MkList, c13UnList, 3) }

func c13GetIndex(mk func(items []Object) Object, kinds int) {
	n := verifChoice("n", verifBound(4, 7))
	items := c13Items(n, 101)
	seq := mk(items)
	i := c13Bound("i", kinds)
	if i.none {
		return
	}
	got, err := GetItem(seq, i.obj)
	verifReach("called")
	p := c13RefIndex(n, i)
	if p < 0 {
		verifAssert(err != nil && c07ErrIs(err, IndexError), "out of range index raises IndexError")
		return
	}
	verifAssert(err == nil, "no error")
	verifAssert(got == items[p], "indexed element")
}

//verif:property C13
//verif:encoding int
//verif:expect called
func VerifC13ListGetIndex() { c13GetIndex(c13MkList, 3) }

//verif:property C13
//verif:encoding int
//verif:expect called
func VerifC13TupleGetIndex() { c13GetIndex(c13MkTuple, 3) }

//verif:property C13
//verif:encoding int
//verif:expect called
func VerifC13ListSetIndex() {
	n := verifChoice("n", verifBound(4, 7))
	items := c13Items(n, 101)
	l := NewListFromItems(items)
	i := c13Bound("i", 1)
	_, err := SetItem(l, i.obj, Int(-7))
	verifReach("called")
	p := c13RefIndex(n, i)
	if p < 0 {
		verifAssert(err != nil && c07ErrIs(err, IndexError), "out of range index raises IndexError")
		verifAssert(c13SameItems(l.Items, items), "list unchanged after error")
		return
	}
	verifAssert(err == nil, "no error")
	want := append([]Object{}, items...)
	want[p] = Int(-7)
	verifAssert(c13SameItems(l.Items, want), "only the indexed element replaced")
}

//verif:property C13
//verif:encoding int
//verif:expect called
func VerifC13ListDelIndex() {
	n := verifChoice("n", verifBound(4, 7))
	items := c13Items(n, 101)
	l := NewListFromItems(items)
	i := c13Bound("i", 1)
	_, err := DelItem(l, i.obj)
	verifReach("called")
	p := c13RefIndex(n, i)
	if p < 0 {
		verifAssert(err != nil && c07ErrIs(err, IndexError), "out of range index raises IndexError")
		verifAssert(c13SameItems(l.Items, items), "list unchanged after error")
		return
	}
	verifAssert(err == nil, "no error")
	want := append(append([]Object{}, items[:p]...), items[p+1:]...)
	verifAssert(c13SameItems(l.Items, want), "only the indexed element removed")
}

//verif:property C13
//verif:encoding int
//verif:expect called
func VerifC13ListSetSlice() { c13SetSlice(false) }

// the right-hand side is the list being assigned to
//
//verif:property C13 C17
//verif:encoding int
//verif:expect called
func VerifC13ListSetSliceSelf() { c13SetSlice(true) }

func c13SetSlice(self bool) {
	n := verifChoice("n", verifBound(3, 5))
	items := c13Items(n, 101)
	l := NewListFromItems(items)
	var m int
	var vals []Object
	var v *List
	if self {
		m, vals, v = n, append([]Object{}, items...), l
	} else {
		m = verifChoice("m", verifBound(3, 4))
		vals = c13Items(m, 201)
		v = NewListFromItems(vals)
	}
	a, b, k := c13Bound("start", 2), c13Bound("stop", 2), c13Bound("step", 2)
	_, err := SetItem(l, NewSlice(a.obj, b.obj, k.obj), v)
	verifReach("called")
	ref, zero := c13RefIndices(n, a, b, k)
	if zero {
		verifAssert(err != nil && c07ErrIs(err, ValueError), "zero step raises ValueError")
		verifAssert(c13SameItems(l.Items, items), "list unchanged after error")
		return
	}
	simple := k.none || k.v.Cmp(big.NewInt(1)) == 0
	if simple {
		// s[i:j] = t : the slice is replaced by the contents of t. Insertion point is the
		// normalised start even when the slice is empty.
		lo := n
		if len(ref) > 0 {
			lo = ref[0]
		} else {
			e, _ := c13RefIndices(n, a, c13B{none: true}, c13B{none: true})
			if len(e) > 0 {
				lo = e[0]
			}
		}
		want := append([]Object{}, items[:lo]...)
		want = append(want, vals...)
		want = append(want, items[lo+len(ref):]...)
		verifAssert(err == nil, "no error")
		verifAssert(c13SameItems(l.Items, want), "slice replaced by the new contents")
	} else if len(ref) != m {
		verifAssert(err != nil && c07ErrIs(err, ValueError), "extended slice size mismatch raises ValueError")
		verifAssert(c13SameItems(l.Items, items), "list unchanged after error")
	} else {
		want := append([]Object{}, items...)
		for q, x := range ref {
			want[x] = vals[q]
		}
		verifAssert(err == nil, "no error")
		verifAssert(c13SameItems(l.Items, want), "extended slice elements replaced")
	}
	if !self {
		verifAssert(c13SameItems(v.Items, vals), "right-hand side unchanged")
	}
}

//verif:property C13
//verif:encoding int
//verif:expect called
func VerifC13ListDelSlice() {
	n := verifChoice("n", verifBound(4, 7))
	items := c13Items(n, 101)
	l := NewListFromItems(items)
	a, b, k := c13Bound("start", 2), c13Bound("stop", 2), c13Bound("step", 2)
	_, err := DelItem(l, NewSlice(a.obj, b.obj, k.obj))
	verifReach("called")
	ref, zero := c13RefIndices(n, a, b, k)
	if zero {
		verifAssert(err != nil && c07ErrIs(err, ValueError), "zero step raises ValueError")
		verifAssert(c13SameItems(l.Items, items), "list unchanged after error")
		return
	}
	verifAssert(err == nil, "no error")
	del := make([]bool, n)
	for _, x := range ref {
		del[x] = true
	}
	var want []Object
	for i, it := range items {
		if !del[i] {
			want = append(want, it)
		}
	}
	verifAssert(c13SameItems(l.Items, want), "exactly the selected elements removed")
}

// concatenation and repetition

func c13Concat(mk func(items []Object) Object, unpack func(o Object) ([]Object, bool)) {
	n := verifChoice("n", verifBound(4, 5))
	m := verifChoice("m", verifBound(4, 5))
	ai, bi := c13Items(n, 101), c13Items(m, 201)
	a, b := mk(ai), mk(bi)
	got, err := Add(a, b)
	verifReach("called")
	verifAssert(err == nil, "no error")
	gi, ok := unpack(got)
	verifAssert(ok, "result has the operand's type")
	verifAssert(c13SameItems(gi, append(append([]Object{}, ai...), bi...)), "concatenation")
	x, _ := unpack(a)
	y, _ := unpack(b)
	verifAssert(c13SameItems(x, ai) && c13SameItems(y, bi), "operands unchanged")
	if l, isList := got.(*List); isList && len(l.Items) > 0 {
		for i := range l.Items {
			l.Items[i] = Int(-7)
		}
		x, _ = unpack(a)
		y, _ = unpack(b)
		verifAssert(c13SameItems(x, ai) && c13SameItems(y, bi), "result does not alias the operands")
	}
}

//verif:property C13
//verif:expect called
func VerifC13ListConcat() { c13Concat(c13MkList, c13UnList) }

//verif:property C13
//verif:expect called
func VerifC13TupleConcat() { c13Concat(c13MkTuple, c13UnTuple) }

func c13Repeat(mk func(items []Object) Object, unpack func(o Object) ([]Object, bool), reflected bool) {
	n := verifChoice("n", verifBound(4, 5))
	ai := c13Items(n, 101)
	a := mk(ai)
	kv := verifInt64("k")
	verifAssume(kv <= 3) // larger repeat counts only grow the result
	var got Object
	var err error
	if reflected {
		got, err = Mul(Int(kv), a)
	} else {
		got, err = Mul(a, Int(kv))
	}
	verifReach("called")
	verifAssert(err == nil, "no error")
	gi, ok := unpack(got)
	verifAssert(ok, "result has the operand's type")
	var want []Object
	for r := int64(0); r < kv; r++ {
		want = append(want, ai...)
	}
	verifAssert(c13SameItems(gi, want), "repetition")
	x, _ := unpack(a)
	verifAssert(c13SameItems(x, ai), "operand unchanged")
}

//verif:property C13
//verif:encoding int
//verif:expect called
func VerifC13ListRepeat() { c13Repeat(c13MkList, c13UnList, false) }

//verif:property C13
//verif:encoding int
//verif:expect called
func VerifC13ListRepeatR() { c13Repeat(c13MkList, c13UnList, true) }

//verif:property C13
//verif:encoding int
//verif:expect called
func VerifC13TupleRepeat() { c13Repeat(c13MkTuple, c13UnTuple, false) }

func bigOf(v int64) *big.Int { return big.NewInt(v) }

// A tuple obtained by slicing shares storage with its source: concatenating
// onto it must not write into the source or into an earlier result.
//
//verif:property C13
//verif:expect called
func VerifC13TupleConcatSub() {
	n := verifChoice("n", verifBound(5, 6))
	k := verifChoice("k", verifBound(5, 6))
	verifAssume(k <= n)
	items := c13Items(n, 101)
	t := Tuple(append([]Object{}, items...))
	sub, err := GetItem(t, NewSlice(None, Int(k), None))
	verifAssert(err == nil, "no error")
	// t + u, t += u (tuples are immutable: in-place concatenation makes a new tuple too), t * 1 + u
	cat := Add
	if verifChoice("inplace", 2) == 1 {
		cat = IAdd
	}
	r1, err := cat(sub, Tuple{Int(-1)})
	verifAssert(err == nil, "no error")
	r2, err := cat(sub, Tuple{Int(-2), Int(-3)})
	verifAssert(err == nil, "no error")
	verifReach("called")
	verifAssert(c13SameItems([]Object(t), items), "source tuple unchanged by concatenation onto its slice")
	g1, ok1 := r1.(Tuple)
	g2, ok2 := r2.(Tuple)
	verifAssert(ok1 && ok2, "results are tuples")
	verifAssert(c13SameItems([]Object(g1), append(append([]Object{}, items[:k]...), Int(-1))), "first concatenation intact")
	verifAssert(c13SameItems([]Object(g2), append(append([]Object{}, items[:k]...), Int(-2), Int(-3))), "second concatenation")
}

// bytes are immutable: b += x makes a new value; two values grown from the
// same bytes object must not write into each other's storage.
//
//verif:property C13
//verif:expect called
func VerifC13BytesIAdd() {
	n := verifChoice("n", verifBound(4, 8))
	b0 := Bytes(verifString("b", n))
	want0 := string(b0)
	x, y, z := verifByte("x"), verifByte("y"), verifByte("z")
	cat := IAdd
	if verifChoice("inplace", 2) == 0 {
		cat = Add
	}
	b1, err := cat(b0, Bytes{x})
	verifAssert(err == nil, "no error")
	c := b1 // a second name for the same value
	b2, err := cat(b1, Bytes{y})
	verifAssert(err == nil, "no error")
	c2, err := cat(c, Bytes{z})
	verifAssert(err == nil, "no error")
	verifReach("called")
	g0, g1, g2, g3 := string(b0), string(b1.(Bytes)), string(b2.(Bytes)), string(c2.(Bytes))
	verifAssert(g0 == want0, "the first operand is unchanged")
	verifAssert(g1 == want0+string([]byte{x}), "b += x is b + x")
	verifAssert(g2 == want0+string([]byte{x, y}), "a value grown from b is not changed by growing another value from b")
	verifAssert(g3 == want0+string([]byte{x, z}), "each in-place concatenation yields its own bytes")
}
