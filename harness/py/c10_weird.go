package py

import (
	"math"
	"strconv"
)

// C10 — objects whose special methods misbehave. Python code can define a
// class whose __len__ returns a string, whose __iter__ returns a non-iterator,
// whose __index__ returns None, whose __lt__ raises ...; every consumer of such
// a method (operators, subscripts, builtins, type constructors) must turn that
// into a Python exception, never into a Go panic. Two flavours:
//
//   - c10Weird: a Go-defined object (the I__xxx__ interfaces), as an embedder's
//     extension type would be;
//   - c10WeirdClass: a class created through the real type constructor with the
//     special methods in its dictionary, i.e. what a Python `class` statement
//     produces; its methods are reached through the TypeCall path.
//
// The result of every special method is a case split: raise, or return a value
// from a list that contains every wrong type.

var c10WeirdCalls int

func c10Ret(tag string) (Object, error) {
	c10WeirdCalls++
	name := "ret_" + tag + "_" + strconv.Itoa(c10WeirdCalls)
	if c10WeirdCalls > 4 {
		// after a few calls the object settles (keeps every path finite)
		return nil, ExceptionNewf(ValueError, "weird object gives up")
	}
	switch verifChoice(name, 10) {
	case 0:
		return nil, ExceptionNewf(TypeError, "weird")
	case 1:
		return None, nil
	case 2:
		if verifBound(0, 1) == 0 {
			// quick tier: the edge values; thorough tier: any int64
			return []Object{Int(0), Int(-1), Int(2), Int(1 << 40), Int(-1 << 63)}[verifChoice(name+"_e", 5)], nil
		}
		return Int(verifInt64(name + "_i")), nil
	case 3:
		return String("s"), nil
	case 4:
		if verifBound(0, 1) == 0 {
			return []Object{Float(1.5), Float(-0.0), Float(1e300), Float(math.Inf(1)), Float(math.NaN())}[verifChoice(name+"_fe", 5)], nil
		}
		return Float(verifFloat64(name + "_f")), nil
	case 5:
		return Tuple{}, nil
	case 6:
		return NotImplemented, nil
	case 7:
		return NewBigIntShift(70), nil
	case 8:
		return NewBool(verifBool(name + "_b")), nil
	}
	return NewListFromItems([]Object{Int(1)}), nil
}

type c10Weird struct{}

var c10WeirdType = NewType("weird", "")

func (w *c10Weird) Type() *Type                               { return c10WeirdType }
func (w *c10Weird) M__repr__() (Object, error)                { return c10Ret("repr") }
func (w *c10Weird) M__str__() (Object, error)                 { return c10Ret("str") }
func (w *c10Weird) M__bool__() (Object, error)                { return c10Ret("bool") }
func (w *c10Weird) M__len__() (Object, error)                 { return c10Ret("len") }
func (w *c10Weird) M__iter__() (Object, error)                { return c10Ret("iter") }
func (w *c10Weird) M__next__() (Object, error)                { return c10Ret("next") }
func (w *c10Weird) M__contains__(item Object) (Object, error) { return c10Ret("contains") }
func (w *c10Weird) M__getitem__(key Object) (Object, error)   { return c10Ret("getitem") }
func (w *c10Weird) M__setitem__(k, v Object) (Object, error)  { return c10Ret("setitem") }
func (w *c10Weird) M__delitem__(key Object) (Object, error)   { return c10Ret("delitem") }
func (w *c10Weird) M__neg__() (Object, error)                 { return c10Ret("neg") }
func (w *c10Weird) M__abs__() (Object, error)                 { return c10Ret("abs") }
func (w *c10Weird) M__invert__() (Object, error)              { return c10Ret("invert") }
func (w *c10Weird) M__int__() (Object, error)                 { return c10Ret("int") }
func (w *c10Weird) M__float__() (Object, error)               { return c10Ret("float") }
func (w *c10Weird) M__complex__() (Object, error)             { return c10Ret("complex") }
func (w *c10Weird) M__round__(n Object) (Object, error)       { return c10Ret("round") }
func (w *c10Weird) M__lt__(o Object) (Object, error)          { return c10Ret("lt") }
func (w *c10Weird) M__le__(o Object) (Object, error)          { return c10Ret("le") }
func (w *c10Weird) M__gt__(o Object) (Object, error)          { return c10Ret("gt") }
func (w *c10Weird) M__ge__(o Object) (Object, error)          { return c10Ret("ge") }
func (w *c10Weird) M__eq__(o Object) (Object, error)          { return c10Ret("eq") }
func (w *c10Weird) M__ne__(o Object) (Object, error)          { return c10Ret("ne") }
func (w *c10Weird) M__add__(o Object) (Object, error)         { return c10Ret("add") }
func (w *c10Weird) M__radd__(o Object) (Object, error)        { return c10Ret("radd") }
func (w *c10Weird) M__mul__(o Object) (Object, error)         { return c10Ret("mul") }
func (w *c10Weird) M__rmul__(o Object) (Object, error)        { return c10Ret("rmul") }
func (w *c10Weird) M__mod__(o Object) (Object, error)         { return c10Ret("mod") }
func (w *c10Weird) M__enter__() (Object, error)               { return c10Ret("enter") }
func (w *c10Weird) M__call__(a Tuple, k StringDict) (Object, error) {
	return c10Ret("call")
}

var c10WeirdNames = []string{"__repr__", "__str__", "__bool__", "__len__", "__iter__", "__next__", "__contains__", "__getitem__", "__setitem__", "__delitem__",
	"__neg__", "__abs__", "__invert__", "__int__", "__float__", "__complex__", "__round__", "__index__", "__lt__", "__le__", "__gt__", "__ge__", "__eq__", "__ne__",
	"__add__", "__radd__", "__mul__", "__rmul__", "__mod__", "__call__", "__hash__", "__length_hint__", "__getattr__", "__bytes__"}

// c10WeirdInstance: an instance of a class made by the type constructor, every special method in its dictionary
func c10WeirdInstance() Object {
	d := StringDict{}
	for _, n := range c10WeirdNames {
		tag := n
		d[n] = MustNewMethod(n, func(self Object, args Tuple) (Object, error) { return c10Ret(tag) }, 0, "")
	}
	cls, err := TypeNew(TypeType, Tuple{String("K"), Tuple{ObjectType}, d}, nil)
	verifAssert(err == nil, "class created")
	inst, err := Call(cls, nil, nil)
	verifAssert(err == nil, "instance created")
	return inst
}

func c10MkWeird() Object {
	c10WeirdCalls = 0
	if verifChoice("flavour", 2) == 1 {
		return c10WeirdInstance()
	}
	return &c10Weird{}
}

//verif:property C10
//verif:timeout 600 3600
//verif:maxpaths 400000 4000000
//verif:runinit github.com/go-python/gpython/py.init@type.go:1 github.com/go-python/gpython/py.init@exception.go:1
//verif:havoc math.Pow math.Mod math/cmplx.Pow math.Exp math.Log math.Sincos math.Sin math.Cos math.Atan2 strconv.FormatFloat strconv.AppendFloat strconv.ParseFloat
//verif:expect called
func VerifC10WeirdUnary() {
	w := c10MkWeird()
	op := verifChoice("op", len(c10Unary))
	_, _ = c10Unary[op](w)
	verifReach("called")
	verifAssert(true, "the operation came back (value or error) without a Go panic, for every value of the symbolic operands on this path")
}

// the weird object on either side of every binary form, against one value of each scalar/container kind
//
//verif:property C10
//verif:timeout 600 3600
//verif:maxpaths 600000 6000000
//verif:runinit github.com/go-python/gpython/py.init@type.go:1 github.com/go-python/gpython/py.init@exception.go:1
//verif:havoc math.Pow math.Mod math/cmplx.Pow math.Exp math.Log math.Sincos math.Sin math.Cos math.Atan2 strconv.FormatFloat strconv.AppendFloat strconv.ParseFloat
//verif:expect called
func VerifC10WeirdBinary() {
	w := c10MkWeird()
	other := c10Value("o", verifBound(9, c10NKinds), false)
	op := verifChoice("op", len(c10Binary))
	if verifChoice("weird_right", 2) == 1 {
		_, _ = c10Binary[op](other, w)
	} else {
		_, _ = c10Binary[op](w, other)
	}
	verifReach("called")
	verifAssert(true, "the operation came back (value or error) without a Go panic, for every value of the symbolic operands on this path")
}

// the weird object as an index / slice bound / count / element / key inside the built-in containers' operations
//
//verif:property C10
//verif:timeout 600 3600
//verif:maxpaths 400000 4000000
//verif:runinit github.com/go-python/gpython/py.init@type.go:1 github.com/go-python/gpython/py.init@exception.go:1 github.com/go-python/gpython/py.init@list.go:1 github.com/go-python/gpython/py.init@string.go:1
//verif:havoc math.Pow math.Mod strconv.FormatFloat strconv.AppendFloat strconv.ParseFloat
//verif:expect called
func VerifC10WeirdInContainers() {
	w := c10MkWeird()
	l := NewListFromItems([]Object{Int(3), Int(1), Int(2)})
	switch verifChoice("use", 14) {
	case 0:
		_, _ = GetItem(l, w)
	case 1:
		_, _ = GetItem(String("abc"), NewSlice(w, None, None))
	case 2:
		_, _ = GetItem(Tuple{Int(1), Int(2)}, NewSlice(None, w, w))
	case 3:
		_, _ = SetItem(l, NewSlice(None, None, None), w)
	case 4:
		_, _ = DelItem(l, w)
	case 5:
		_, _ = Mul(l, w)
	case 6:
		_, _ = Mul(String("ab"), w)
	case 7:
		ll := NewListFromItems([]Object{w, Int(1), w})
		_, _ = c17CallMethod(ll, "sort", nil, nil)
	case 8:
		_, _ = c17CallMethod(NewListFromItems([]Object{Int(3), Int(1)}), "sort", nil, StringDict{"key": w})
	case 9:
		_, _ = c17CallMethod(l, "extend", Tuple{w}, nil)
	case 10:
		_, _ = SequenceContains(NewListFromItems([]Object{Int(1), w}), Int(5))
	case 11:
		_, _ = Eq(Tuple{w}, Tuple{Int(1)})
	case 12:
		_, _ = c17CallMethod(String("a-b"), "join", Tuple{w}, nil)
	case 13:
		_, _ = c17CallMethod(String("a-b"), "split", Tuple{w, w}, nil)
	}
	verifReach("called")
	verifAssert(true, "the operation came back (value or error) without a Go panic, for every value of the symbolic operands on this path")
}

// VerifC10Weird: for the harnesses of other packages.
func VerifC10Weird() Object { return c10MkWeird() }
