package py

// C14 — split / join / strip / replace on strings of code points of every
// UTF-8 width, white space and separators included. Strings are built from a
// small alphabet by symbolic choice (lengths 0..k); the separator / character
// set / replacement and the counts are symbolic choices too. The oracle is a
// direct implementation of the library reference on rune arrays.

var c14SplitAlphabet = []rune{'a', ',', ' ', 0xe9, '\t', 0x2070e, 'b'}

func c14SplitStr(name string, maxLen, nalpha int) []rune {
	n := verifChoice(name+"_len", maxLen+1)
	rs := make([]rune, n)
	for i := range rs {
		rs[i] = c14SplitAlphabet[verifChoice(name+string(rune('0'+i)), nalpha)]
	}
	return rs
}

func c14IsSpace(r rune) bool { return r == ' ' || r == '\t' || r == '\n' }

func c14RuneEq(a, b []rune) bool {
	if len(a) != len(b) {
		return false
	}
	for i := range a {
		if a[i] != b[i] {
			return false
		}
	}
	return true
}

func c14HasPrefix(s, p []rune) bool { return len(s) >= len(p) && c14RuneEq(s[:len(p)], p) }

// reference: str.split(sep, maxsplit) with a non-empty separator
func c14RefSplitSep(s, sep []rune, max int) [][]rune {
	var out [][]rune
	cur := []rune{}
	for i := 0; i < len(s); {
		if (max < 0 || len(out) < max) && c14HasPrefix(s[i:], sep) {
			out = append(out, cur)
			cur = []rune{}
			i += len(sep)
			continue
		}
		cur = append(cur, s[i])
		i++
	}
	return append(out, cur)
}

// reference: str.split(None, maxsplit): runs of white space separate, none at the ends;
// after maxsplit splits the rest (leading white space dropped) is the last item
func c14RefSplitSpace(s []rune, max int) [][]rune {
	var out [][]rune
	i := 0
	for {
		for i < len(s) && c14IsSpace(s[i]) {
			i++
		}
		if i == len(s) {
			return out
		}
		if max >= 0 && len(out) == max {
			return append(out, append([]rune{}, s[i:]...))
		}
		j := i
		for j < len(s) && !c14IsSpace(s[j]) {
			j++
		}
		out = append(out, append([]rune{}, s[i:j]...))
		i = j
	}
}

func c14ListOfStrings(o Object) ([][]rune, bool) {
	l, ok := o.(*List)
	if !ok {
		return nil, false
	}
	var out [][]rune
	for _, it := range l.Items {
		s, ok := it.(String)
		if !ok {
			return nil, false
		}
		out = append(out, []rune(string(s)))
	}
	return out, true
}

//verif:property C14
//verif:runinit github.com/go-python/gpython/py.init@string.go:1
//verif:expect called
//verif:maxpaths 100000 1000000
//verif:timeout 400 2400
func VerifC14Split() {
	for _, t := range []*Type{BaseException, ExceptionType, ValueError, TypeError} {
		_ = t.Ready()
	}
	rs := c14SplitStr("s", verifBound(4, 5), verifBound(4, len(c14SplitAlphabet)))
	s := String(string(rs))
	// separator: None, ",", ", " (two characters), "é", "" (an error)
	seps := [][]rune{nil, {','}, {',', ' '}, {0xe9}, {}}
	which := verifChoice("sep", len(seps))
	sep := seps[which]
	// maxsplit: absent, -1, 0, 1, 2
	maxes := []int{-9, -1, 0, 1, 2}
	max := maxes[verifChoice("maxsplit", len(maxes))]
	var args Tuple
	if which == 0 {
		if max != -9 {
			args = Tuple{None, Int(max)}
		}
	} else {
		args = Tuple{String(string(sep))}
		if max != -9 {
			args = append(args, Int(max))
		}
	}
	got, err := s.Split(args, nil)
	verifReach("called")
	if which != 0 && len(sep) == 0 {
		verifAssert(err != nil && IsException(ValueError, err), "an empty separator is a ValueError")
		return
	}
	verifAssert(err == nil, "no error")
	parts, ok := c14ListOfStrings(got)
	verifAssert(ok, "split() returns a list of strings")
	var want [][]rune
	if which == 0 {
		want = c14RefSplitSpace(rs, max)
	} else {
		want = c14RefSplitSep(rs, sep, max)
	}
	verifAssert(len(parts) == len(want), "split() yields the number of items the library reference defines")
	for i := range want {
		if i < len(parts) {
			verifAssert(c14RuneEq(parts[i], want[i]), "split() yields the items the library reference defines")
		}
	}
	if which != 0 && max < 0 {
		// joining with the separator gives the string back
		back, err := String(string(sep)).Join(Tuple{got})
		verifAssert(err == nil && back == Object(s), "sep.join(s.split(sep)) == s")
	}
}

//verif:property C14
//verif:runinit github.com/go-python/gpython/py.init@string.go:1
//verif:expect called
//verif:maxpaths 100000 1000000
//verif:timeout 400 2400
func VerifC14StripReplace() {
	rs := c14SplitStr("s", verifBound(4, 5), verifBound(4, len(c14SplitAlphabet)))
	s := String(string(rs))
	switch verifChoice("method", 4) {
	case 0, 1, 2:
		// strip / lstrip / rstrip with None (white space) or a set of characters
		sets := [][]rune{nil, {'a'}, {',', ' '}, {0xe9, 'a'}, {}}
		set := sets[verifChoice("chars", len(sets))]
		var args Tuple
		inSet := c14IsSpace
		if set != nil {
			args = Tuple{String(string(set))}
			inSet = func(r rune) bool {
				for _, c := range set {
					if c == r {
						return true
					}
				}
				return false
			}
		}
		m := verifChoiceOf("method")
		var got Object
		var err error
		lo, hi := 0, len(rs)
		switch m {
		case 0:
			got, err = s.Strip(args)
		case 1:
			got, err = s.LStrip(args)
		default:
			got, err = s.RStrip(args)
		}
		verifReach("called")
		if m != 2 {
			for lo < hi && inSet(rs[lo]) {
				lo++
			}
		}
		if m != 1 {
			for hi > lo && inSet(rs[hi-1]) {
				hi--
			}
		}
		verifAssert(err == nil, "no error")
		g, ok := got.(String)
		verifAssert(ok && c14RuneEq([]rune(string(g)), rs[lo:hi]), "strip removes exactly the leading / trailing characters of the set")
	default:
		olds := [][]rune{{'a'}, {',', ' '}, {0xe9}, {}}
		old := olds[verifChoice("old", len(olds))]
		news := [][]rune{{}, {'b'}, {0x2070e, 'a'}}
		nw := news[verifChoice("new", len(news))]
		counts := []int{-9, -1, 0, 1, 2}
		cnt := counts[verifChoice("count", len(counts))]
		args := Tuple{String(string(old)), String(string(nw))}
		if cnt != -9 {
			args = append(args, Int(cnt))
		}
		got, err := s.Replace(args)
		verifReach("called")
		verifAssert(err == nil, "no error")
		// reference: left to right, non-overlapping, at most count (negative: all);
		// an empty old matches before every character and at the end
		var want []rune
		done := 0
		lim := cnt
		i := 0
		if len(old) == 0 {
			for {
				if lim < 0 || done < lim {
					want = append(want, nw...)
					done++
				}
				if i == len(rs) {
					break
				}
				want = append(want, rs[i])
				i++
			}
		} else {
			for i < len(rs) {
				if (lim < 0 || done < lim) && c14HasPrefix(rs[i:], old) {
					want = append(want, nw...)
					i += len(old)
					done++
					continue
				}
				want = append(want, rs[i])
				i++
			}
		}
		g, ok := got.(String)
		verifAssert(ok && c14RuneEq([]rune(string(g)), want), "replace() substitutes the leftmost non-overlapping occurrences, count of them at most")
	}
}
