package py

import "math/big"

// C07 — integer arithmetic is exact and independent of representation.
//
// Operands: each is, by symbolic choice, an Int (any int64), a *BigInt of
// |v| < 2^bits (including values that would fit a word: a non-normalised big
// is a legal operand) or a Bool. The oracle is exact integer arithmetic
// (math/big natively, exact SMT terms in the engine).

func c07Operand(name string, bits int, reps int) (Object, *big.Int) {
	switch verifChoice(name+"_rep", reps) {
	case 0:
		v := verifInt64(name)
		return Int(v), big.NewInt(v)
	case 1:
		b := verifBigInt(name, bits)
		return (*BigInt)(b), new(big.Int).Set(b)
	default:
		if verifBool(name) {
			return Bool(true), big.NewInt(1)
		}
		return Bool(false), big.NewInt(0)
	}
}

// c07Same: got is an integer object whose value equals want.
func c07Same(got Object, want *big.Int) bool {
	switch g := got.(type) {
	case Int:
		return big.NewInt(int64(g)).Cmp(want) == 0
	case *BigInt:
		return (*big.Int)(g).Cmp(want) == 0
	}
	return false
}

func c07Unchanged(o Object, v *big.Int) bool {
	if b, ok := o.(*BigInt); ok {
		return (*big.Int)(b).Cmp(v) == 0
	}
	return true
}

func c07Bin(op func(a, b Object) (Object, error), ref func(z, x, y *big.Int) *big.Int, bits int) {
	a, av := c07Operand("a", bits, 3)
	b, bv := c07Operand("b", bits, 3)
	got, err := op(a, b)
	verifReach("called")
	verifAssert(err == nil, "no error")
	want := ref(new(big.Int), av, bv)
	verifAssert(c07Same(got, want), "exact result")
	verifAssert(c07Unchanged(a, av), "left operand unchanged")
	verifAssert(c07Unchanged(b, bv), "right operand unchanged")
}

//verif:property C07
//verif:expect called
func VerifC07Add() { c07Bin(Add, (*big.Int).Add, verifBound(80, 127)) }

//verif:property C07
//verif:expect called
func VerifC07Sub() { c07Bin(Sub, (*big.Int).Sub, verifBound(80, 127)) }

//verif:property C07
//verif:expect called
func VerifC07IAdd() { c07Bin(IAdd, (*big.Int).Add, verifBound(80, 127)) }

//verif:property C07
//verif:expect called
func VerifC07ISub() { c07Bin(ISub, (*big.Int).Sub, verifBound(80, 127)) }
