package py

import "math/big"

// C07 — integer arithmetic is exact and independent of representation.
//
// Operands: each is, by symbolic choice, an Int (any int64), a *BigInt of
// |v| < 2^bits (including values that would fit a word: a non-normalised big
// is a legal operand) or a Bool. The oracle is exact integer arithmetic
// (math/big natively, exact SMT terms in the engine).

func c07Operand(name string, bits int, reps int) (Object, *big.Int) {
	switch verifChoice(name+"_rep", reps) {
	case 0:
		v := verifInt64(name)
		return Int(v), big.NewInt(v)
	case 1:
		b := verifBigInt(name, bits)
		return (*BigInt)(b), new(big.Int).Set(b)
	default:
		if verifBool(name) {
			return Bool(true), big.NewInt(1)
		}
		return Bool(false), big.NewInt(0)
	}
}

// c07Same: got is an integer object whose value equals want.
func c07Same(got Object, want *big.Int) bool {
	switch g := got.(type) {
	case Int:
		return big.NewInt(int64(g)).Cmp(want) == 0
	case *BigInt:
		return (*big.Int)(g).Cmp(want) == 0
	case Bool: // bool is an int in Python: True & True is True
		if g {
			return want.Cmp(big.NewInt(1)) == 0
		}
		return want.Sign() == 0
	}
	return false
}

func c07Unchanged(o Object, v *big.Int) bool {
	if b, ok := o.(*BigInt); ok {
		return (*big.Int)(b).Cmp(v) == 0
	}
	return true
}

func c07Bin(op func(a, b Object) (Object, error), ref func(z, x, y *big.Int) *big.Int, bits int) {
	a, av := c07Operand("a", bits, 3)
	b, bv := c07Operand("b", bits, 3)
	got, err := op(a, b)
	verifReach("called")
	verifAssert(err == nil, "no error")
	want := ref(new(big.Int), av, bv)
	verifAssert(c07Same(got, want), "exact result")
	verifAssert(c07Unchanged(a, av), "left operand unchanged")
	verifAssert(c07Unchanged(b, bv), "right operand unchanged")
}

//verif:property C07
//verif:expect called
func VerifC07Add() { c07Bin(Add, (*big.Int).Add, verifBound(80, 127)) }

//verif:property C07
//verif:expect called
func VerifC07Sub() { c07Bin(Sub, (*big.Int).Sub, verifBound(80, 127)) }

//verif:property C07
//verif:expect called
func VerifC07IAdd() { c07Bin(IAdd, (*big.Int).Add, verifBound(80, 127)) }

//verif:property C07
//verif:expect called
func VerifC07ISub() { c07Bin(ISub, (*big.Int).Sub, verifBound(80, 127)) }

// ---- multiplication and division: integer encoding (nonlinear arithmetic) ----

//verif:property C07
//verif:encoding int
//verif:expect called
func VerifC07Mul() { c07Bin(Mul, (*big.Int).Mul, verifBound(80, 127)) }

//verif:property C07
//verif:encoding int
//verif:expect called
func VerifC07IMul() { c07Bin(IMul, (*big.Int).Mul, verifBound(80, 127)) }

// c07DivModCheck: q, r are Python's floor quotient and remainder of a by b
// iff a == q*b + r and r has the sign of b with |r| < |b|.
func c07DivModCheck(q, r Object, av, bv *big.Int, checkQ, checkR bool) {
	var qv, rv *big.Int
	// recover both from whichever is present using the defining identity
	if checkQ {
		verifAssert(c07IsInt(q), "quotient is an integer object")
		qv = c07Val(q)
	}
	if checkR {
		verifAssert(c07IsInt(r), "remainder is an integer object")
		rv = c07Val(r)
	}
	if checkQ && checkR {
		t := new(big.Int).Mul(qv, bv)
		t.Add(t, rv)
		verifAssert(t.Cmp(av) == 0, "a == q*b + r")
	}
	if checkR {
		if bv.Sign() > 0 {
			verifAssert(rv.Sign() >= 0, "remainder non-negative for positive divisor")
			verifAssert(rv.Cmp(bv) < 0, "remainder below divisor")
		} else {
			verifAssert(rv.Sign() <= 0, "remainder non-positive for negative divisor")
			verifAssert(rv.Cmp(bv) > 0, "remainder above divisor")
		}
		if !checkQ {
			// r ≡ a (mod b): (a - r) divisible by b  — stated as existence of the floor quotient
			d := new(big.Int).Sub(av, rv)
			m := new(big.Int).Rem(d, bv)
			verifAssert(m.Sign() == 0, "a - r divisible by b")
		}
	}
	if checkQ && !checkR {
		// q = floor(a/b):  0 <= (a - q*b)/sign(b) < |b|
		t := new(big.Int).Mul(qv, bv)
		rem := new(big.Int).Sub(av, t)
		if bv.Sign() > 0 {
			verifAssert(rem.Sign() >= 0 && rem.Cmp(bv) < 0, "q is the floor quotient (b>0)")
		} else {
			verifAssert(rem.Sign() <= 0 && rem.Cmp(bv) > 0, "q is the floor quotient (b<0)")
		}
	}
}

func c07IsInt(o Object) bool {
	switch o.(type) {
	case Int, *BigInt:
		return true
	}
	return false
}

func c07Val(o Object) *big.Int {
	switch g := o.(type) {
	case Int:
		return big.NewInt(int64(g))
	case *BigInt:
		return new(big.Int).Set((*big.Int)(g))
	}
	return new(big.Int)
}

func c07Div(which int, bits int) {
	a, av := c07Operand("a", bits, 3)
	b, bv := c07Operand("b", bits, 3)
	var q, r Object
	var err error
	switch which {
	case 0:
		q, err = FloorDiv(a, b)
	case 1:
		r, err = Mod(a, b)
	case 2:
		q, r, err = DivMod(a, b)
	case 3:
		q, err = IFloorDiv(a, b)
	case 4:
		r, err = IMod(a, b)
	}
	verifReach("called")
	if bv.Sign() == 0 {
		verifAssert(err != nil, "zero divisor raises")
		if err != nil {
			verifAssert(c07ErrIs(err, ZeroDivisionError), "zero divisor raises ZeroDivisionError")
		}
		return
	}
	verifAssert(err == nil, "no error")
	c07DivModCheck(q, r, av, bv, q != nil, r != nil)
	verifAssert(c07Unchanged(a, av), "left operand unchanged")
	verifAssert(c07Unchanged(b, bv), "right operand unchanged")
}

func c07ErrIs(err error, t *Type) bool {
	switch e := err.(type) {
	case *Exception:
		return e.Base == t
	case ExceptionInfo:
		if ex, ok := e.Value.(*Exception); ok {
			return ex.Base == t
		}
	}
	return false
}

//verif:property C07
//verif:encoding int
//verif:expect called
func VerifC07FloorDiv() { c07Div(0, verifBound(64, 100)) }

//verif:property C07
//verif:encoding int
//verif:expect called
func VerifC07Mod() { c07Div(1, verifBound(64, 100)) }

//verif:property C07
//verif:encoding int
//verif:expect called
func VerifC07DivMod() { c07Div(2, verifBound(64, 100)) }

//verif:property C07
//verif:encoding int
//verif:expect called
func VerifC07IFloorDiv() { c07Div(3, verifBound(64, 100)) }

//verif:property C07
//verif:encoding int
//verif:expect called
func VerifC07IMod() { c07Div(4, verifBound(64, 100)) }

// ---- bit operations and shifts: bit-vector encoding ----

//verif:property C07
//verif:expect called
func VerifC07And() { c07Bin(And, (*big.Int).And, verifBound(80, 127)) }

//verif:property C07
//verif:expect called
func VerifC07Or() { c07Bin(Or, (*big.Int).Or, verifBound(80, 127)) }

//verif:property C07
//verif:expect called
func VerifC07Xor() { c07Bin(Xor, (*big.Int).Xor, verifBound(80, 127)) }

func c07Shift(left bool, inplace bool, bits int) {
	a, av := c07Operand("a", bits, 3)
	b, bv := c07Operand("b", 70, 3)
	// shift counts above 64 make results of unbounded size: outside the bound
	verifAssume(bv.Cmp(big.NewInt(64)) <= 0)
	var got Object
	var err error
	switch {
	case left && !inplace:
		got, err = Lshift(a, b)
	case left && inplace:
		got, err = ILshift(a, b)
	case !left && !inplace:
		got, err = Rshift(a, b)
	default:
		got, err = IRshift(a, b)
	}
	verifReach("called")
	if bv.Sign() < 0 {
		verifAssert(err != nil, "negative shift count raises")
		if err != nil {
			verifAssert(c07ErrIs(err, ValueError), "negative shift count raises ValueError")
		}
		return
	}
	verifAssert(err == nil, "no error")
	n := uint(bv.Int64())
	var want *big.Int
	if left {
		want = new(big.Int).Lsh(av, n)
	} else {
		want = new(big.Int).Rsh(av, n)
	}
	verifAssert(c07Same(got, want), "exact result")
	verifAssert(c07Unchanged(a, av), "left operand unchanged")
}

//verif:property C07
//verif:bigw 256
//verif:expect called
func VerifC07Lshift() { c07Shift(true, false, verifBound(80, 127)) }

//verif:property C07
//verif:bigw 256
//verif:expect called
func VerifC07ILshift() { c07Shift(true, true, verifBound(80, 127)) }

//verif:property C07
//verif:bigw 256
//verif:expect called
func VerifC07Rshift() { c07Shift(false, false, verifBound(80, 127)) }

//verif:property C07
//verif:bigw 256
//verif:expect called
func VerifC07IRshift() { c07Shift(false, true, verifBound(80, 127)) }

// ---- unary ----

func c07Un(op func(a Object) (Object, error), ref func(z, x *big.Int) *big.Int, bits int) {
	a, av := c07Operand("a", bits, 3)
	got, err := op(a)
	verifReach("called")
	verifAssert(err == nil, "no error")
	want := ref(new(big.Int), av)
	verifAssert(c07Same(got, want), "exact result")
	verifAssert(c07Unchanged(a, av), "operand unchanged")
}

//verif:property C07
//verif:expect called
func VerifC07Neg() { c07Un(Neg, (*big.Int).Neg, verifBound(80, 127)) }

//verif:property C07
//verif:expect called
func VerifC07Pos() { c07Un(Pos, (*big.Int).Set, verifBound(80, 127)) }

//verif:property C07
//verif:expect called
func VerifC07Abs() { c07Un(Abs, (*big.Int).Abs, verifBound(80, 127)) }

//verif:property C07
//verif:expect called
func VerifC07Invert() { c07Un(Invert, (*big.Int).Not, verifBound(80, 127)) }

// ---- comparisons and truth ----

func c07Cmp(op func(a, b Object) (Object, error), want func(c int) bool, bits int) {
	a, av := c07Operand("a", bits, 3)
	b, bv := c07Operand("b", bits, 3)
	got, err := op(a, b)
	verifReach("called")
	verifAssert(err == nil, "no error")
	g, ok := got.(Bool)
	verifAssert(ok, "comparison returns a bool")
	verifAssert(bool(g) == want(av.Cmp(bv)), "exact comparison")
}

//verif:property C07
//verif:expect called
func VerifC07Lt() { c07Cmp(Lt, func(c int) bool { return c < 0 }, verifBound(80, 127)) }

//verif:property C07
//verif:expect called
func VerifC07Le() { c07Cmp(Le, func(c int) bool { return c <= 0 }, verifBound(80, 127)) }

//verif:property C07
//verif:expect called
func VerifC07Gt() { c07Cmp(Gt, func(c int) bool { return c > 0 }, verifBound(80, 127)) }

//verif:property C07
//verif:expect called
func VerifC07Ge() { c07Cmp(Ge, func(c int) bool { return c >= 0 }, verifBound(80, 127)) }

//verif:property C07
//verif:expect called
func VerifC07Eq() { c07Cmp(Eq, func(c int) bool { return c == 0 }, verifBound(80, 127)) }

//verif:property C07
//verif:expect called
func VerifC07Ne() { c07Cmp(Ne, func(c int) bool { return c != 0 }, verifBound(80, 127)) }

//verif:property C07
//verif:expect called
func VerifC07Truth() {
	a, av := c07Operand("a", verifBound(80, 127), 3)
	got, err := MakeBool(a)
	verifReach("called")
	verifAssert(err == nil, "no error")
	g, ok := got.(Bool)
	verifAssert(ok, "truth value is a bool")
	verifAssert(bool(g) == (av.Sign() != 0), "truth value is value != 0")
}

// ---- power: a ** e and pow(a, e, m) ----
//
// The exponent is one of -1, 0, 1, 2, 3 (as a word or as an arbitrary-precision
// value; larger exponents are outside the model of big.Int.Exp), the base and
// the modulus are symbolic. Oracle: repeated exact multiplication, then
// Python's modulo (result carries the sign of the modulus; a zero modulus is a
// ValueError; a negative exponent with a modulus is a TypeError in 3.4).

func c07Pow(inplace, withMod bool, bits int) {
	a, av := c07Operand("a", bits, 3)
	ek := int64(verifChoice("e", 5)) - 1
	var e Object
	if verifChoice("e_rep", 2) == 0 {
		e = Int(ek)
	} else {
		e = (*BigInt)(big.NewInt(ek))
	}
	var m Object = None
	var mv *big.Int
	if withMod {
		m, mv = c07Operand("m", bits, 3)
	} else {
		verifAssume(ek >= 0) // a negative exponent gives a float: C15
	}
	var got Object
	var err error
	if inplace {
		got, err = IPow(a, e, m)
	} else {
		got, err = Pow(a, e, m)
	}
	verifReach("called")
	if withMod && ek < 0 {
		verifAssert(err != nil && c07ErrIs(err, TypeError), "negative exponent with a modulus raises TypeError")
		return
	}
	if withMod && mv.Sign() == 0 {
		verifAssert(err != nil && c07ErrIs(err, ValueError), "pow() with a zero modulus raises ValueError")
		return
	}
	verifAssert(err == nil, "no error")
	want := big.NewInt(1)
	for i := int64(0); i < ek; i++ {
		want = new(big.Int).Mul(want, av)
	}
	if withMod {
		am := new(big.Int).Abs(mv)
		r := new(big.Int).Mod(want, am) // Euclidean: 0 <= r < |m|
		if mv.Sign() < 0 && r.Sign() != 0 {
			r.Sub(r, am)
		}
		want = r
	}
	verifAssert(c07Same(got, want), "exact result")
	verifAssert(c07Unchanged(a, av), "base unchanged")
	if withMod {
		verifAssert(c07Unchanged(m, mv), "modulus unchanged")
	}
}

//verif:property C07
//verif:encoding int
//verif:expect called
func VerifC07Pow() { c07Pow(false, false, verifBound(64, 100)) }

//verif:property C07
//verif:encoding int
//verif:expect called
func VerifC07IPow() { c07Pow(true, false, verifBound(64, 100)) }

//verif:property C07
//verif:encoding int
//verif:expect called
func VerifC07PowMod() { c07Pow(false, true, verifBound(64, 100)) }
