package py

// C10 — containers whose elements run code while the container is being
// processed: an element's __lt__ / __eq__ (or the sort key function) mutates
// the very list that is being sorted, compared, searched or iterated. Any
// outcome is acceptable except a Go panic.

type c10Mut struct {
	id    int
	owner **List
	calls *int
}

var c10MutType = NewType("c10mut", "")

func (m *c10Mut) Type() *Type { return c10MutType }

// the k-th comparison (k symbolic by case split) mutates the owner list
func (m *c10Mut) touch() {
	*m.calls++
	l := *m.owner
	if l == nil || *m.calls != 1+verifChoice("mutate_at", 3) {
		return
	}
	switch verifChoice("mutation", 5) {
	case 0:
	case 1:
		if len(l.Items) > 0 {
			l.Items = l.Items[:len(l.Items)-1]
		}
	case 2:
		l.Items = nil
	case 3:
		l.Items = append(l.Items, Int(7))
	case 4:
		if len(l.Items) > 1 {
			_, _ = DelItem(l, NewSlice(None, None, Int(2)))
		}
	}
}

func (m *c10Mut) M__lt__(other Object) (Object, error) {
	m.touch()
	if o, ok := other.(*c10Mut); ok {
		return NewBool(m.id < o.id), nil
	}
	return NotImplemented, nil
}

func (m *c10Mut) M__gt__(other Object) (Object, error) {
	m.touch()
	if o, ok := other.(*c10Mut); ok {
		return NewBool(m.id > o.id), nil
	}
	return NotImplemented, nil
}

func (m *c10Mut) M__eq__(other Object) (Object, error) {
	m.touch()
	if o, ok := other.(*c10Mut); ok {
		return NewBool(m.id == o.id), nil
	}
	return NotImplemented, nil
}

func (m *c10Mut) M__ne__(other Object) (Object, error) {
	m.touch()
	if o, ok := other.(*c10Mut); ok {
		return NewBool(m.id != o.id), nil
	}
	return NotImplemented, nil
}

//verif:property C10
//verif:maxpaths 200000 2000000
//verif:runinit github.com/go-python/gpython/py.init@type.go:1 github.com/go-python/gpython/py.init@exception.go:1 github.com/go-python/gpython/py.init@list.go:1
//verif:expect called
func VerifC10MutatingElements() {
	n := 2 + verifChoice("n", verifBound(2, 3))
	var l *List
	calls := 0
	items := make([]Object, n)
	ids := []int{3, 1, 2, 0}
	for i := range items {
		items[i] = &c10Mut{id: ids[i], owner: &l, calls: &calls}
	}
	l = NewListFromItems(items)
	other := NewListFromItems(items)
	probe := &c10Mut{id: 9, owner: &l, calls: &calls}
	switch verifChoice("op", 9) {
	case 0:
		_, _ = c17CallMethod(l, "sort", nil, nil)
	case 1:
		_, _ = c17CallMethod(l, "sort", nil, StringDict{"reverse": True})
	case 2:
		key := MustNewMethod("key", func(self Object, args Tuple) (Object, error) {
			if len(args) == 1 {
				if m, ok := args[0].(*c10Mut); ok {
					m.touch()
					return Int(m.id), nil
				}
			}
			return Int(0), nil
		}, 0, "")
		_, _ = c17CallMethod(l, "sort", nil, StringDict{"key": key})
	case 3:
		_, _ = Eq(l, other)
	case 4:
		_, _ = Ne(other, l)
	case 5:
		_, _ = SequenceContains(l, probe)
	case 6:
		_ = Iterate(l, func(o Object) bool {
			if m, ok := o.(*c10Mut); ok {
				m.touch()
			}
			return false
		})
	case 7:
		_, _ = Lt(Tuple(l.Items), Tuple(other.Items))
	case 8:
		_, _ = Eq(Tuple(l.Items), Tuple(other.Items))
	}
	verifReach("called")
	verifAssert(true, "the operation came back (value or error) without a Go panic, for every value of the symbolic operands on this path")
}
