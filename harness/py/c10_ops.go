package py

import "math/big"

// C10 — no operator, subscript form, attribute access or call applied to
// arguments of any types and values panics: every failure comes back as an
// error value. The harnesses assert nothing themselves: the engine reports any
// reachable Go panic (failed type assertion, nil dereference, index/slice out
// of range, integer division by zero, negative shift, nil map write, hash of
// an unhashable type, ...) as the violation, with the operand kinds and the
// solver's values for the symbolic scalars as the counterexample.
//
// The argument universe: one value of every built-in kind, scalars symbolic
// (any int64, any float64 incl. nan/inf, big ints beyond the word range).

const c10NKinds = 24

// VerifC10Value builds one argument of the universe. Exported for the harnesses of other packages.
func VerifC10Value(name string) Object { return c10Value(name, c10NKinds, true) }

// VerifC10Compact: one representative per kind (scalars still symbolic).
func VerifC10Compact(name string) Object { return c10Value(name, c10NKinds, false) }

// c10Pair: two operands. Quick tier: both compact. Thorough tier: one of the
// two (either) ranges over all the variants of its kind.
func c10Pair() (Object, Object) {
	if verifBound(0, 1) == 0 {
		return VerifC10Compact("a"), VerifC10Compact("b")
	}
	if verifChoice("rich", 2) == 0 {
		return VerifC10Value("a"), VerifC10Compact("b")
	}
	return VerifC10Compact("a"), VerifC10Value("b")
}

func c10Pick(name string, n int, rich bool, dflt int) int {
	if !rich {
		return dflt
	}
	return verifChoice(name, n)
}

func c10Value(name string, kinds int, rich bool) Object {
	switch verifChoice(name+"_kind", kinds) {
	case 0:
		return Int(verifInt64(name + "_i"))
	case 1:
		return None
	case 2:
		return NewBool(verifBool(name + "_b"))
	case 3:
		return Float(verifFloat64(name + "_f"))
	case 4:
		return String(c10Strings[c10Pick(name+"_s", len(c10Strings), rich, 3)])
	case 5:
		switch c10Pick(name+"_t", 4, rich, 1) {
		case 0:
			return Tuple{}
		case 1:
			return Tuple{Int(verifInt64(name + "_t0"))}
		case 3:
			return Tuple{Tuple{Int(1)}, Bytes("x"), NewList()}
		}
		return Tuple{Int(1), String("a"), None}
	case 6:
		switch c10Pick(name+"_l", 3, rich, 1) {
		case 0:
			return NewList()
		case 1:
			return NewListFromItems([]Object{Int(verifInt64(name + "_l0"))})
		}
		return NewListFromItems([]Object{Int(3), Int(1), Int(2)})
	case 7:
		if c10Pick(name+"_d", 2, rich, 1) == 0 {
			return StringDict{}
		}
		return StringDict{"a": Int(1), "b": String("x")}
	case 8:
		// compact: fixed big ints (2**64, -(2**64)-1, 2**100); all variants: any 80-bit value
		if !rich {
			b := NewBigIntShift([]uint{64, 64, 100}[verifChoice(name+"_bigc", 3)]).(*BigInt)
			if verifChoiceOf(name+"_bigc") == 1 {
				v := new(big.Int).Neg((*big.Int)(b))
				b = (*BigInt)(v.Sub(v, big.NewInt(1)))
			}
			return b
		}
		return (*BigInt)(verifBigInt(name+"_big", 80))
	case 9:
		return Bytes(c10Strings[c10Pick(name+"_y", len(c10Strings), rich, 3)])
	case 10:
		if c10Pick(name+"_set", 2, rich, 1) == 0 {
			return NewSet()
		}
		return NewSetFromItems([]Object{Int(1), String("a")})
	case 11:
		// (a symbolic divisor stalls the bit-vector back ends: the step is a case split)
		r0, r1, r2 := verifInt64(name+"_r0"), verifInt64(name+"_r1"), []int64{1, 2, -1, -3}[verifChoice(name+"_r2", 4)]
		// word-sized range arithmetic wraps near +-2**63 (iteration then never ends): outside this harness
		const lim = 1 << 40
		verifAssume(-lim <= r0 && r0 <= lim && -lim <= r1 && r1 <= lim && -lim <= r2 && r2 <= lim)
		r, err := RangeNew(RangeType, Tuple{Int(r0), Int(r1), Int(r2)}, nil)
		if err != nil {
			return &Range{Start: 0, Stop: 3, Step: 1, Length: 3}
		}
		// consumers iterate over it: keep the symbolic range short
		verifAssume(r.(*Range).Length <= 3)
		return r
	case 12:
		var parts [3]Object
		for i := range parts {
			switch c10Pick(name+"_sl"+string(rune('0'+i)), 3, rich, 1) {
			case 0:
				parts[i] = None
			case 1:
				parts[i] = Int(verifInt64(name + "_sv" + string(rune('0'+i))))
			case 2:
				parts[i] = String("x")
			}
		}
		return NewSlice(parts[0], parts[1], parts[2])
	case 13:
		return c10Types[c10Pick(name+"_ty", len(c10Types), rich, 0)]
	case 14:
		return Complex(complex(verifFloat64(name+"_re"), verifFloat64(name+"_im")))
	case 15:
		return NotImplemented
	case 16:
		return Ellipsis
	case 17:
		return NewIterator(Tuple{Int(1), Int(2)})
	case 18:
		return NewFrozenSetFromItems([]Object{Int(1)})
	case 19:
		return ExceptionNewf(ValueError, "boom")
	case 20:
		return MustNewMethod("f", func(self Object, args Tuple) (Object, error) { return None, nil }, 0, "")
	case 21:
		return ValueError // an exception class
	case 22:
		m := &Module{Globals: StringDict{"x": Int(1)}}
		return m
	case 23:
		// a sequence of would-be (key, value) pairs of every arity
		items := [][]Object{{Tuple{}}, {Tuple{String("a")}}, {Tuple{String("a"), Int(1)}}, {Tuple{Int(1), Int(2)}}, {Tuple{String("a"), Int(1), Int(2)}}, {NewList()}}[verifChoice(name+"_pairs", 6)]
		if c10Pick(name+"_pairs_tuple", 2, rich, 0) == 1 {
			return Tuple(items)
		}
		return NewListFromItems(items)
	}
	return None
}

var c10Strings = []string{"", "a", "12", "ab c", "-0x1f", "%d %s", "{}", "é"}
var c10Types = []*Type{IntType, StringType, ListType, TupleType, StringDictType, FloatType, BoolType, TypeType, ObjectType, RangeType, SliceType, BytesType, SetType}

var c10Unary = []func(Object) (Object, error){
	Neg, Pos, Abs, Invert, MakeComplex, MakeInt, MakeFloat, MakeBool, Not, Len, Iter,
	func(a Object) (Object, error) { return Index(a) },
	func(a Object) (Object, error) { _, err := IndexInt(a); return nil, err },
	func(a Object) (Object, error) { _, err := MakeGoInt(a); return nil, err },
	func(a Object) (Object, error) { _, err := MakeGoInt64(a); return nil, err },
	func(a Object) (Object, error) { t, err := SequenceTuple(a); return t, err },
	func(a Object) (Object, error) { return SequenceList(a) },
	func(a Object) (Object, error) { return SequenceSet(a) },
	func(a Object) (Object, error) { return Next(a) },
	func(a Object) (Object, error) { return Call(a, nil, nil) },
	func(a Object) (Object, error) { _, err := AttributeName(a); return nil, err },
}

//verif:property C10
//verif:timeout 600 3600
//verif:maxpaths 400000 4000000
//verif:runinit github.com/go-python/gpython/py.init@type.go:1 github.com/go-python/gpython/py.init@exception.go:1
//verif:havoc math.Pow math.Mod math/cmplx.Pow math.Exp math.Log math.Sincos math.Sin math.Cos math.Atan2 strconv.FormatFloat strconv.AppendFloat strconv.ParseFloat
//verif:expect called
func VerifC10Unary() {
	a := VerifC10Value("a")
	op := verifChoice("op", len(c10Unary))
	_, _ = c10Unary[op](a)
	verifReach("called")
	verifAssert(true, "the operation came back (value or error) without a Go panic, for every value of the symbolic operands on this path")
}

var c10Binary = []func(a, b Object) (Object, error){
	Add, Sub, Mul, TrueDiv, FloorDiv, Mod, Lshift, Rshift, And, Xor, Or,
	IAdd, ISub, IMul, ITrueDiv, IFloorDiv, IMod, ILshift, IRshift, IAnd, IXor, IOr,
	Gt, Ge, Lt, Le, Eq, Ne,
	func(a, b Object) (Object, error) { q, _, err := DivMod(a, b); return q, err },
	GetItem, DelItem, GetAttr,
	func(a, b Object) (Object, error) { return Pow(a, b, None) },
	func(a, b Object) (Object, error) { return IPow(a, b, None) },
	func(a, b Object) (Object, error) { ok, err := SequenceContains(a, b); return NewBool(ok), err },
	func(a, b Object) (Object, error) { return nil, DeleteAttr(a, b) },
	func(a, b Object) (Object, error) { return Call(a, Tuple{b}, nil) },
	func(a, b Object) (Object, error) { return Send(a, b) },
}

//verif:property C10
//verif:timeout 600 3600
//verif:maxpaths 600000 6000000
//verif:runinit github.com/go-python/gpython/py.init@type.go:1 github.com/go-python/gpython/py.init@exception.go:1
//verif:havoc math.Pow math.Mod math/cmplx.Pow math.Exp math.Log math.Sincos math.Sin math.Cos math.Atan2 strconv.FormatFloat strconv.AppendFloat strconv.ParseFloat
//verif:expect called
func VerifC10Binary() {
	a, b := c10Pair()
	op := verifChoice("op", len(c10Binary))
	if c10IsInt(a) && c10IsInt(b) && c10Arith(op) {
		return // VerifC10IntArith
	}
	if _, af := a.(Float); af || func() bool { _, bf := b.(Float); return bf }() {
		if op == 5 || op == 16 || op == 28 {
			return // float %, %= and divmod: VerifC15FloatMod decides them (a Go panic there is a violation too)
		}
	}
	_, _ = c10Binary[op](a, b)
	verifReach("called")
	verifAssert(true, "the operation came back (value or error) without a Go panic, for every value of the symbolic operands on this path")
}

var c10EdgeInts = []Object{Int(0), Int(1), Int(-1), Int(2), Int(63), Int(64), Int(-64), Int(1 << 62), Int(-1 << 63), Int(1<<63 - 1), NewBigIntShift(64), NewBigIntShift(100)}

// int (x) int arithmetic with both operands symbolic is non-linear, and is what the
// C07 harnesses decide exactly (a panic there is a violation too). Here one operand
// is symbolic (any int64, bool or 80-bit big int) and the other ranges over the edge
// values where Go-level panics live; integer encoding, so that multiplying and
// dividing by a constant stays linear.
//
//verif:property C10
//verif:timeout 600 3600
//verif:encoding int
//verif:maxpaths 100000 1000000
//verif:runinit github.com/go-python/gpython/py.init@type.go:1 github.com/go-python/gpython/py.init@exception.go:1
//verif:havoc math.Pow math.Mod strconv.FormatFloat strconv.AppendFloat strconv.ParseFloat
//verif:expect called
func VerifC10IntArith() {
	var sym Object
	switch verifChoice("sym_kind", 3) {
	case 0:
		sym = Int(verifInt64("i"))
	case 1:
		sym = NewBool(verifBool("b"))
	case 2:
		sym = (*BigInt)(verifBigInt("big", 80))
	}
	edge := c10EdgeInts[verifChoice("edge", len(c10EdgeInts))]
	ops := []int{2, 3, 4, 5, 13, 14, 15, 16, 28, 32, 33}
	op := ops[verifChoice("op", len(ops))]
	if verifChoice("edge_left", 2) == 1 {
		_, _ = c10Binary[op](edge, sym)
	} else {
		_, _ = c10Binary[op](sym, edge)
	}
	verifReach("called")
	verifAssert(true, "the operation came back (value or error) without a Go panic, for every value of the symbolic operands on this path")
}

func c10IsInt(o Object) bool {
	switch o.(type) {
	case Int, *BigInt, Bool:
		return true
	}
	return false
}

// Mul FloorDiv Mod, IMul IFloorDiv IMod, DivMod, Pow IPow (Lshift of a symbolic count is cheap)
func c10Arith(op int) bool {
	switch op {
	case 2, 3, 4, 5, 13, 14, 15, 16, 28, 32, 33:
		return true
	}
	return false
}

var c10Ternary = []func(a, b, c Object) (Object, error){
	Pow, IPow, SetItem, SetAttr,
	func(a, b, c Object) (Object, error) { return Call(a, Tuple{b, c}, nil) },
	func(a, b, c Object) (Object, error) { return GetItem(a, NewSlice(b, c, None)) },
	func(a, b, c Object) (Object, error) { return DelItem(a, NewSlice(b, None, c)) },
}

// three operands: the third ranges over the scalar kinds only in the quick tier
//
//verif:property C10
//verif:timeout 600 3600
//verif:maxpaths 600000 8000000
//verif:runinit github.com/go-python/gpython/py.init@type.go:1 github.com/go-python/gpython/py.init@exception.go:1
//verif:havoc math.Pow math.Mod math/cmplx.Pow math.Exp math.Log math.Sincos math.Sin math.Cos math.Atan2 strconv.FormatFloat strconv.AppendFloat strconv.ParseFloat
//verif:expect called
func VerifC10Ternary() {
	a, b := c10Pair()
	c := c10Value("c", verifBound(5, c10NKinds), false)
	op := verifChoice("op", len(c10Ternary))
	if op < 2 && (c == None || (c10IsInt(a) && c10IsInt(b) && c10IsInt(c))) {
		return // VerifC10IntPow; two-operand pow is in VerifC10Binary
	}
	_, _ = c10Ternary[op](a, b, c)
	verifReach("called")
	verifAssert(true, "the operation came back (value or error) without a Go panic, for every value of the symbolic operands on this path")
}

// pow(a, b, m) over integers: one operand symbolic, the others over the edge values
//
//verif:property C10
//verif:timeout 600 3600
//verif:encoding int
//verif:maxpaths 100000 1000000
//verif:runinit github.com/go-python/gpython/py.init@type.go:1 github.com/go-python/gpython/py.init@exception.go:1
//verif:expect called
func VerifC10IntPow() {
	var sym Object
	switch verifChoice("sym_kind", 3) {
	case 0:
		sym = Int(verifInt64("i"))
	case 1:
		sym = NewBool(verifBool("b"))
	case 2:
		sym = (*BigInt)(verifBigInt("big", 80))
	}
	small := []Object{Int(0), Int(1), Int(-1), Int(2), Int(3), Int(-1 << 63), Int(1<<63 - 1), NewBigIntShift(64)}
	e1 := small[verifChoice("e1", len(small))]
	e2 := small[verifChoice("e2", len(small))]
	switch verifChoice("pos", 3) {
	case 0:
		_, _ = Pow(sym, e1, e2)
	case 1:
		_, _ = Pow(e1, sym, e2)
	case 2:
		_, _ = Pow(e1, e2, sym)
	}
	verifReach("called")
	verifAssert(true, "the operation came back (value or error) without a Go panic, for every value of the symbolic operands on this path")
}

// int(text, base) and int(bytes, base): any base, texts on both sides of the
// lengths at which the conversion switches from strconv to math/big
//
//verif:property C10
//verif:timeout 600 3600
//verif:maxpaths 100000 1000000
//verif:runinit github.com/go-python/gpython/py.init@type.go:1 github.com/go-python/gpython/py.init@exception.go:1
//verif:expect called
func VerifC10IntText() {
	texts := []string{"1", "111111111111", "1111111111111", "111111111111111111", "1111111111111111111", "0000000000000000000000", " -0x1f ", "zzzzzzzzzzzzzzzzzzzzz", "+", "0b", ""}
	t := texts[verifChoice("text", len(texts))]
	var arg Object = String(t)
	if verifChoice("bytes", 2) == 1 {
		arg = Bytes(t)
	}
	var base Object
	switch verifChoice("base_kind", 3) {
	case 0:
		base = Int(verifInt64("base"))
	case 1:
		base = NewBool(verifBool("base_b"))
	case 2:
		base = (*BigInt)(verifBigInt("base_big", 80))
	}
	if verifChoice("kw", 2) == 1 {
		_, _ = Call(IntType, Tuple{arg}, StringDict{"base": base})
	} else {
		_, _ = Call(IntType, Tuple{arg, base}, nil)
	}
	verifReach("called")
	verifAssert(true, "the operation came back (value or error) without a Go panic, for every value of the symbolic operands on this path")
}

// VerifC10Scalar: the scalar kinds only (int, None, bool, float, str).
func VerifC10Scalar(name string) Object { return c10Value(name, 5, false) }

func VerifC10IsInt(o Object) bool { return c10IsInt(o) }
