package py

import "strconv"

// C16 — attribute lookup: instance first, then the C3 linearisation of the
// class; functions bind the instance, classmethods the class, staticmethods
// nothing; writes and deletes touch only their target; hierarchies without a
// consistent linearisation are rejected.
//
// Class DAGs are built directly as *Type objects with a symbolic choice of
// ordered base lists; the linearisation is computed by the real
// mro_implementation / pmerge and compared with an independent C3.

// ---- independent C3 (from the definition: L[C] = C + merge(L[B1]..L[Bn], [B1..Bn])) ----

func c16Merge(seqs [][]int) ([]int, bool) {
	var out []int
	for {
		empty := true
		for _, s := range seqs {
			if len(s) > 0 {
				empty = false
			}
		}
		if empty {
			return out, true
		}
		cand := -1
		for _, s := range seqs {
			if len(s) == 0 {
				continue
			}
			h := s[0]
			inTail := false
			for _, t := range seqs {
				for k := 1; k < len(t); k++ {
					if t[k] == h {
						inTail = true
					}
				}
			}
			if !inTail {
				cand = h
				break
			}
		}
		if cand < 0 {
			return nil, false
		}
		out = append(out, cand)
		for i, s := range seqs {
			if len(s) > 0 && s[0] == cand {
				seqs[i] = s[1:]
			}
		}
	}
}

type c16Class struct {
	t     *Type
	bases []int
	lin   []int // reference linearisation (indices)
	ok    bool
}

// c16Build makes n classes above a root "object" (index 0); class i picks an ordered list of
// 1..3 distinct bases among classes 0..i-1 symbolically.
func c16Build(n int) ([]*c16Class, bool) {
	root := &Type{Name: "object0", Dict: StringDict{}, ObjectType: TypeType}
	root.Mro = Tuple{root}
	cs := []*c16Class{{t: root, lin: []int{0}, ok: true}}
	for i := 1; i <= n; i++ {
		maxb := i
		if maxb > 3 {
			maxb = 3
		}
		nb := 1 + verifChoice("nb"+strconv.Itoa(i), maxb)
		avail := make([]int, i)
		for k := range avail {
			avail[k] = k
		}
		var bases []int
		for b := 0; b < nb; b++ {
			p := verifChoice("b"+strconv.Itoa(i)+"_"+strconv.Itoa(b), len(avail))
			bases = append(bases, avail[p])
			avail = append(append([]int{}, avail[:p]...), avail[p+1:]...)
		}
		t := &Type{Name: "C" + strconv.Itoa(i), Dict: StringDict{}, ObjectType: TypeType, Flags: TPFLAGS_HEAPTYPE} // as classes defined in Python are
		for _, b := range bases {
			t.Bases = append(t.Bases, cs[b].t)
		}
		c := &c16Class{t: t, bases: bases}
		// reference
		var seqs [][]int
		for _, b := range bases {
			seqs = append(seqs, append([]int{}, cs[b].lin...))
		}
		seqs = append(seqs, append([]int{}, bases...))
		m, ok := c16Merge(seqs)
		c.ok = ok
		if ok {
			c.lin = append([]int{i}, m...)
		}
		// the real thing
		res, err := t.mro_implementation()
		if !ok {
			verifAssert(err != nil && c07ErrIs(err, TypeError), "a hierarchy without a consistent linearisation is rejected with TypeError")
			return cs, false
		}
		verifAssert(err == nil, "a consistent hierarchy is accepted")
		l := res.(*List)
		verifAssert(len(l.Items) == len(c.lin), "length of the linearisation")
		for k, idx := range c.lin {
			verifAssert(l.Items[k] == Object(cs2t(cs, c, idx)), "the C3 linearisation")
		}
		t.Mro = Tuple(l.Items)
		cs = append(cs, c)
	}
	return cs, true
}

func cs2t(cs []*c16Class, self *c16Class, idx int) *Type {
	if idx == len(cs) {
		return self.t
	}
	return cs[idx].t
}

//verif:property C16
//verif:expect built
//verif:maxpaths 40000 400000
//verif:timeout 300 1500
func VerifC16Linearisation() {
	_, _ = c16Build(verifBound(4, 5))
	verifReach("built")
}

// ---- lookup order and binding ----

type c16Inst struct {
	t    *Type
	dict StringDict
}

func (o *c16Inst) Type() *Type         { return o.t }
func (o *c16Inst) GetDict() StringDict { return o.dict }

//verif:property C16
//verif:expect looked
//verif:maxpaths 40000 400000
func VerifC16Lookup() {
	cs, ok := c16Build(3)
	if !ok {
		return
	}
	for _, t := range []*Type{BaseException, ExceptionType, AttributeError} {
		_ = t.Ready()
	}
	cls := cs[len(cs)-1]
	// where is "x" defined?
	for i, c := range cs {
		if verifChoice("has"+strconv.Itoa(i), 2) == 1 {
			c.t.Dict["x"] = Int(100 + i)
		}
	}
	inst := &c16Inst{t: cls.t, dict: StringDict{}}
	instHas := verifChoice("inst_has", 2) == 1
	if instHas {
		inst.dict["x"] = Int(999)
	}
	got, err := GetAttrString(inst, "x")
	verifReach("looked")
	want := Object(nil)
	if instHas {
		want = Int(999)
	} else {
		for _, idx := range cls.lin {
			if v, has := cs[idx].t.Dict["x"]; has {
				want = v
				break
			}
		}
	}
	if want == nil {
		verifAssert(err != nil && IsException(AttributeError, err), "a missing attribute raises AttributeError")
	} else {
		verifAssert(err == nil && got == want, "the instance's own attribute first, otherwise the first definition along the MRO")
	}
	// isinstance / issubclass follow inheritance: every class of the linearisation is an ancestor
	for i, c := range cs {
		in := false
		for _, idx := range cls.lin {
			if idx == i {
				in = true
			}
		}
		verifAssert(cls.t.IsSubtype(c.t) == in, "subtype relation follows the linearisation")
	}
	// writes affect only their target
	before := map[int]Object{}
	for i, c := range cs {
		before[i] = c.t.Dict["x"]
	}
	_, err = SetAttrString(inst, "x", Int(555))
	verifAssert(err == nil, "setting an instance attribute works")
	for i, c := range cs {
		verifAssert(c.t.Dict["x"] == before[i], "a write through the instance leaves the classes alone")
	}
	got, err = GetAttrString(inst, "x")
	verifAssert(err == nil && got == Object(Int(555)), "the instance attribute now shadows the class attribute")
	err = DeleteAttrString(inst, "x")
	verifAssert(err == nil, "deleting the instance attribute works")
	got, err = GetAttrString(inst, "x")
	if !instHas {
		// back to the class attribute (or missing)
	}
	want2 := Object(nil)
	for _, idx := range cls.lin {
		if v, has := cs[idx].t.Dict["x"]; has {
			want2 = v
			break
		}
	}
	if want2 == nil {
		verifAssert(err != nil, "after deletion the attribute is gone")
	} else {
		verifAssert(err == nil && got == want2, "after deletion the class attribute shows again")
	}
}

//verif:property C16
//verif:expect bound
func VerifC16Binding() {
	base := &Type{Name: "B", Dict: StringDict{}, ObjectType: TypeType}
	base.Mro = Tuple{base}
	cls := &Type{Name: "D", Dict: StringDict{}, Bases: Tuple{base}, ObjectType: TypeType}
	cls.Mro = Tuple{cls, base}
	fn := &Function{Name: "f"}
	holder := cls
	if verifChoice("in_base", 2) == 1 {
		holder = base
	}
	kind := verifChoice("kind", 4)
	switch kind {
	case 0:
		holder.Dict["m"] = fn
	case 1:
		holder.Dict["m"] = &ClassMethod{Callable: fn, Dict: StringDict{}}
	case 2:
		holder.Dict["m"] = &StaticMethod{Callable: fn, Dict: StringDict{}}
	default:
		holder.Dict["m"] = Int(7)
	}
	inst := &c16Inst{t: cls, dict: StringDict{}}
	if verifChoice("through", 2) == 1 {
		// read through the class object itself (D.m): a function stays a plain
		// function, a classmethod binds the class it was read through, a
		// staticmethod binds nothing
		got, err := GetAttrString(cls, "m")
		verifReach("bound")
		verifAssert(err == nil, "found through the class")
		switch kind {
		case 0:
			verifAssert(got == Object(fn), "a plain function read through the class is the function itself")
		case 1:
			bm, ok := got.(*BoundMethod)
			verifAssert(ok && bm.Self == Object(cls) && bm.Method == Object(fn), "a classmethod read through the class binds that class")
		case 2:
			verifAssert(got == Object(fn), "a staticmethod read through the class binds nothing")
		default:
			verifAssert(got == Object(Int(7)), "a plain value is returned as is")
		}
		return
	}
	got, err := GetAttrString(inst, "m")
	verifReach("bound")
	verifAssert(err == nil, "found")
	switch kind {
	case 0:
		bm, ok := got.(*BoundMethod)
		verifAssert(ok && bm.Self == Object(inst) && bm.Method == Object(fn), "a plain function found on the class binds the instance")
	case 1:
		bm, ok := got.(*BoundMethod)
		verifAssert(ok && bm.Self == Object(cls) && bm.Method == Object(fn), "a classmethod binds the class of the instance")
	case 2:
		verifAssert(got == Object(fn), "a staticmethod binds nothing")
	default:
		verifAssert(got == Object(Int(7)), "a plain value is returned as is")
	}
	// the same attribute read again through another class of the hierarchy and its instance:
	// each read binds what it was made through (no binding is remembered from an earlier read)
	sib := &Type{Name: "E", Dict: StringDict{}, Bases: Tuple{base}, ObjectType: TypeType}
	sib.Mro = Tuple{sib, base}
	if holder != base {
		return
	}
	inst2 := &c16Inst{t: sib, dict: StringDict{}}
	got2, err := GetAttrString(inst2, "m")
	verifAssert(err == nil, "found through the instance of a sibling class")
	got3, err := GetAttrString(sib, "m")
	verifAssert(err == nil, "found through the sibling class")
	switch kind {
	case 0:
		bm, ok := got2.(*BoundMethod)
		verifAssert(ok && bm.Self == Object(inst2) && bm.Method == Object(fn), "a plain function binds the instance it was read through")
		verifAssert(got3 == Object(fn), "a plain function read through the class is the function itself")
	case 1:
		bm, ok := got2.(*BoundMethod)
		verifAssert(ok && bm.Self == Object(sib) && bm.Method == Object(fn), "an inherited classmethod binds the class of the instance it was read through")
		bm3, ok := got3.(*BoundMethod)
		verifAssert(ok && bm3.Self == Object(sib) && bm3.Method == Object(fn), "an inherited classmethod binds the class it was read through")
	case 2:
		verifAssert(got2 == Object(fn) && got3 == Object(fn), "a staticmethod binds nothing")
	}
	// and the first class again
	got4, err := GetAttrString(inst, "m")
	verifAssert(err == nil, "found again")
	if kind == 1 {
		bm, ok := got4.(*BoundMethod)
		verifAssert(ok && bm.Self == Object(cls), "reading through the first class again binds the first class")
	}
}

//verif:property C16
//verif:expect built
//verif:maxpaths 40000 400000
func VerifC16Subtype() {
	cs, ok := c16Build(verifBound(4, 5))
	verifReach("built")
	if !ok {
		return
	}
	for j, d := range cs {
		for i, c := range cs {
			in := false
			for _, idx := range d.lin {
				if idx == i {
					in = true
				}
			}
			verifAssert(d.t.IsSubtype(c.t) == in, "isinstance / issubclass follow inheritance: a class is a subtype of exactly the classes in its linearisation")
		}
		_ = j
	}
}

// class attributes are shared until shadowed: a later rebinding or deletion on any class
// of the hierarchy is seen by the next read through the instance
//
//verif:property C16
//verif:runinit github.com/go-python/gpython/py.init@type.go:1
//verif:expect looked
//verif:maxpaths 40000 400000
func VerifC16RebindAfterRead() {
	cs, ok := c16Build(3)
	if !ok {
		return
	}
	for _, t := range []*Type{BaseException, ExceptionType, AttributeError} {
		_ = t.Ready()
	}
	cls := cs[len(cs)-1]
	for i, c := range cs {
		if verifChoice("has"+strconv.Itoa(i), 2) == 1 {
			c.t.Dict["x"] = Int(100 + i)
		}
	}
	inst := &c16Inst{t: cls.t, dict: StringDict{}}
	_, _ = GetAttrString(inst, "x") // a first read (may fill any lookup cache)
	k := verifChoice("target", len(cs))
	if verifChoice("delete", 2) == 1 {
		if _, has := cs[k].t.Dict["x"]; !has {
			return
		}
		err := DeleteAttrString(cs[k].t, "x")
		verifAssert(err == nil, "deleting a class attribute works")
	} else {
		_, err := SetAttrString(cs[k].t, "x", Int(777))
		verifAssert(err == nil, "setting a class attribute works")
	}
	verifReach("looked")
	got, err := GetAttrString(inst, "x")
	want := Object(nil)
	for _, idx := range cls.lin {
		if v, has := cs[idx].t.Dict["x"]; has {
			want = v
			break
		}
	}
	if want == nil {
		verifAssert(err != nil && IsException(AttributeError, err), "a deleted attribute is gone for the instances of subclasses too")
	} else {
		verifAssert(err == nil && got == want, "a read after a class attribute changed sees the change")
	}
}

// an attribute read on a class (not an instance) also follows that class's linearisation
//
//verif:property C16
//verif:runinit github.com/go-python/gpython/py.init@type.go:1
//verif:expect looked
//verif:maxpaths 40000 400000
func VerifC16ClassRead() {
	cs, ok := c16Build(3)
	if !ok {
		return
	}
	for _, t := range []*Type{BaseException, ExceptionType, AttributeError} {
		_ = t.Ready()
	}
	cls := cs[len(cs)-1]
	for i, c := range cs {
		if verifChoice("has"+strconv.Itoa(i), 2) == 1 {
			c.t.Dict["x"] = Int(100 + i)
		}
	}
	got, err := GetAttrString(cls.t, "x")
	verifReach("looked")
	want := Object(nil)
	for _, idx := range cls.lin {
		if v, has := cs[idx].t.Dict["x"]; has {
			want = v
			break
		}
	}
	if want == nil {
		verifAssert(err != nil && IsException(AttributeError, err), "a missing class attribute raises AttributeError")
	} else {
		verifAssert(err == nil && got == want, "a class attribute read finds the first definition along the class's own MRO")
	}
}
