package py

import "math/big"

// C13 — range: length, indexing, slicing, iteration, equality against a
// reference list built from first principles. start/stop/step are symbolic
// within a stated small window (the kernels divide and multiply; the window is
// the bound of the claim); indices and slice bounds are arbitrary int64.

func c13RangeParam(name string, lim int64, nonzero bool) int64 {
	v := verifInt64(name)
	verifAssume(v >= -lim && v <= lim)
	if nonzero {
		verifAssume(v != 0)
	}
	return v
}

// c13RangeElems enumerates range(a, b, c) from the definition r[i] = a + c*i
// while r[i] < b (c > 0) or r[i] > b (c < 0).
func c13RangeElems(a, b, c int64) []int64 {
	var out []int64
	if c > 0 {
		for x := a; x < b; x += c {
			out = append(out, x)
		}
	} else {
		for x := a; x > b; x += c {
			out = append(out, x)
		}
	}
	return out
}

func c13NewRange(a, b, c int64) (*Range, error) {
	o, err := RangeNew(RangeType, Tuple{Int(a), Int(b), Int(c)}, nil)
	if err != nil {
		return nil, err
	}
	return o.(*Range), nil
}

//verif:property C13
//verif:encoding int
//verif:expect called
func VerifC13RangeLenIndex() {
	lim := int64(verifBound(6, 12))
	a, b, c := c13RangeParam("a", lim, false), c13RangeParam("b", lim, false), c13RangeParam("c", 4, true)
	r, err := c13NewRange(a, b, c)
	verifAssert(err == nil, "no error")
	elems := c13RangeElems(a, b, c)
	verifReach("called")
	n, err := Len(r)
	verifAssert(err == nil && n == Object(Int(len(elems))), "len(range)")
	i := c13Bound("i", 1)
	got, err := GetItem(r, i.obj)
	p := c13RefIndex(len(elems), i)
	if p < 0 {
		verifAssert(err != nil && c07ErrIs(err, IndexError), "out of range index raises IndexError")
		return
	}
	verifAssert(err == nil, "no error on index")
	verifAssert(got == Object(Int(elems[p])), "indexed element")
}

//verif:property C13
//verif:encoding int
//verif:expect called
func VerifC13RangeIter() {
	lim := int64(verifBound(6, 12))
	a, b, c := c13RangeParam("a", lim, false), c13RangeParam("b", lim, false), c13RangeParam("c", 4, true)
	r, err := c13NewRange(a, b, c)
	verifAssert(err == nil, "no error")
	elems := c13RangeElems(a, b, c)
	verifReach("called")
	it, err := Iter(r)
	verifAssert(err == nil, "iter ok")
	for _, e := range elems {
		v, err := Next(it)
		verifAssert(err == nil, "next yields while elements remain")
		verifAssert(v == Object(Int(e)), "iterated element")
	}
	_, err = Next(it)
	verifAssert(err != nil, "iteration ends")
}

//verif:property C13
//verif:encoding int
//verif:expect called
//verif:maxpaths 6000 40000
func VerifC13RangeSlice() {
	lim := int64(verifBound(2, 6))
	a, b, c := c13RangeParam("a", lim, false), c13RangeParam("b", lim, false), c13RangeParam("c", int64(verifBound(2, 3)), true)
	r, err := c13NewRange(a, b, c)
	verifAssert(err == nil, "no error")
	elems := c13RangeElems(a, b, c)
	s0, s1, s2 := c13Bound("start", 2), c13Bound("stop", 2), c13Bound("step", 2)
	// the sliced range's step is step*c: keep it inside the word
	if !s2.none {
		verifAssume(s2.v.Cmp(bigOf(1<<40)) < 0 && s2.v.Cmp(bigOf(-(1<<40))) > 0)
	}
	got, err := GetItem(r, NewSlice(s0.obj, s1.obj, s2.obj))
	verifReach("called")
	ref, zero := c13RefIndices(len(elems), s0, s1, s2)
	if zero {
		verifAssert(err != nil && c07ErrIs(err, ValueError), "zero step raises ValueError")
		return
	}
	verifAssert(err == nil, "no error on slice")
	rr, ok := got.(*Range)
	verifAssert(ok, "slice of a range is a range")
	n, err := Len(rr)
	verifAssert(err == nil && n == Object(Int(len(ref))), "length of sliced range")
	for k, p := range ref {
		v, err := GetItem(rr, Int(k))
		verifAssert(err == nil, "k-th element exists")
		verifAssert(v == Object(Int(elems[p])), "k-th element of sliced range")
	}
}

//verif:property C13
//verif:encoding int
//verif:expect called
//verif:maxpaths 6000 40000
func VerifC13RangeEq() {
	lim := int64(verifBound(3, 5))
	a, b, c := c13RangeParam("a", lim, false), c13RangeParam("b", lim, false), c13RangeParam("c", 3, true)
	d, e, f := c13RangeParam("d", lim, false), c13RangeParam("e", lim, false), c13RangeParam("f", 3, true)
	r1, err := c13NewRange(a, b, c)
	verifAssert(err == nil, "no error")
	r2, err := c13NewRange(d, e, f)
	verifAssert(err == nil, "no error")
	x, y := c13RangeElems(a, b, c), c13RangeElems(d, e, f)
	same := len(x) == len(y)
	if same {
		for i := range x {
			if x[i] != y[i] {
				same = false
				break
			}
		}
	}
	verifReach("called")
	eq, err := Eq(r1, r2)
	verifAssert(err == nil, "eq ok")
	verifAssert(eq == Object(Bool(same)), "ranges equal iff same element sequence")
	ne, err := Ne(r1, r2)
	verifAssert(err == nil, "ne ok")
	verifAssert(ne == Object(Bool(!same)), "ranges unequal iff element sequences differ")
}

//verif:property C13 C10
//verif:encoding int
//verif:expect called
func VerifC13RangeNewAny() {
	// any int64 triple: construction must not panic; zero step is ValueError
	a, b, c := verifInt64("a"), verifInt64("b"), verifInt64("c")
	_, err := c13NewRange(a, b, c)
	verifReach("called")
	if c == 0 {
		verifAssert(err != nil && c07ErrIs(err, ValueError), "zero step raises ValueError")
	}
}

// One step of the range iterator from an arbitrary state - Index, Stop and
// Step any int64 (Step != 0), so the ends of the word range are inside: the
// iterator yields Index iff Index lies before Stop in the direction of Step,
// and the following call yields exactly Index + Step (computed without
// wrapping) iff that still lies before Stop; otherwise the iterator is
// exhausted - it never wraps around into the range again.
//
//verif:property C13
//verif:expect called
func VerifC13RangeIterStep() {
	for _, t := range []*Type{BaseException, ExceptionType, StopIteration} {
		_ = t.Ready()
	}
	index, stop, step := verifInt64("index"), verifInt64("stop"), verifInt64("step")
	verifAssume(step != 0)
	it := &RangeIterator{Range: Range{Start: Int(index), Stop: Int(stop), Step: Int(step)}, Index: Int(index)}
	before := func(x *big.Int) bool {
		if step > 0 {
			return x.Cmp(big.NewInt(stop)) < 0
		}
		return x.Cmp(big.NewInt(stop)) > 0
	}
	cur := big.NewInt(index)
	for call := 0; call < 3; call++ {
		got, err := it.M__next__()
		verifReach("called")
		if !before(cur) {
			verifAssert(err != nil && IsException(StopIteration, err), "past the stop value the iterator is exhausted")
			// and stays so
			_, err = it.M__next__()
			verifAssert(err != nil && IsException(StopIteration, err), "an exhausted range iterator stays exhausted")
			return
		}
		verifAssert(err == nil, "a value before the stop value is yielded")
		g, ok := got.(Int)
		verifAssert(ok && big.NewInt(int64(g)).Cmp(cur) == 0, "the iterator yields start + i*step exactly")
		cur = new(big.Int).Add(cur, big.NewInt(step))
	}
}

// The length of range(start, stop, step) for start and stop anywhere in the
// word range (a span of more than 2**63 included) and a step from a list of
// small, large and extreme values: the exact count when it fits a word,
// OverflowError when it does not; and the last item is start + (len-1)*step.
//
//verif:property C13
//verif:encoding int
//verif:expect called
func VerifC13RangeLengthWide() {
	for _, t := range []*Type{BaseException, ExceptionType, OverflowError, ValueError, IndexError} {
		_ = t.Ready()
	}
	start, stop := verifInt64("start"), verifInt64("stop")
	steps := []int64{1, 2, 3, 7, 1 << 62, 1<<63 - 1, -1, -2, -3, -(1 << 62), -1 << 63}
	step := steps[verifChoice("step", len(steps))]
	o, err := RangeNew(RangeType, Tuple{Int(start), Int(stop), Int(step)}, nil)
	verifReach("called")
	// exact length: the number of i >= 0 with start + i*step before stop
	span := new(big.Int).Sub(big.NewInt(stop), big.NewInt(start))
	st := big.NewInt(step)
	if step < 0 {
		span.Neg(span)
		st.Neg(st)
	}
	n := new(big.Int)
	if span.Sign() > 0 {
		n.Add(span, st)
		n.Sub(n, big.NewInt(1))
		n.Div(n, st) // ceil(span / |step|)
	}
	if !n.IsInt64() {
		verifAssert(err != nil && c07ErrIs(err, OverflowError), "a range with more items than a word can count is an OverflowError, not a wrong range")
		return
	}
	verifAssert(err == nil, "no error")
	r := o.(*Range)
	ln, err := Len(r)
	verifAssert(err == nil && c07Same(ln, n), "len(range) is exact across the whole word range")
	if n.Sign() > 0 {
		last, err := GetItem(r, Int(-1))
		want := new(big.Int).Sub(n, big.NewInt(1))
		want.Mul(want, big.NewInt(step))
		want.Add(want, big.NewInt(start))
		verifAssert(err == nil && c07Same(last, want), "the last item is start + (len-1)*step")
	}
}
