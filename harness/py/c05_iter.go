package py

import "strconv"

// C05 — every consumer of iterables stops only on StopIteration (raised as the
// class, as an instance, or as an ExceptionInfo carrying it) and propagates
// every other exception unchanged; generators stay exhausted once finished.

type c05Producer struct {
	calls   int
	yielded []Object
	pool    []Object // when set: the values yielded, in order (so that a caller can hold the same objects)
}

var (
	c05ProducerType = NewType("c05producer", "")
	c05Other        = ExceptionNewf(KeyError, "producer failed")
	c05StopInstance = ExceptionNewf(StopIteration, "done")
)

func (p *c05Producer) Type() *Type               { return c05ProducerType }
func (p *c05Producer) M__iter__() (Object, error) { return p, nil }

// outcome kinds of __next__: 0 value, 1 StopIteration class, 2 StopIteration instance,
// 3 ExceptionInfo carrying StopIteration (what a Python-level raise produces), 4 another error
func (p *c05Producer) M__next__() (Object, error) {
	p.calls++
	n := 5
	lo := 0
	if len(p.yielded) >= 2 {
		lo, n = 1, 4 // bounded producer: at most two items
	}
	switch lo + verifChoice("next"+strconv.Itoa(p.calls), n) {
	case 0:
		var v Object = &c04Tok{id: 100 + p.calls}
		if p.pool != nil && len(p.yielded) < len(p.pool) {
			v = p.pool[len(p.yielded)]
		}
		p.yielded = append(p.yielded, v)
		return v, nil
	case 1:
		return nil, StopIteration
	case 2:
		return nil, c05StopInstance
	case 3:
		return nil, ExceptionInfo{Type: StopIteration, Value: c05StopInstance}
	}
	return nil, c05Other
}

// c05Ended: how the producer ended: 0 not yet, 1 by a StopIteration of any form, 2 by another error
func c05Ended(p *c05Producer) int {
	k := verifChoiceOf("next" + strconv.Itoa(p.calls))
	if len(p.yielded) >= 2 && p.calls > 2 {
		k++
	}
	// recompute precisely: the last call did not yield a value iff calls > len(yielded)
	if p.calls == len(p.yielded) {
		return 0
	}
	last := verifChoiceOf("next" + strconv.Itoa(p.calls))
	if p.calls > 2 && len(p.yielded) >= 2 {
		last++
	}
	if last == 4 {
		return 2
	}
	return 1
}

type c05Consumer struct {
	name string
	run  func(it Object) ([]Object, error)
}

func c05Collect(it Object) ([]Object, error) {
	var out []Object
	err := Iterate(it, func(o Object) bool {
		out = append(out, o)
		return false
	})
	return out, err
}

var c05Consumers = []c05Consumer{
	{"Iterate", c05Collect},
	{"SequenceTuple", func(it Object) ([]Object, error) {
		t, err := SequenceTuple(it)
		return []Object(t), err
	}},
	{"SequenceList", func(it Object) ([]Object, error) {
		l, err := SequenceList(it)
		if err != nil {
			return nil, err
		}
		return l.Items, nil
	}},
	{"list()", func(it Object) ([]Object, error) {
		o, err := ListNew(ListType, Tuple{it}, nil)
		if err != nil {
			return nil, err
		}
		return o.(*List).Items, nil
	}},
	{"tuple()", func(it Object) ([]Object, error) {
		o, err := TupleNew(TupleType, Tuple{it}, nil)
		if err != nil {
			return nil, err
		}
		return []Object(o.(Tuple)), nil
	}},
	{"in", func(it Object) ([]Object, error) {
		p := it.(*c05Producer)
		found, err := SequenceContains(it, &c04Tok{id: 1}) // never equal: consumes everything
		if err == nil && found {
			return nil, c05Other
		}
		return p.yielded, err
	}},
	{"enumerate", func(it Object) ([]Object, error) {
		e, err := EnumerateNew(EnumerateType, Tuple{it}, nil)
		if err != nil {
			return nil, err
		}
		ei, err := Iter(e)
		if err != nil {
			return nil, err
		}
		var out []Object
		for {
			v, err := Next(ei)
			if err != nil {
				if IsException(StopIteration, err) {
					return out, nil
				}
				return out, err
			}
			out = append(out, v.(Tuple)[1])
		}
	}},
	{"zip", func(it Object) ([]Object, error) {
		z, err := ZipTypeNew(ZipType, Tuple{it}, nil)
		if err != nil {
			return nil, err
		}
		var out []Object
		for {
			v, err := Next(z)
			if err != nil {
				if IsException(StopIteration, err) {
					return out, nil
				}
				return out, err
			}
			out = append(out, v.(Tuple)[0])
		}
	}},
}

//verif:property C05
//verif:expect consumed
//verif:maxpaths 20000 100000
func VerifC05Consumers() {
	cons := c05Consumers[verifChoice("consumer", len(c05Consumers))]
	for _, t := range []*Type{BaseException, ExceptionType, StopIteration, LookupError, KeyError} {
		_ = t.Ready()
	}
	p := &c05Producer{}
	got, err := cons.run(p)
	verifReach("consumed")
	switch c05Ended(p) {
	case 1:
		verifAssert(err == nil, "StopIteration in any form ends the consumption normally")
		verifAssert(len(got) == len(p.yielded), "with exactly the items produced so far")
		for i := range p.yielded {
			verifAssert(got[i] == p.yielded[i], "in order")
		}
	case 2:
		verifAssert(err == error(c05Other), "any other exception propagates unchanged")
	default:
		verifAssert(false, "the consumer drives the iterator to its end")
	}
}

// ---- generator state machine --------------------------------------------------

//verif:property C05
//verif:expect sent
func VerifC05GeneratorStates() {
	// the frame run is replaced by a stub with symbolic outcome: yields, returns, or raises
	frame := &Frame{Code: &Code{Code: "xxxxxxxxxxxx"}}
	calls := 0
	VmRunFrame = func(f *Frame) (Object, error) {
		calls++
		f.Lasti += 3
		switch verifChoice("run"+strconv.Itoa(calls), 3) {
		case 0:
			f.Yielded = true
			return &c04Tok{id: 200 + calls}, nil
		case 1:
			f.Yielded = false
			if verifChoice("retval"+strconv.Itoa(calls), 2) == 1 {
				return &c04Tok{id: 300 + calls}, nil // return <value>
			}
			return None, nil
		}
		return nil, c05Other
	}
	g := NewGenerator(frame)
	finished := false
	for step := 1; step <= 3; step++ {
		before := calls
		v, err := g.M__next__()
		verifReach("sent")
		if finished {
			verifAssert(calls == before, "a finished generator is not resumed")
			verifAssert(err != nil && IsException(StopIteration, err), "and keeps raising StopIteration")
			continue
		}
		verifAssert(calls == before+1, "each next() runs the frame once")
		switch verifChoiceOf("run" + strconv.Itoa(calls)) {
		case 0:
			t, ok := v.(*c04Tok)
			verifAssert(err == nil && ok && t.id == 200+calls, "the yielded value is returned")
		case 1:
			verifAssert(err != nil && IsException(StopIteration, err), "a return ends the generator with StopIteration")
			if verifChoiceOf("retval"+strconv.Itoa(calls)) == 1 {
				t, ok := c05StopValue(err).(*c04Tok)
				verifAssert(ok && t.id == 300+calls, "the return value of the generator is carried by the StopIteration")
			} else {
				verifAssert(c05StopValue(err) == Object(None), "a plain return carries None")
			}
			finished = true
		default:
			verifAssert(err == error(c05Other), "an exception propagates unchanged")
			finished = true // a generator that raised is finished
		}
	}
}

// A consumer that can stop early (membership test, Iterate with a callback
// that says stop) takes from the iterator exactly the items up to the one that
// decides, and not one more: the producer is left where a later next() continues.
//
//verif:property C05
//verif:expect consumed
func VerifC05StopsAtMatch() {
	for _, t := range []*Type{BaseException, ExceptionType, StopIteration, LookupError, KeyError} {
		_ = t.Ready()
	}
	pool := []Object{&c04Tok{id: 201}, &c04Tok{id: 202}}
	p := &c05Producer{pool: pool}
	k := verifChoice("k", 2)
	var found bool
	var err error
	if verifChoice("consumer", 2) == 0 {
		found, err = SequenceContains(p, pool[k])
	} else {
		n := 0
		err = Iterate(p, func(o Object) bool {
			n++
			if o == pool[k] {
				found = true
				return true
			}
			return false
		})
	}
	verifReach("consumed")
	if len(p.yielded) > k {
		// the producer got as far as the item looked for
		verifAssert(err == nil && found, "the item is found")
		verifAssert(p.calls == k+1 && len(p.yielded) == k+1, "the iterator is not advanced past the item that decides")
		return
	}
	verifAssert(!found, "an item the iterator never produced is not found")
	switch c05Ended(p) {
	case 1:
		verifAssert(err == nil, "StopIteration in any form ends the search normally")
	case 2:
		verifAssert(err == error(c05Other), "any other exception propagates unchanged")
	}
}

// c05StopValue: the value a StopIteration carries: its first argument, None if it has none
func c05StopValue(err error) Object {
	var ex *Exception
	switch e := err.(type) {
	case *Exception:
		ex = e
	case ExceptionInfo:
		ex, _ = e.Value.(*Exception)
	}
	if ex == nil {
		return None // raised as the bare class
	}
	if args, ok := ex.Args.(Tuple); ok && len(args) > 0 {
		return args[0]
	}
	return None
}
