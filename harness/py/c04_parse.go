package py

import "strconv"

// C04 — the embedding boundary: ParseTupleAndKeywords delivers each argument to
// exactly one result slot (positional, else keyword, else untouched) and rejects
// arity / keyword misuse with TypeError. The format shape, number of positionals
// and the set of keywords are symbolic; the keyword map is walked in every order.

type c04Tok struct{ id int }

var c04TokType = NewType("c04tok", "")

func (t *c04Tok) Type() *Type { return c04TokType }

// tokens compare by identity
func (t *c04Tok) M__eq__(o Object) (Object, error) { return NewBool(Object(t) == o), nil }
func (t *c04Tok) M__ne__(o Object) (Object, error) { return NewBool(Object(t) != o), nil }

//verif:property C04
//verif:maporder
//verif:expect parsed
//verif:maxpaths 100000 400000
func VerifC04ParseTupleAndKeywords() {
	nreq := verifChoice("nreq", 3)
	nopt := verifChoice("nopt", 3)
	nkwo := verifChoice("nkwonly", 2)
	n := nreq + nopt + nkwo
	format := ""
	for i := 0; i < nreq; i++ {
		format += "O"
	}
	if nopt+nkwo > 0 {
		format += "|"
	}
	for i := 0; i < nopt; i++ {
		format += "O"
	}
	if nkwo > 0 {
		format += "$O"
	}
	format += ":f"
	kwlist := make([]string, n)
	for i := range kwlist {
		kwlist[i] = "p" + strconv.Itoa(i)
	}
	npos := verifChoice("npos", 4)
	args := make(Tuple, npos)
	for i := range args {
		args[i] = &c04Tok{id: 10 + i}
	}
	kwargs := StringDict{}
	kwv := make([]Object, n)
	for i := 0; i < n; i++ {
		if verifChoice("kw"+strconv.Itoa(i), 2) == 1 {
			kwv[i] = &c04Tok{id: 20 + i}
			kwargs[kwlist[i]] = kwv[i]
		}
	}
	foreign := verifChoice("kwz", 2) == 1
	if foreign {
		kwargs["z"] = &c04Tok{id: 29}
	}
	sentinel := make([]Object, n)
	results := make([]Object, n)
	ptrs := make([]*Object, n)
	for i := range results {
		sentinel[i] = &c04Tok{id: 40 + i}
		results[i] = sentinel[i]
		ptrs[i] = &results[i]
	}
	err := ParseTupleAndKeywords(args, kwargs, format, kwlist, ptrs...)
	verifReach("parsed")

	// reference
	fail := foreign || npos > nreq+nopt
	want := make([]Object, n)
	for i := 0; i < n; i++ {
		want[i] = sentinel[i]
		if i < npos && i < nreq+nopt {
			want[i] = args[i]
			if kwv[i] != nil {
				fail = true // given positionally and by keyword
			}
		} else if kwv[i] != nil {
			want[i] = kwv[i]
		} else if i < nreq {
			fail = true // a required parameter received nothing
		}
	}
	if fail {
		verifAssert(err != nil, "arity or keyword misuse is rejected")
		if err != nil {
			e, ok := err.(*Exception)
			verifAssert(ok && e.Base == TypeError, "with TypeError")
		}
		return
	}
	verifAssert(err == nil, "a legal call is accepted")
	for i := 0; i < n; i++ {
		verifAssert(results[i] == want[i], "each slot gets its positional, else its keyword, else stays untouched")
	}
}
