package py

import "strconv"

// C01 item 2 — operator dispatch protocol (py/arithmetic.go). Two token
// classes whose every operator method returns, by symbolic choice, a fresh
// token, NotImplemented or an error; the log records the calls.

type pTok struct {
	id  int
	cls int
}

type PTokA struct{ pTok }
type PTokB struct{ pTok }

var (
	pTokAType = NewType("veriftokA", "")
	pTokBType = NewType("veriftokB", "")
	pLog      []string
	pOutc     []int
	pNext     int
	pErr      = ExceptionNewf(KeyError, "token method failed")
)

func (t *PTokA) Type() *Type { return pTokAType }
func (t *PTokB) Type() *Type { return pTokBType }

func pReset() {
	pLog, pOutc, pNext = nil, nil, 100
}

func pName(o Object) string {
	switch x := o.(type) {
	case *PTokA:
		return "a" + strconv.Itoa(x.id)
	case *PTokB:
		return "b" + strconv.Itoa(x.id)
	case NoneType:
		return "None"
	}
	return "?"
}

func pOut(op string, recv Object, args ...Object) (Object, error) {
	e := op + "(" + pName(recv)
	for _, a := range args {
		e += "," + pName(a)
	}
	e += ")"
	pLog = append(pLog, e)
	k := verifChoice("out"+strconv.Itoa(len(pLog)), 3)
	pOutc = append(pOutc, k)
	switch k {
	case 1:
		return NotImplemented, nil
	case 2:
		return nil, pErr
	}
	pNext++
	return &PTokA{pTok{id: pNext}}, nil
}

func (t *PTokA) M__add__(o Object) (Object, error)       { return pOut("add", t, o) }
func (t *PTokA) M__radd__(o Object) (Object, error)      { return pOut("radd", t, o) }
func (t *PTokA) M__iadd__(o Object) (Object, error)      { return pOut("iadd", t, o) }
func (t *PTokA) M__sub__(o Object) (Object, error)       { return pOut("sub", t, o) }
func (t *PTokA) M__rsub__(o Object) (Object, error)      { return pOut("rsub", t, o) }
func (t *PTokA) M__isub__(o Object) (Object, error)      { return pOut("isub", t, o) }
func (t *PTokA) M__mul__(o Object) (Object, error)       { return pOut("mul", t, o) }
func (t *PTokA) M__rmul__(o Object) (Object, error)      { return pOut("rmul", t, o) }
func (t *PTokA) M__imul__(o Object) (Object, error)      { return pOut("imul", t, o) }
func (t *PTokA) M__truediv__(o Object) (Object, error)   { return pOut("truediv", t, o) }
func (t *PTokA) M__rtruediv__(o Object) (Object, error)  { return pOut("rtruediv", t, o) }
func (t *PTokA) M__itruediv__(o Object) (Object, error)  { return pOut("itruediv", t, o) }
func (t *PTokA) M__floordiv__(o Object) (Object, error)  { return pOut("floordiv", t, o) }
func (t *PTokA) M__rfloordiv__(o Object) (Object, error) { return pOut("rfloordiv", t, o) }
func (t *PTokA) M__ifloordiv__(o Object) (Object, error) { return pOut("ifloordiv", t, o) }
func (t *PTokA) M__mod__(o Object) (Object, error)       { return pOut("mod", t, o) }
func (t *PTokA) M__rmod__(o Object) (Object, error)      { return pOut("rmod", t, o) }
func (t *PTokA) M__imod__(o Object) (Object, error)      { return pOut("imod", t, o) }
func (t *PTokA) M__lshift__(o Object) (Object, error)    { return pOut("lshift", t, o) }
func (t *PTokA) M__rlshift__(o Object) (Object, error)   { return pOut("rlshift", t, o) }
func (t *PTokA) M__ilshift__(o Object) (Object, error)   { return pOut("ilshift", t, o) }
func (t *PTokA) M__rshift__(o Object) (Object, error)    { return pOut("rshift", t, o) }
func (t *PTokA) M__rrshift__(o Object) (Object, error)   { return pOut("rrshift", t, o) }
func (t *PTokA) M__irshift__(o Object) (Object, error)   { return pOut("irshift", t, o) }
func (t *PTokA) M__and__(o Object) (Object, error)       { return pOut("and", t, o) }
func (t *PTokA) M__rand__(o Object) (Object, error)      { return pOut("rand", t, o) }
func (t *PTokA) M__iand__(o Object) (Object, error)      { return pOut("iand", t, o) }
func (t *PTokA) M__or__(o Object) (Object, error)        { return pOut("or", t, o) }
func (t *PTokA) M__ror__(o Object) (Object, error)       { return pOut("ror", t, o) }
func (t *PTokA) M__ior__(o Object) (Object, error)       { return pOut("ior", t, o) }
func (t *PTokA) M__xor__(o Object) (Object, error)       { return pOut("xor", t, o) }
func (t *PTokA) M__rxor__(o Object) (Object, error)      { return pOut("rxor", t, o) }
func (t *PTokA) M__ixor__(o Object) (Object, error)      { return pOut("ixor", t, o) }
func (t *PTokA) M__pow__(o, m Object) (Object, error)    { return pOut("pow", t, o) }
func (t *PTokA) M__rpow__(o Object) (Object, error)      { return pOut("rpow", t, o) }
func (t *PTokA) M__ipow__(o, m Object) (Object, error)   { return pOut("ipow", t, o) }
func (t *PTokA) M__lt__(o Object) (Object, error)        { return pOut("lt", t, o) }
func (t *PTokA) M__le__(o Object) (Object, error)        { return pOut("le", t, o) }
func (t *PTokA) M__eq__(o Object) (Object, error)        { return pOut("eq", t, o) }
func (t *PTokA) M__ne__(o Object) (Object, error)        { return pOut("ne", t, o) }
func (t *PTokA) M__gt__(o Object) (Object, error)        { return pOut("gt", t, o) }
func (t *PTokA) M__ge__(o Object) (Object, error)        { return pOut("ge", t, o) }

func (t *PTokB) M__add__(o Object) (Object, error)       { return pOut("add", t, o) }
func (t *PTokB) M__radd__(o Object) (Object, error)      { return pOut("radd", t, o) }
func (t *PTokB) M__iadd__(o Object) (Object, error)      { return pOut("iadd", t, o) }
func (t *PTokB) M__sub__(o Object) (Object, error)       { return pOut("sub", t, o) }
func (t *PTokB) M__rsub__(o Object) (Object, error)      { return pOut("rsub", t, o) }
func (t *PTokB) M__isub__(o Object) (Object, error)      { return pOut("isub", t, o) }
func (t *PTokB) M__mul__(o Object) (Object, error)       { return pOut("mul", t, o) }
func (t *PTokB) M__rmul__(o Object) (Object, error)      { return pOut("rmul", t, o) }
func (t *PTokB) M__imul__(o Object) (Object, error)      { return pOut("imul", t, o) }
func (t *PTokB) M__truediv__(o Object) (Object, error)   { return pOut("truediv", t, o) }
func (t *PTokB) M__rtruediv__(o Object) (Object, error)  { return pOut("rtruediv", t, o) }
func (t *PTokB) M__itruediv__(o Object) (Object, error)  { return pOut("itruediv", t, o) }
func (t *PTokB) M__floordiv__(o Object) (Object, error)  { return pOut("floordiv", t, o) }
func (t *PTokB) M__rfloordiv__(o Object) (Object, error) { return pOut("rfloordiv", t, o) }
func (t *PTokB) M__ifloordiv__(o Object) (Object, error) { return pOut("ifloordiv", t, o) }
func (t *PTokB) M__mod__(o Object) (Object, error)       { return pOut("mod", t, o) }
func (t *PTokB) M__rmod__(o Object) (Object, error)      { return pOut("rmod", t, o) }
func (t *PTokB) M__imod__(o Object) (Object, error)      { return pOut("imod", t, o) }
func (t *PTokB) M__lshift__(o Object) (Object, error)    { return pOut("lshift", t, o) }
func (t *PTokB) M__rlshift__(o Object) (Object, error)   { return pOut("rlshift", t, o) }
func (t *PTokB) M__ilshift__(o Object) (Object, error)   { return pOut("ilshift", t, o) }
func (t *PTokB) M__rshift__(o Object) (Object, error)    { return pOut("rshift", t, o) }
func (t *PTokB) M__rrshift__(o Object) (Object, error)   { return pOut("rrshift", t, o) }
func (t *PTokB) M__irshift__(o Object) (Object, error)   { return pOut("irshift", t, o) }
func (t *PTokB) M__and__(o Object) (Object, error)       { return pOut("and", t, o) }
func (t *PTokB) M__rand__(o Object) (Object, error)      { return pOut("rand", t, o) }
func (t *PTokB) M__iand__(o Object) (Object, error)      { return pOut("iand", t, o) }
func (t *PTokB) M__or__(o Object) (Object, error)        { return pOut("or", t, o) }
func (t *PTokB) M__ror__(o Object) (Object, error)       { return pOut("ror", t, o) }
func (t *PTokB) M__ior__(o Object) (Object, error)       { return pOut("ior", t, o) }
func (t *PTokB) M__xor__(o Object) (Object, error)       { return pOut("xor", t, o) }
func (t *PTokB) M__rxor__(o Object) (Object, error)      { return pOut("rxor", t, o) }
func (t *PTokB) M__ixor__(o Object) (Object, error)      { return pOut("ixor", t, o) }
func (t *PTokB) M__pow__(o, m Object) (Object, error)    { return pOut("pow", t, o) }
func (t *PTokB) M__rpow__(o Object) (Object, error)      { return pOut("rpow", t, o) }
func (t *PTokB) M__ipow__(o, m Object) (Object, error)   { return pOut("ipow", t, o) }
func (t *PTokB) M__lt__(o Object) (Object, error)        { return pOut("lt", t, o) }
func (t *PTokB) M__le__(o Object) (Object, error)        { return pOut("le", t, o) }
func (t *PTokB) M__eq__(o Object) (Object, error)        { return pOut("eq", t, o) }
func (t *PTokB) M__ne__(o Object) (Object, error)        { return pOut("ne", t, o) }
func (t *PTokB) M__gt__(o Object) (Object, error)        { return pOut("gt", t, o) }
func (t *PTokB) M__ge__(o Object) (Object, error)        { return pOut("ge", t, o) }

type c01Op struct {
	fn          func(a, b Object) (Object, error)
	name, rname string
	kind        int // 0 binary, 1 in-place, 2 comparison, 3 eq/ne
}

func c01Pow(a, b Object) (Object, error)  { return Pow(a, b, None) }
func c01IPow(a, b Object) (Object, error) { return IPow(a, b, None) }

var c01Ops = []c01Op{
	{Add, "add", "radd", 0},
	{IAdd, "add", "radd", 1},
	{Sub, "sub", "rsub", 0},
	{ISub, "sub", "rsub", 1},
	{Mul, "mul", "rmul", 0},
	{IMul, "mul", "rmul", 1},
	{TrueDiv, "truediv", "rtruediv", 0},
	{ITrueDiv, "truediv", "rtruediv", 1},
	{FloorDiv, "floordiv", "rfloordiv", 0},
	{IFloorDiv, "floordiv", "rfloordiv", 1},
	{Mod, "mod", "rmod", 0},
	{IMod, "mod", "rmod", 1},
	{Lshift, "lshift", "rlshift", 0},
	{ILshift, "lshift", "rlshift", 1},
	{Rshift, "rshift", "rrshift", 0},
	{IRshift, "rshift", "rrshift", 1},
	{And, "and", "rand", 0},
	{IAnd, "and", "rand", 1},
	{Or, "or", "ror", 0},
	{IOr, "or", "ror", 1},
	{Xor, "xor", "rxor", 0},
	{IXor, "xor", "rxor", 1},
	{c01Pow, "pow", "rpow", 0},
	{c01IPow, "pow", "rpow", 1},
	{Lt, "lt", "gt", 2},
	{Le, "le", "ge", 2},
	{Gt, "gt", "lt", 2},
	{Ge, "ge", "le", 2},
	{Eq, "eq", "eq", 3},
	{Ne, "ne", "ne", 3},
}

//verif:property C01
//verif:expect dispatched
//verif:maxpaths 20000 40000
func VerifC01Dispatch() {
	op := c01Ops[verifChoice("op", len(c01Ops))]
	pReset()
	var a Object = &PTokA{pTok{id: 1}}
	var b Object = &PTokA{pTok{id: 2}}
	same := verifChoice("same", 2) == 1
	if !same {
		b = &PTokB{pTok{id: 2}}
	}
	got, err := op.fn(a, b)
	verifReach("dispatched")
	an, bn := pName(a), pName(b)
	// the protocol as a list of attempts, in order
	var steps []string
	if op.kind == 1 {
		steps = append(steps, "i"+op.name+"("+an+","+bn+")")
	}
	steps = append(steps, op.name+"("+an+","+bn+")")
	if op.kind >= 2 || !same {
		steps = append(steps, op.rname+"("+bn+","+an+")")
	}
	n := 0
	final := 1 // 0 value, 1 every attempt said NotImplemented, 2 error
	for n < len(steps) {
		verifAssert(len(pLog) > n, "the next method of the protocol is tried")
		verifAssert(pLog[n] == steps[n], "methods are tried in protocol order with the right receiver")
		o := pOutc[n]
		n++
		if o != 1 {
			final = o
			break
		}
	}
	verifAssert(len(pLog) == n, "no method is called after the deciding one, none twice")
	switch final {
	case 0:
		r, ok := got.(*PTokA)
		verifAssert(err == nil && ok && r.id == 101, "the value of the deciding method is the result")
	case 2:
		verifAssert(err == error(pErr), "an error from a method propagates unchanged")
	default:
		if op.kind == 3 {
			// == and != fall back to identity
			verifAssert(err == nil && got == Object(Bool(op.name == "ne")), "== / != of unrelated distinct objects falls back to identity")
		} else {
			verifAssert(err != nil && c07ErrIs(err, TypeError), "unsupported operands raise TypeError")
		}
	}
}
