package py

// C04 — callables implemented in Go, of each supported signature, reached as a
// module function (two contexts instantiate the same module), through an
// instance, or through the class, receive exactly the receiver, the positional
// and the keyword arguments of the call; arity / keyword misuse is TypeError.

type c04Rec struct {
	called bool
	self   Object
	args   Tuple
	kwargs StringDict
	one    Object
}

func c04Method(kind int, rec *c04Rec) *Method {
	ret := &c04Tok{id: 99}
	switch kind {
	case 0:
		return MustNewMethod("m", func(self Object, args Tuple) (Object, error) {
			rec.called, rec.self, rec.args = true, self, args
			return ret, nil
		}, 0, "")
	case 1:
		return MustNewMethod("m", func(self Object, args Tuple, kwargs StringDict) (Object, error) {
			rec.called, rec.self, rec.args, rec.kwargs = true, self, args, kwargs
			return ret, nil
		}, 0, "")
	case 2:
		return MustNewMethod("m", func(self Object) (Object, error) {
			rec.called, rec.self = true, self
			return ret, nil
		}, 0, "")
	}
	return MustNewMethod("m", func(self Object, a Object) (Object, error) {
		rec.called, rec.self, rec.one = true, self, a
		return ret, nil
	}, 0, "")
}

func c04CheckDelivery(kind int, rec *c04Rec, wantSelf Object, args Tuple, hasKw bool, kwv Object, res Object, err error) {
	// legality per signature
	legal := true
	switch kind {
	case 0:
		legal = !hasKw
	case 2:
		legal = !hasKw && len(args) == 0
	case 3:
		legal = !hasKw && len(args) == 1
	}
	if !legal {
		verifAssert(err != nil, "arity or keyword misuse is rejected")
		if err != nil {
			e, ok := err.(*Exception)
			verifAssert(ok && e.Base == TypeError, "with TypeError")
		}
		verifAssert(!rec.called, "and the Go function is not entered")
		return
	}
	verifAssert(err == nil && rec.called, "a legal call reaches the Go function")
	r, ok := res.(*c04Tok)
	verifAssert(ok && r.id == 99, "its result is returned")
	verifAssert(rec.self == wantSelf, "the receiver is the object the call was made on")
	switch kind {
	case 0, 1:
		verifAssert(len(rec.args) == len(args), "all positional arguments delivered")
		for i := range args {
			verifAssert(rec.args[i] == args[i], "positional arguments in order")
		}
		if kind == 1 && hasKw {
			verifAssert(len(rec.kwargs) == 1 && rec.kwargs["key"] == kwv, "keyword arguments delivered")
		}
		if kind == 1 && !hasKw {
			verifAssert(len(rec.kwargs) == 0, "no keyword arguments invented")
		}
	case 3:
		verifAssert(rec.one == args[0], "the single argument delivered")
	}
}

func c04Args() (Tuple, StringDict, bool, Object) {
	n := verifChoice("nargs", 3)
	args := make(Tuple, n)
	for i := range args {
		args[i] = &c04Tok{id: 10 + i}
	}
	hasKw := verifChoice("kw", 2) == 1
	var kwargs StringDict
	var kwv Object
	switch verifChoice("kwform", 2) {
	case 0:
		kwargs = nil
	default:
		kwargs = StringDict{}
	}
	if hasKw {
		kwv = &c04Tok{id: 20}
		kwargs = StringDict{"key": kwv}
	}
	return args, kwargs, hasKw, kwv
}

//verif:property C04
//verif:expect called
func VerifC04ModuleFunction() {
	kind := verifChoice("kind", 4)
	rec := &c04Rec{}
	impl := &ModuleImpl{Info: ModuleInfo{Name: "hmod"}, Methods: []*Method{c04Method(kind, rec)}, Globals: StringDict{}}
	store1, store2 := NewModuleStore(), NewModuleStore()
	m1, err := store1.NewModule(nil, impl)
	verifAssert(err == nil, "module created")
	m2, err := store2.NewModule(nil, impl) // a second context instantiates the same module
	verifAssert(err == nil && m1 != m2, "second instance created")
	which := m1
	if verifChoice("second", 2) == 1 {
		which = m2
	}
	fn := which.Globals["m"]
	args, kwargs, hasKw, kwv := c04Args()
	res, err := Call(fn, args, kwargs)
	verifReach("called")
	c04CheckDelivery(kind, rec, which, args, hasKw, kwv, res, err)
}

type c04Inst struct{ id int }

var c04InstType = NewType("c04inst", "")

func (t *c04Inst) Type() *Type { return c04InstType }

//verif:property C04
//verif:expect called
func VerifC04BoundThroughInstance() {
	kind := verifChoice("kind", 4)
	rec := &c04Rec{}
	meth := c04Method(kind, rec)
	inst := &c04Inst{id: 1}
	bound, err := meth.M__get__(inst, c04InstType) // what attribute lookup on an instance does
	verifAssert(err == nil, "bind ok")
	args, kwargs, hasKw, kwv := c04Args()
	res, err := Call(bound, args, kwargs)
	verifReach("called")
	c04CheckDelivery(kind, rec, inst, args, hasKw, kwv, res, err)
}

//verif:property C04
//verif:expect called
func VerifC04ThroughClass() {
	kind := verifChoice("kind", 4)
	rec := &c04Rec{}
	meth := c04Method(kind, rec)
	inst := &c04Inst{id: 1}
	unbound, err := meth.M__get__(None, c04InstType) // what attribute lookup on the class does
	verifAssert(err == nil, "lookup ok")
	args, kwargs, hasKw, kwv := c04Args()
	// T.m(inst, *args): the instance is passed explicitly as first argument
	full := append(Tuple{inst}, args...)
	res, err := Call(unbound, full, kwargs)
	verifReach("called")
	c04CheckDelivery(kind, rec, inst, args, hasKw, kwv, res, err)
}
