package py

import (
	"math/big"
	"strconv"
)

// C14 — strings are sequences of code points whatever their UTF-8 storage.
//
// Strings are built from code points chosen symbolically out of an alphabet
// that holds every UTF-8 width class and its boundary values (NUL, quote,
// backslash, U+7F/U+80, U+7FF/U+800, U+FFFF/U+10000, U+10FFFF); indices and
// slice bounds are arbitrary int64. The oracle works on the rune array.

var c14Alphabet = []rune{'a', 0xe9, 0x800, 0x2070e, 0, 'b', 0x4e16, '\'', '\\', 0x7f, 0x80, 0x7ff, 0xffff, 0x10000, 0x10ffff}

func c14Str(name string, k int, nalpha int) (String, []rune) {
	rs := make([]rune, k)
	for i := range rs {
		rs[i] = c14Alphabet[verifChoice(name+strconv.Itoa(i), nalpha)]
	}
	return String(string(rs)), rs
}

func c14Alpha() int { return verifBound(9, len(c14Alphabet)) }

//verif:property C14 C13
//verif:encoding int
//verif:expect called
//verif:maxpaths 60000 600000
//verif:timeout 300 1500
func VerifC14IndexLen() {
	k := verifChoice("k", verifBound(4, 5))
	s, rs := c14Str("c", k, c14Alpha())
	n, err := Len(s)
	verifReach("called")
	verifAssert(err == nil && n == Object(Int(k)), "len() counts code points")
	i := c13Bound("i", 1)
	got, err := GetItem(s, i.obj)
	p := c13RefIndex(k, i)
	if p < 0 {
		verifAssert(err != nil && c07ErrIs(err, IndexError), "out of range index raises IndexError")
		return
	}
	verifAssert(err == nil && got == Object(String(string(rs[p:p+1]))), "s[i] is the i-th code point")
}

//verif:property C14 C13
//verif:encoding int
//verif:expect called
//verif:maxpaths 100000 1000000
//verif:timeout 400 2400
func VerifC14Slice() {
	k := verifChoice("k", verifBound(4, 5))
	s, rs := c14Str("c", k, verifBound(3, len(c14Alphabet)))
	a, b, st := c13Bound("start", 2), c13Bound("stop", 2), c13Bound("step", 2)
	got, err := GetItem(s, NewSlice(a.obj, b.obj, st.obj))
	verifReach("called")
	ref, zero := c13RefIndices(k, a, b, st)
	if zero {
		verifAssert(err != nil && c07ErrIs(err, ValueError), "zero step raises ValueError")
		return
	}
	want := make([]rune, len(ref))
	for i, x := range ref {
		want[i] = rs[x]
	}
	verifAssert(err == nil && got == Object(String(string(want))), "a slice selects whole code points by position")
}

// find / count / startswith / endswith / in: positions are code point positions
func c14Find(rs, sub []rune, start, end int) int {
	for i := start; i+len(sub) <= end; i++ {
		m := true
		for j := range sub {
			if rs[i+j] != sub[j] {
				m = false
				break
			}
		}
		if m {
			return i
		}
	}
	return -1
}

// c14Norm: Python's treatment of the optional start / end arguments: negative values count
// from the end, end is clipped to the length; a start beyond the end selects nothing (n+1 here)
func c14Norm(v *big.Int, n int, isEnd bool) int {
	N := big.NewInt(int64(n))
	x := new(big.Int).Set(v)
	if x.Sign() < 0 {
		x.Add(x, N)
	}
	if x.Sign() < 0 {
		return 0
	}
	if x.Cmp(N) > 0 {
		if isEnd {
			return n
		}
		return n + 1
	}
	return int(x.Int64())
}

func c14SAlpha() int { return verifBound(4, len(c14Alphabet)) }

func c14SearchArgs(k int) (Tuple, int, int, []rune) {
	var sub []rune
	switch verifChoice("sublen", verifBound(2, 3)) {
	case 1:
		sub = []rune{c14Alphabet[verifChoice("sub0", c14SAlpha())]}
	case 2:
		sub = []rune{c14Alphabet[verifChoice("sub0", c14SAlpha())], c14Alphabet[verifChoice("sub1", c14SAlpha())]}
	}
	args := Tuple{String(string(sub))}
	start, end := 0, k
	switch verifChoice("nargs", 3) {
	case 1:
		v := verifInt64("start")
		args = append(args, Int(v))
		start = c14Norm(big.NewInt(v), k, false)
	case 2:
		v, w := verifInt64("start"), verifInt64("end")
		args = append(args, Int(v), Int(w))
		start, end = c14Norm(big.NewInt(v), k, false), c14Norm(big.NewInt(w), k, true)
	}
	return args, start, end, sub
}

func c14Method(name string) *Method {
	m, _ := StringType.Dict[name].(*Method)
	return m
}

//verif:property C14
//verif:encoding int
//verif:runinit github.com/go-python/gpython/py.init@string.go:1
//verif:expect called
//verif:maxpaths 100000 1000000
//verif:timeout 400 2400
func VerifC14Find() {
	k := 1 + verifChoice("k", verifBound(2, 4))
	s, rs := c14Str("c", k, c14SAlpha())
	args, start, end, sub := c14SearchArgs(k)
	got, err := c14Method("find").Call(s, args)
	verifReach("called")
	want := -1
	if start <= end {
		want = c14Find(rs, sub, start, end)
	}
	verifAssert(err == nil && got == Object(Int(want)), "find() returns the lowest code point position within [start:end), or -1")
}

//verif:property C14
//verif:encoding int
//verif:runinit github.com/go-python/gpython/py.init@string.go:1
//verif:expect called
//verif:maxpaths 100000 1000000
//verif:timeout 400 2400
//verif:unwind 600 1000
func VerifC14Count() {
	k := 1 + verifChoice("k", verifBound(2, 4))
	s, rs := c14Str("c", k, c14SAlpha())
	args, start, end, sub := c14SearchArgs(k)
	got, err := c14Method("count").Call(s, args)
	verifReach("called")
	want := 0
	if len(sub) == 0 && start <= end {
		want = end - start + 1 // the empty string occurs between all code points
	}
	for i := start; len(sub) > 0 && i+len(sub) <= end; {
		if c14Find(rs, sub, i, i+len(sub)) == i {
			want++
			i += len(sub)
		} else {
			i++
		}
	}
	verifAssert(err == nil && got == Object(Int(want)), "count() counts non-overlapping occurrences within [start:end)")
}

//verif:property C14
//verif:encoding int
//verif:runinit github.com/go-python/gpython/py.init@string.go:1
//verif:expect called
//verif:maxpaths 100000 1000000
//verif:timeout 400 2400
func VerifC14StartsEndsWith() {
	k := 1 + verifChoice("k", verifBound(2, 4))
	s, rs := c14Str("c", k, c14SAlpha())
	args, start, end, sub := c14SearchArgs(k)
	ends := verifChoice("ends", 2) == 1
	name := "startswith"
	if ends {
		name = "endswith"
	}
	got, err := c14Method(name).Call(s, args)
	verifReach("called")
	want := false
	if start <= end && end-start >= len(sub) {
		if ends {
			want = c14Find(rs, sub, end-len(sub), end) == end-len(sub)
		} else {
			want = c14Find(rs, sub, start, start+len(sub)) == start
		}
	}
	verifAssert(err == nil && got == Object(Bool(want)), "startswith / endswith test the code points of s[start:end]")
}

//verif:property C14
//verif:expect called
//verif:maxpaths 100000 1000000
func VerifC14ContainsCompare() {
	k := verifChoice("k", verifBound(3, 4))
	s, rs := c14Str("c", k, c14Alpha())
	k2 := verifChoice("k2", verifBound(3, 4))
	t, rt := c14Str("d", k2, c14Alpha())
	in, err := SequenceContains(s, t)
	verifReach("called")
	verifAssert(err == nil && in == (k2 == 0 || c14Find(rs, rt, 0, k) >= 0), "t in s iff t occurs as a run of code points")
	// ordering is lexicographic by code point
	less := false
	decided := false
	for i := 0; i < k && i < k2 && !decided; i++ {
		if rs[i] != rt[i] {
			less, decided = rs[i] < rt[i], true
		}
	}
	if !decided {
		less = k < k2
	}
	lt, err := Lt(s, t)
	verifAssert(err == nil && lt == Object(Bool(less)), "s < t compares code point by code point")
	eq, err := Eq(s, t)
	same := k == k2
	for i := 0; same && i < k; i++ {
		same = rs[i] == rt[i]
	}
	verifAssert(err == nil && eq == Object(Bool(same)), "s == t iff same code points")
}
