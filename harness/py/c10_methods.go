package py

// C10 — every method of every built-in type's attribute table, called on an
// instance (obj.m(args)) and through the type (T.m(args), where the first
// argument stands for self and may be of any type), with 0..3 arguments of
// any kinds. Nothing is asserted: a reachable Go panic is the violation.

type c10Recv struct {
	mk      func() Object
	typ     *Type
	methods []string
}

var c10Receivers = []c10Recv{
	{func() Object { return String("ab c") }, StringType, []string{"count", "endswith", "find", "join", "lower", "lstrip", "replace", "rstrip", "split", "startswith", "strip", "upper"}},
	{func() Object { return Bytes("ab c") }, BytesType, []string{"replace"}},
	{func() Object { return NewListFromItems([]Object{Int(2), Int(1)}) }, ListType, []string{"append", "extend", "sort"}},
	{func() Object { return StringDict{"a": Int(1)} }, StringDictType, []string{"get", "items", "keys", "values"}},
	{func() Object { return NewSetFromItems([]Object{Int(1)}) }, SetType, []string{"add"}},
	{func() Object { return Float(verifFloat64("recv_f")) }, FloatType, []string{"is_integer"}},
	{func() Object { return Complex(complex(1, 2)) }, ComplexType, []string{"conjugate", "real", "imag"}},
	{func() Object { return NewSlice(Int(1), None, None) }, SliceType, []string{"start", "stop", "step"}},
}

//verif:property C10
//verif:timeout 600 3600
//verif:maxpaths 600000 8000000
//verif:runinit github.com/go-python/gpython/py.init@type.go:1 github.com/go-python/gpython/py.init@exception.go:1 github.com/go-python/gpython/py.init@string.go:1 github.com/go-python/gpython/py.init@bytes.go:1 github.com/go-python/gpython/py.init@list.go:1 github.com/go-python/gpython/py.init@dict.go:1 github.com/go-python/gpython/py.init@set.go:1 github.com/go-python/gpython/py.init@float.go:1 github.com/go-python/gpython/py.init@complex.go:1 github.com/go-python/gpython/py.init@slice.go:1
//verif:havoc math.Pow math.Mod strconv.FormatFloat strconv.AppendFloat strconv.ParseFloat
//verif:expect called
func VerifC10Methods() {
	r := c10Receivers[verifChoice("recv", len(c10Receivers))]
	name := r.methods[verifChoice("method", len(r.methods))]
	var target Object
	if verifChoice("through_type", 2) == 1 {
		target = r.typ
	} else {
		target = r.mk()
	}
	m, err := GetAttrString(target, name)
	if err != nil {
		return
	}
	// keyword forms are explored with at most one positional argument
	kw := verifChoice("kw", 2) == 1
	maxArgs := verifBound(3, 4)
	if kw {
		maxArgs = 2
	}
	n := verifChoice("nargs", maxArgs)
	args := make(Tuple, n)
	for i := range args {
		if i == 2 {
			args[i] = c10Value("arg2", 5, false)
		} else {
			args[i] = VerifC10Compact("arg" + string(rune('0'+i)))
		}
	}
	var kwargs StringDict
	if kw {
		kwargs = StringDict{[]string{"key", "reverse", "sep", "x"}[verifChoice("kwname", 4)]: c10Value("kwval", 5, false)}
	}
	_, _ = Call(m, args, kwargs)
	verifReach("called")
	verifAssert(true, "the operation came back (value or error) without a Go panic, for every value of the symbolic operands on this path")
}
