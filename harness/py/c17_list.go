package py

// C17 — lists match a reference model over any history, with aliasing.
//
// One inductive step instead of histories: the pre-state is an arbitrary pool
// of three list variables x, y, z (y is either an alias of x or a list of its
// own; lengths, spare capacity behind the length and its stale contents are
// symbolic case splits), satisfying the representation invariant
//
//	R: the backing arrays (up to capacity) of distinct list objects are disjoint.
//
// One operation with arbitrary operands/arguments is applied through the public
// API. Afterwards (a) every variable holds exactly what the reference model
// holds, (b) the alias relation between variables is the model's, (c) R holds
// again (checked by scribbling over the full capacity of each list and looking
// at all the others). Since R is re-established by every operation, the step
// result extends to histories of any length over these operations.

type c17M struct{ items []Object }

type c17Pool struct {
	real  [3]*List
	model [3]*c17M
}

func c17Mk(name string, base, maxLen, spareN int) (*List, *c17M) {
	n := verifChoice(name+"_len", maxLen+1)
	extra := verifChoice(name+"_spare", spareN)
	full := make([]Object, n+extra)
	for i := range full {
		full[i] = Int(base + i)
	}
	items := full[:n]
	return &List{Items: items}, &c17M{items: append([]Object{}, items...)}
}

// c17PreSmall: the same shape with fewer case splits (for the operations whose
// own arguments already fork a lot): x has 0..B items and 0 or 2 spare slots,
// y is x or a list of 0..1 items with one spare slot, z has one item and one spare slot.
func c17PreSmall() *c17Pool {
	p := &c17Pool{}
	n := verifChoice("x_len", verifBound(2, 3)+1)
	extra := 2 * verifChoice("x_spare2", 2)
	p.real[0], p.model[0] = c17Fixed(100, n, extra)
	if verifChoice("y_alias_x", 2) == 1 {
		p.real[1], p.model[1] = p.real[0], p.model[0]
	} else {
		p.real[1], p.model[1] = c17Fixed(200, verifChoice("y_len", 2), 1)
	}
	p.real[2], p.model[2] = c17Fixed(300, 1, 1)
	return p
}

func c17Fixed(base, n, extra int) (*List, *c17M) {
	full := make([]Object, n+extra)
	for i := range full {
		full[i] = Int(base + i)
	}
	items := full[:n]
	return &List{Items: items}, &c17M{items: append([]Object{}, items...)}
}

func c17Pre() *c17Pool {
	p := &c17Pool{}
	p.real[0], p.model[0] = c17Mk("x", 100, verifBound(2, 3), 3)
	if verifChoice("y_alias_x", 2) == 1 {
		p.real[1], p.model[1] = p.real[0], p.model[0]
	} else {
		p.real[1], p.model[1] = c17Mk("y", 200, verifBound(2, 3), 2)
	}
	p.real[2], p.model[2] = c17Mk("z", 300, 1, 2)
	return p
}

func c17Same(got, want []Object) bool {
	if len(got) != len(want) {
		return false
	}
	for i := range want {
		if got[i] != want[i] {
			return false
		}
	}
	return true
}

func c17Post(p *c17Pool) {
	for i := 0; i < 3; i++ {
		verifAssert(c17Same(p.real[i].Items, p.model[i].items), "every variable holds what the model holds")
		for j := 0; j < i; j++ {
			verifAssert((p.real[i] == p.real[j]) == (p.model[i] == p.model[j]), "alias relation between variables matches the model")
		}
	}
	// representation invariant: no storage shared between distinct lists
	for i := 0; i < 3; i++ {
		a := p.real[i]
		full := a.Items[:cap(a.Items)]
		saved := append([]Object{}, full...)
		for k := range full {
			full[k] = Int(-9)
		}
		for j := 0; j < 3; j++ {
			if p.real[j] != a {
				verifAssert(c17Same(p.real[j].Items, p.model[j].items), "writing through one list (up to its capacity) never changes a distinct list")
			}
		}
		copy(full, saved)
	}
}

func c17Slot(name string) int { return verifChoice(name, 3) }

func c17CallMethod(self Object, name string, args Tuple, kwargs StringDict) (Object, error) {
	m, err := GetAttrString(self, name)
	if err != nil {
		return nil, err
	}
	return Call(m, args, kwargs)
}

//verif:property C17
//verif:maxpaths 400000 4000000
//verif:runinit github.com/go-python/gpython/py.init@list.go:1
//verif:expect called
func VerifC17Append() {
	p := c17Pre()
	s := c17Slot("s")
	v := Int(777)
	r, err := c17CallMethod(p.real[s], "append", Tuple{v}, nil)
	verifReach("called")
	verifAssert(err == nil && r == None, "append returns None")
	p.model[s].items = append(p.model[s].items, v)
	c17Post(p)
}

// extend with a list (possibly itself) or another iterable
//
//verif:property C17
//verif:maxpaths 400000 4000000
//verif:runinit github.com/go-python/gpython/py.init@list.go:1
//verif:expect called
func VerifC17Extend() {
	p := c17Pre()
	s := c17Slot("s")
	var arg Object
	var add []Object
	switch verifChoice("arg", 3) {
	case 0:
		t := c17Slot("t")
		arg, add = p.real[t], append([]Object{}, p.model[t].items...)
	case 1:
		add = []Object{Int(901), Int(902)}
		arg = Tuple(append([]Object{}, add...))
	case 2:
		t := c17Slot("t")
		it, err := Iter(p.real[t])
		verifAssert(err == nil, "iter")
		arg = it
		if t == s || p.real[t] == p.real[s] {
			return // an iterator over the list being extended never ends in Python either
		}
		add = append([]Object{}, p.model[t].items...)
	}
	r, err := c17CallMethod(p.real[s], "extend", Tuple{arg}, nil)
	verifReach("called")
	verifAssert(err == nil && r == None, "extend returns None")
	p.model[s].items = append(p.model[s].items, add...)
	c17Post(p)
}

// s += t : in place, the result is s itself
//
//verif:property C17
//verif:maxpaths 400000 4000000
//verif:expect called
func VerifC17IAdd() {
	p := c17Pre()
	s := c17Slot("s")
	var arg Object
	var add []Object
	if verifChoice("arg", 2) == 0 {
		t := c17Slot("t")
		arg, add = p.real[t], append([]Object{}, p.model[t].items...)
	} else {
		add = []Object{Int(901), Int(902)}
		arg = Tuple(append([]Object{}, add...))
	}
	r, err := IAdd(p.real[s], arg)
	verifReach("called")
	verifAssert(err == nil, "no error")
	verifAssert(r == Object(p.real[s]), "+= yields the list itself")
	p.model[s].items = append(p.model[s].items, add...)
	c17Post(p)
}

// s *= k : in place, the result is s itself
//
//verif:property C17
//verif:maxpaths 400000 4000000
//verif:encoding int
//verif:expect called
func VerifC17IMul() {
	p := c17Pre()
	s := c17Slot("s")
	k := verifInt64("k")
	verifAssume(k <= 3)
	r, err := IMul(p.real[s], Int(k))
	verifReach("called")
	verifAssert(err == nil, "no error")
	verifAssert(r == Object(p.real[s]), "*= yields the list itself")
	old := append([]Object{}, p.model[s].items...)
	p.model[s].items = nil
	for q := int64(0); q < k; q++ {
		p.model[s].items = append(p.model[s].items, old...)
	}
	c17Post(p)
}

// z = s + t, z = s * k, z = list(s), z = s[:] : fresh lists
//
//verif:property C17
//verif:maxpaths 400000 4000000
//verif:encoding int
//verif:expect called
func VerifC17Fresh() {
	p := c17Pre()
	s := c17Slot("s")
	var r Object
	var err error
	var want []Object
	switch verifChoice("how", 5) {
	case 0:
		t := c17Slot("t")
		r, err = Add(p.real[s], p.real[t])
		want = append(append([]Object{}, p.model[s].items...), p.model[t].items...)
	case 1:
		k := verifInt64("k")
		verifAssume(k <= 3)
		r, err = Mul(p.real[s], Int(k))
		for q := int64(0); q < k; q++ {
			want = append(want, p.model[s].items...)
		}
	case 2:
		r, err = ListNew(ListType, Tuple{p.real[s]}, nil)
		want = append([]Object{}, p.model[s].items...)
	case 3:
		r, err = GetItem(p.real[s], NewSlice(None, None, None))
		want = append([]Object{}, p.model[s].items...)
	case 4:
		r = p.real[s].Copy()
		want = append([]Object{}, p.model[s].items...)
	}
	verifReach("called")
	verifAssert(err == nil, "no error")
	l, ok := r.(*List)
	verifAssert(ok, "result is a list")
	for i := 0; i < 3; i++ {
		verifAssert(l != p.real[i], "result is a new object")
	}
	// bind it to z
	p.real[2], p.model[2] = l, &c17M{items: want}
	c17Post(p)
	// and a later in-place growth of the result must not reach the operands either
	l.Append(Int(555))
	p.model[2].items = append(p.model[2].items, Int(555))
	c17Post(p)
}

// s[i] = v ; del s[i]
//
//verif:property C17
//verif:maxpaths 400000 4000000
//verif:encoding int
//verif:expect called
func VerifC17ItemStore() {
	p := c17Pre()
	s := c17Slot("s")
	i := c13Bound("i", 1)
	n := len(p.model[s].items)
	pos := c13RefIndex(n, i)
	var err error
	del := verifChoice("del", 2) == 1
	if del {
		_, err = DelItem(p.real[s], i.obj)
	} else {
		_, err = SetItem(p.real[s], i.obj, Int(777))
	}
	verifReach("called")
	if pos < 0 {
		verifAssert(err != nil && c07ErrIs(err, IndexError), "IndexError outside the list")
	} else {
		verifAssert(err == nil, "no error")
		if del {
			m := p.model[s]
			m.items = append(append([]Object{}, m.items[:pos]...), m.items[pos+1:]...)
		} else {
			p.model[s].items[pos] = Int(777)
		}
	}
	c17Post(p)
}

// s[a:b:k] = t where t is any of the lists, s included
//
//verif:property C17
//verif:maxpaths 400000 4000000
//verif:encoding int
//verif:expect called
func VerifC17SliceStore() {
	p := c17PreSmall()
	s := c17Slot("s")
	t := c17Slot("t")
	a, b, k := c13Bound("start", 2), c13Bound("stop", 2), c13Bound("step", 2)
	n := len(p.model[s].items)
	vals := append([]Object{}, p.model[t].items...)
	_, err := SetItem(p.real[s], NewSlice(a.obj, b.obj, k.obj), p.real[t])
	verifReach("called")
	ref, zero := c13RefIndices(n, a, b, k)
	items := p.model[s].items
	switch {
	case zero:
		verifAssert(err != nil && c07ErrIs(err, ValueError), "zero step raises ValueError")
	case k.none || k.v.Cmp(bigOf(1)) == 0:
		lo := n
		if len(ref) > 0 {
			lo = ref[0]
		} else {
			e, _ := c13RefIndices(n, a, c13B{none: true}, c13B{none: true})
			if len(e) > 0 {
				lo = e[0]
			}
		}
		want := append([]Object{}, items[:lo]...)
		want = append(want, vals...)
		want = append(want, items[lo+len(ref):]...)
		verifAssert(err == nil, "no error")
		p.model[s].items = want
	case len(ref) != len(vals):
		verifAssert(err != nil && c07ErrIs(err, ValueError), "extended slice size mismatch raises ValueError")
	default:
		verifAssert(err == nil, "no error")
		want := append([]Object{}, items...)
		for q, x := range ref {
			want[x] = vals[q]
		}
		p.model[s].items = want
	}
	c17Post(p)
}

// del s[a:b:k]
//
//verif:property C17
//verif:maxpaths 400000 4000000
//verif:encoding int
//verif:expect called
func VerifC17SliceDelete() {
	p := c17PreSmall()
	s := c17Slot("s")
	a, b, k := c13Bound("start", 2), c13Bound("stop", 2), c13Bound("step", 2)
	n := len(p.model[s].items)
	_, err := DelItem(p.real[s], NewSlice(a.obj, b.obj, k.obj))
	verifReach("called")
	ref, zero := c13RefIndices(n, a, b, k)
	if zero {
		verifAssert(err != nil && c07ErrIs(err, ValueError), "zero step raises ValueError")
	} else {
		verifAssert(err == nil, "no error")
		del := make([]bool, n)
		for _, x := range ref {
			del[x] = true
		}
		var want []Object
		for i, it := range p.model[s].items {
			if !del[i] {
				want = append(want, it)
			}
		}
		p.model[s].items = want
	}
	c17Post(p)
}

// s.sort(reverse=...) on a permuted list of ints
//
//verif:property C17
//verif:maxpaths 400000 4000000
//verif:runinit github.com/go-python/gpython/py.init@list.go:1
//verif:expect called
func VerifC17Sort() {
	p := c17Pre()
	s := c17Slot("s")
	// permute first so that sorting has something to do
	m := p.model[s]
	if len(m.items) >= 2 && verifChoice("swap01", 2) == 1 {
		m.items[0], m.items[1] = m.items[1], m.items[0]
		p.real[s].Items[0], p.real[s].Items[1] = p.real[s].Items[1], p.real[s].Items[0]
	}
	if len(m.items) >= 3 && verifChoice("swap12", 2) == 1 {
		m.items[1], m.items[2] = m.items[2], m.items[1]
		p.real[s].Items[1], p.real[s].Items[2] = p.real[s].Items[2], p.real[s].Items[1]
	}
	rev := verifChoice("reverse", 2) == 1
	kw := StringDict{}
	if rev {
		kw["reverse"] = True
	}
	r, err := c17CallMethod(p.real[s], "sort", nil, kw)
	verifReach("called")
	verifAssert(err == nil && r == None, "sort returns None")
	w := append([]Object{}, m.items...)
	for i := 1; i < len(w); i++ {
		for j := i; j > 0; j-- {
			x, y := w[j-1].(Int), w[j].(Int)
			if (!rev && y < x) || (rev && y > x) {
				w[j-1], w[j] = w[j], w[j-1]
			}
		}
	}
	m.items = w
	c17Post(p)
}

// observations: len, ==, membership, s[i], iteration
//
//verif:property C17
//verif:maxpaths 400000 4000000
//verif:encoding int
//verif:expect called
func VerifC17Observe() {
	p := c17Pre()
	s := c17Slot("s")
	ms := p.model[s].items
	switch verifChoice("what", 5) {
	case 0:
		n, err := Len(p.real[s])
		verifAssert(err == nil && n == Object(Int(len(ms))), "len")
	case 1:
		t := c17Slot("t")
		mt := p.model[t].items
		r, err := Eq(p.real[s], p.real[t])
		verifAssert(err == nil, "no error")
		verifAssert(r == Object(NewBool(c17Same(ms, mt))), "== compares contents")
		r, err = Ne(p.real[s], p.real[t])
		verifAssert(err == nil && r == Object(NewBool(!c17Same(ms, mt))), "!= is its negation")
	case 2:
		v := verifInt64("v")
		in := false
		for _, it := range ms {
			if it.(Int) == Int(v) {
				in = true
			}
		}
		got, err := SequenceContains(p.real[s], Int(v))
		verifAssert(err == nil && got == in, "membership")
	case 3:
		i := c13Bound("i", 1)
		pos := c13RefIndex(len(ms), i)
		r, err := GetItem(p.real[s], i.obj)
		if pos < 0 {
			verifAssert(err != nil && c07ErrIs(err, IndexError), "IndexError outside the list")
		} else {
			verifAssert(err == nil && r == ms[pos], "s[i]")
		}
	case 4:
		var got []Object
		err := Iterate(p.real[s], func(o Object) bool { got = append(got, o); return false })
		verifAssert(err == nil && c17Same(got, ms), "iteration yields the items in order")
	}
	verifReach("called")
	c17Post(p)
}

// A list iterator reads the list at each step: mutations made between two
// next() calls (through any alias) are seen, as in the reference: the iterator
// yields s[pos] while pos < len(s).
//
//verif:property C17
//verif:maxpaths 400000 4000000
//verif:runinit github.com/go-python/gpython/py.init@list.go:1
//verif:expect called
func VerifC17IterateWhileMutating() {
	p := c17PreSmall()
	s := c17Slot("s")
	it, err := Iter(p.real[s])
	verifAssert(err == nil, "iter")
	pos := 0
	done := false
	for step := 0; step < verifBound(2, 3); step++ {
		// an optional mutation through any variable
		t := c17Slot("mut_var" + string(rune('0'+step)))
		switch verifChoice("mut"+string(rune('0'+step)), 4) {
		case 1:
			p.real[t].Append(Int(600 + step))
			p.model[t].items = append(p.model[t].items, Int(600+step))
		case 2:
			if len(p.model[t].items) > 0 {
				_, err := DelItem(p.real[t], Int(0))
				verifAssert(err == nil, "del")
				p.model[t].items = append([]Object{}, p.model[t].items[1:]...)
			}
		case 3:
			_, err := SetItem(p.real[t], NewSlice(None, None, None), Tuple{Int(700 + step)})
			verifAssert(err == nil, "slice assign")
			p.model[t].items = []Object{Int(700 + step)}
		}
		v, err := Next(it)
		ms := p.model[s].items
		if done || pos >= len(ms) {
			done = true
			verifAssert(err != nil && IsException(StopIteration, err), "exhausted iterator raises StopIteration")
		} else {
			verifAssert(err == nil && v == ms[pos], "next() yields the current s[pos]")
			pos++
		}
	}
	verifReach("called")
	c17Post(p)
}
