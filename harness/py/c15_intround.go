package py

import "math/big"

// C15 / C07 — round(n, -k) on integers: the multiple of 10**k nearest to n,
// ties to the even multiple, exact for every magnitude and either
// representation (round(25, -1) == 20, round(35, -1) == 40, round(-15, -1) == -20);
// a non-negative ndigits leaves n alone.

//verif:property C15 C07
//verif:encoding int
//verif:expect called
func VerifC15IntRound() {
	a, av := c07Operand("a", verifBound(70, 100), 3)
	k := int64(verifChoice("k", 5)) - 1 // -1 (ndigits = +1), 0, 1, 2, 3
	var nd Object = Int(-k)
	rounder, ok := a.(I__round__)
	verifAssert(ok, "integers define __round__")
	got, err := rounder.M__round__(nd)
	verifReach("called")
	verifAssert(err == nil, "no error")
	if k <= 0 {
		verifAssert(c07Same(got, av), "rounding to a non-negative number of digits leaves an integer alone")
		return
	}
	s := big.NewInt(10)
	for i := int64(1); i < k; i++ {
		s.Mul(s, big.NewInt(10))
	}
	q, rem := new(big.Int).DivMod(av, s, new(big.Int)) // floor division: 0 <= rem < s
	lo := new(big.Int).Sub(av, rem)                    // the multiple at or below
	hi := new(big.Int).Add(lo, s)
	twice := new(big.Int).Lsh(rem, 1)
	want := lo
	switch twice.Cmp(s) {
	case 1:
		want = hi
	case 0:
		if new(big.Int).Mod(q, big.NewInt(2)).Sign() != 0 {
			want = hi // q odd: the even multiple is the one above
		}
	}
	verifAssert(c07Same(got, want), "round(n, -k) is the nearest multiple of 10**k, ties to even")
	verifAssert(c07Unchanged(a, av), "operand unchanged")
}
