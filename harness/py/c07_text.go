package py

import "math/big"

// C07 / C06 — conversion from text: int(s, base) for base in {0,2,8,10,16}
// on symbolic strings. The oracle is the literal grammar of the language
// reference: [sign] [prefix] digit+ ; the prefix 0x/0o/0b is accepted iff it
// agrees with the base (or the base is 0), base 0 without prefix is decimal
// and then forbids leading zeros on non-zero numbers.

func c07RefParse(s string, base int) (*big.Int, bool) {
	if len(s) == 0 {
		return nil, false
	}
	neg := false
	if s[0] == '+' || s[0] == '-' {
		neg = s[0] == '-'
		s = s[1:]
	}
	if len(s) == 0 {
		return nil, false
	}
	b := base
	if len(s) >= 2 && s[0] == '0' {
		p := 0
		switch s[1] {
		case 'x', 'X':
			p = 16
		case 'o', 'O':
			p = 8
		case 'b', 'B':
			p = 2
		}
		if p != 0 && (base == 0 || base == p) {
			b = p
			s = s[2:]
		}
	}
	if b == 0 {
		b = 10
		// decimal literal: no leading zeros unless the number is zero
		if len(s) > 1 && s[0] == '0' {
			v, ok := verifParseDigits(s, 10)
			if !ok || v.Sign() != 0 {
				return nil, false
			}
			return v, true
		}
	}
	v, ok := verifParseDigits(s, b)
	if !ok {
		return nil, false
	}
	if neg {
		v.Neg(v)
	}
	return v, true
}

func c07Text(n int, base int) {
	s := verifString("s", n)
	for i := 0; i < n; i++ {
		// printable, non-space ASCII (surrounding whitespace is stripped by int(); not explored here)
		verifAssume(s[i] > ' ')
		verifAssume(s[i] < 0x7f)
		verifAssume(s[i] != '_')
	}
	got, err := IntFromString(s, base)
	verifReach("called")
	want, ok := c07RefParse(s, base)
	if !ok {
		verifAssert(err != nil && c07ErrIs(err, ValueError), "malformed literal raises ValueError")
		return
	}
	verifAssert(err == nil, "well-formed literal converts")
	verifAssert(c07Same(got, want), "exact value of the literal")
}

//verif:property C07 C06
//verif:expect called
//verif:encoding int
func VerifC07TextShort() {
	n := 1 + verifChoice("n", verifBound(4, 6))
	base := [5]int{0, 2, 8, 10, 16}[verifChoice("base", 5)]
	c07Text(n, base)
}

//verif:property C07 C06
//verif:expect called
//verif:encoding int
func VerifC07TextLong() {
	// around the word boundary: 15..20 characters
	n := 15 + verifChoice("n", verifBound(4, 6))
	base := [3]int{0, 10, 16}[verifChoice("base", 3)]
	c07Text(n, base)
}

// ---- conversion TO text: str(n), repr(n) ----
//
// The text of an integer is unique: an optional '-', then (after the prefix, if
// any) the digits of |n| in the base without a leading zero (the single digit
// "0" for zero), lower case. c07CanonText states exactly that by reading the
// text back.
func c07CanonText(s string, prefix string, base int, v *big.Int) bool {
	neg := v.Sign() < 0
	if neg {
		if len(s) == 0 || s[0] != '-' {
			return false
		}
		s = s[1:]
	}
	if len(s) < len(prefix) || s[:len(prefix)] != prefix {
		return false
	}
	s = s[len(prefix):]
	if len(s) == 0 {
		return false
	}
	if len(s) > 1 && s[0] == '0' {
		return false
	}
	for i := 0; i < len(s); i++ {
		if s[i] >= 'A' && s[i] <= 'Z' {
			return false
		}
	}
	got, ok := verifParseDigits(s, base)
	if !ok {
		return false
	}
	return got.Cmp(new(big.Int).Abs(v)) == 0
}

//verif:havoc int:text
//verif:property C07
//verif:encoding int
//verif:expect called
func VerifC07ToText() {
	a, av := c07Operand("a", verifBound(70, 100), 3)
	var got Object
	var err error
	how := verifChoice("how", 2)
	if how == 0 {
		got, err = Str(a)
	} else {
		got, err = Repr(a)
	}
	verifReach("called")
	verifAssert(err == nil, "no error")
	s, ok := got.(String)
	verifAssert(ok, "str()/repr() of an integer is a string")
	if _, isBool := a.(Bool); isBool {
		if av.Sign() != 0 {
			verifAssert(s == "True", "str(True)")
		} else {
			verifAssert(s == "False", "str(False)")
		}
		return
	}
	verifAssert(c07CanonText(string(s), "", 10, av), "str(n) is the canonical decimal text of n")
	// and back again
	back, err := IntFromString(string(s), 10)
	verifAssert(err == nil && c07Same(back, av), "int(str(n)) == n")
}
