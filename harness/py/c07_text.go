package py

import "math/big"

// C07 / C06 — conversion from text: int(s, base) for base in {0,2,8,10,16}
// on symbolic strings. The oracle is the literal grammar of the language
// reference: [sign] [prefix] digit+ ; the prefix 0x/0o/0b is accepted iff it
// agrees with the base (or the base is 0), base 0 without prefix is decimal
// and then forbids leading zeros on non-zero numbers.

func c07RefParse(s string, base int) (*big.Int, bool) {
	if len(s) == 0 {
		return nil, false
	}
	neg := false
	if s[0] == '+' || s[0] == '-' {
		neg = s[0] == '-'
		s = s[1:]
	}
	if len(s) == 0 {
		return nil, false
	}
	b := base
	if len(s) >= 2 && s[0] == '0' {
		p := 0
		switch s[1] {
		case 'x', 'X':
			p = 16
		case 'o', 'O':
			p = 8
		case 'b', 'B':
			p = 2
		}
		if p != 0 && (base == 0 || base == p) {
			b = p
			s = s[2:]
		}
	}
	if b == 0 {
		b = 10
		// decimal literal: no leading zeros unless the number is zero
		if len(s) > 1 && s[0] == '0' {
			v, ok := verifParseDigits(s, 10)
			if !ok || v.Sign() != 0 {
				return nil, false
			}
			return v, true
		}
	}
	v, ok := verifParseDigits(s, b)
	if !ok {
		return nil, false
	}
	if neg {
		v.Neg(v)
	}
	return v, true
}

func c07Text(n int, base int) {
	s := verifString("s", n)
	for i := 0; i < n; i++ {
		// printable, non-space ASCII (surrounding whitespace is stripped by int(); not explored here)
		verifAssume(s[i] > ' ')
		verifAssume(s[i] < 0x7f)
		verifAssume(s[i] != '_')
	}
	got, err := IntFromString(s, base)
	verifReach("called")
	want, ok := c07RefParse(s, base)
	if !ok {
		verifAssert(err != nil && c07ErrIs(err, ValueError), "malformed literal raises ValueError")
		return
	}
	verifAssert(err == nil, "well-formed literal converts")
	verifAssert(c07Same(got, want), "exact value of the literal")
}

//verif:property C07 C06
//verif:expect called
//verif:encoding int
func VerifC07TextShort() {
	n := 1 + verifChoice("n", verifBound(4, 6))
	base := [5]int{0, 2, 8, 10, 16}[verifChoice("base", 5)]
	c07Text(n, base)
}

//verif:property C07 C06
//verif:expect called
//verif:encoding int
func VerifC07TextLong() {
	// around the word boundary: 15..20 characters
	n := 15 + verifChoice("n", verifBound(4, 6))
	base := [3]int{0, 10, 16}[verifChoice("base", 3)]
	c07Text(n, base)
}
