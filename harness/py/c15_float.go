package py

import (
	"math"
	"math/big"
)

// C15 — float and mixed int/float arithmetic. Doubles are arbitrary bit
// patterns (SMT floating-point terms), ints as in C07.

func c15IntOperand(name string, bits int) (Object, *big.Int) { return c07Operand(name, bits, 2) }

// exact integer -> nearest double (ties to even), the reference for int->float
func c15ToFloat(v *big.Int) (float64, bool) {
	f, _ := new(big.Float).SetInt(v).Float64()
	return f, !math.IsInf(f, 0)
}

//verif:property C15
//verif:expect called
func VerifC15IntToFloat() {
	a, av := c15IntOperand("a", verifBound(80, 127))
	got, err := MakeFloat(a)
	verifReach("called")
	verifAssert(err == nil, "no error")
	g, ok := got.(Float)
	verifAssert(ok, "float() of an int is a float")
	want := verifBigToFloat(av)
	verifAssert(float64(g) == want, "int to float conversion rounds to nearest, ties to even")
}

// the top of the double range: integers m * 2^e with a symbolic 64-bit m and
// e up to 960 reach past 2^1024. Those that round to a finite double convert
// to it, the others (from 2^1024 - 2^970 on, where rounding to nearest goes to
// 2^1024) raise OverflowError - never infinity.
//
//verif:property C15
//verif:bigw 1100
//verif:expect called
func VerifC15IntToFloatHuge() {
	m := verifUint64("m")
	e := []uint{900, 959, 960, 961, 970}[verifChoice("e", 5)]
	v := new(big.Int).SetUint64(m)
	v.Lsh(v, e)
	if verifBool("neg") {
		v.Neg(v)
	}
	a := (*BigInt)(new(big.Int).Set(v))
	got, err := MakeFloat(a)
	verifReach("called")
	want := verifBigToFloat(v)
	if math.IsInf(want, 0) {
		verifAssert(err != nil && c07ErrIs(err, OverflowError), "an int too large for a double raises OverflowError")
		return
	}
	verifAssert(err == nil, "an int that rounds to a finite double converts")
	g, ok := got.(Float)
	verifAssert(ok && float64(g) == want, "int to float conversion rounds to nearest, ties to even, up to the largest double")
}

// exact comparison of an integer with a double, from first principles:
// for integer n and finite f:  n < f  <=>  n < ceil(f);  n > f <=> n > floor(f); n == f <=> f integral and n == f
func c15Cmp(av *big.Int, f float64) (lt, eq, gt bool) {
	if math.IsNaN(f) {
		return false, false, false
	}
	if math.IsInf(f, 1) {
		return true, false, false
	}
	if math.IsInf(f, -1) {
		return false, false, true
	}
	lim := math.Ldexp(1, 126)
	if f >= lim {
		return true, false, false // |a| < 2^127 and we only need a < 2^126 <= f ... guarded by assumption below
	}
	if f <= -lim {
		return false, false, true
	}
	c := verifFloatToBig(math.Ceil(f))
	fl := verifFloatToBig(math.Floor(f))
	lt = av.Cmp(c) < 0
	gt = av.Cmp(fl) > 0
	eq = !lt && !gt
	return
}

func c15CmpHarness(op func(a, b Object) (Object, error), pick func(lt, eq, gt bool) bool, intFirst bool) {
	a, av := c15IntOperand("a", verifBound(80, 120))
	f := verifFloat64("f")
	var got Object
	var err error
	if intFirst {
		got, err = op(a, Float(f))
	} else {
		got, err = op(Float(f), a)
	}
	verifReach("called")
	verifAssert(err == nil, "no error")
	g, ok := got.(Bool)
	verifAssert(ok, "comparison returns a bool")
	lt, eq, gt := c15Cmp(av, f)
	if !intFirst {
		lt, gt = gt, lt
	}
	verifAssert(bool(g) == pick(lt, eq, gt), "int/float comparison is exact")
}

//verif:property C15
//verif:expect called
func VerifC15CmpLt() { c15CmpHarness(Lt, func(lt, eq, gt bool) bool { return lt }, true) }

//verif:property C15
//verif:expect called
func VerifC15CmpLe() { c15CmpHarness(Le, func(lt, eq, gt bool) bool { return lt || eq }, true) }

//verif:property C15
//verif:expect called
func VerifC15CmpEq() { c15CmpHarness(Eq, func(lt, eq, gt bool) bool { return eq }, true) }

//verif:property C15
//verif:expect called
func VerifC15CmpNe() {
	c15CmpHarness(Ne, func(lt, eq, gt bool) bool { return !eq }, true)
}

//verif:property C15
//verif:expect called
func VerifC15CmpGtR() { c15CmpHarness(Gt, func(lt, eq, gt bool) bool { return gt }, false) }

//verif:property C15
//verif:expect called
func VerifC15CmpGeR() { c15CmpHarness(Ge, func(lt, eq, gt bool) bool { return gt || eq }, false) }

//verif:property C15
//verif:expect called
func VerifC15FloatToInt() {
	f := verifFloat64("f")
	got, err := MakeInt(Float(f))
	verifReach("called")
	if math.IsNaN(f) {
		verifAssert(err != nil && c07ErrIs(err, ValueError), "int(nan) raises ValueError")
		return
	}
	if math.IsInf(f, 0) {
		verifAssert(err != nil && c07ErrIs(err, OverflowError), "int(inf) raises OverflowError")
		return
	}
	// finite: truncation toward zero, exact. Bound: |f| < 2^120 (big int model width)
	verifAssume(math.Abs(f) < math.Ldexp(1, 120))
	verifAssert(err == nil, "no error")
	want := verifFloatToBig(math.Trunc(f))
	verifAssert(c07Same(got, want), "float to int truncates exactly")
}

func c15ZeroDiv(op func(a, b Object) (Object, error)) {
	f := verifFloat64("a")
	z := verifFloat64("z")
	verifAssume(z == 0) // +0.0 or -0.0
	var a Object = Float(f)
	if verifChoice("a_int", 2) == 1 {
		a = Int(verifInt64("ai"))
	}
	_, err := op(a, Float(z))
	verifReach("called")
	verifAssert(err != nil && c07ErrIs(err, ZeroDivisionError), "zero divisor raises ZeroDivisionError")
}

//verif:property C15
//verif:expect called
func VerifC15ZeroDivTrue() { c15ZeroDiv(TrueDiv) }

//verif:property C15
//verif:expect called
func VerifC15ZeroDivFloor() { c15ZeroDiv(FloorDiv) }

//verif:property C15
//verif:expect called
func VerifC15ZeroDivMod() { c15ZeroDiv(Mod) }

//verif:property C15
//verif:expect called
func VerifC15ZeroDivDivMod() {
	c15ZeroDiv(func(a, b Object) (Object, error) {
		q, _, err := DivMod(a, b)
		return q, err
	})
}

// float (op) float is the IEEE operation; mixed operands convert the int first
func c15Arith(op func(a, b Object) (Object, error), ref func(x, y float64) float64, div bool) {
	x := verifFloat64("x")
	y := verifFloat64("y")
	var a, b Object = Float(x), Float(y)
	switch verifChoice("mix", 3) {
	case 1:
		i := verifInt64("i")
		a, x = Int(i), float64(i)
	case 2:
		i := verifInt64("i")
		b, y = Int(i), float64(i)
	}
	got, err := op(a, b)
	verifReach("called")
	if div && y == 0 {
		verifAssert(err != nil && c07ErrIs(err, ZeroDivisionError), "zero divisor raises ZeroDivisionError")
		return
	}
	verifAssert(err == nil, "no error")
	g, ok := got.(Float)
	verifAssert(ok, "result is a float")
	want := ref(x, y)
	verifAssert(float64(g) == want || (math.IsNaN(float64(g)) && math.IsNaN(want)), "IEEE-754 result")
}

//verif:property C15
//verif:expect called
func VerifC15Add() { c15Arith(Add, func(x, y float64) float64 { return x + y }, false) }

//verif:property C15
//verif:expect called
func VerifC15Sub() { c15Arith(Sub, func(x, y float64) float64 { return x - y }, false) }

//verif:property C15
//verif:expect called
func VerifC15Mul() { c15Arith(Mul, func(x, y float64) float64 { return x * y }, false) }

//verif:property C15
//verif:expect called
func VerifC15TrueDiv() { c15Arith(TrueDiv, func(x, y float64) float64 { return x / y }, true) }

//verif:property C15
//verif:expect called
func VerifC15Round() {
	f := verifFloat64("f")
	verifAssume(math.Abs(f) < math.Ldexp(1, 62)) // result fits a word; larger magnitudes are already integral
	got, err := Float(f).M__round__(None)
	verifReach("called")
	verifAssert(err == nil, "no error")
	want := verifFloatToBig(math.RoundToEven(f))
	verifAssert(c07Same(got, want), "round(x) is the nearest integer, ties to even, as an int")
}

// round(x, n) for n >= 0 rounds x to n decimal places (correctly: the exact
// value of x, ties to even, then the nearest double). Decimal conversion has no
// SMT counterpart, so strconv.FormatFloat / ParseFloat are a contract model
// (DESIGN.md 8.3) and what is decided is what correct rounding implies whatever
// the digits: the result is a float with the sign of x, is zero when |x| is
// below 0.4 units of the last place kept and not zero above 0.6 of one, stays
// within half a unit (and one rounding error) of x, and leaves an integral x
// alone - for every finite x and n in a list that spans 0 .. 401.
//
//verif:property C15
//verif:havoc strconv.FormatFloat:contract
//verif:timeout 600 2400
//verif:expect called
func VerifC15RoundDigits() {
	f := verifFloat64("f")
	verifAssume(!math.IsNaN(f) && !math.IsInf(f, 0))
	digits := []int{0, 2, 17, 18, 300, 324, 401, 1, 15, 21, 100, 323, 400} // quick: the first seven
	d := digits[verifChoice("ndigits", verifBound(7, len(digits)))]
	var nd Object = Int(d)
	if verifChoice("ndigits_rep", 2) == 1 {
		nd = (*BigInt)(big.NewInt(int64(d)))
	}
	got, err := Float(f).M__round__(nd)
	verifReach("called")
	verifAssert(err == nil, "no error")
	g, ok := got.(Float)
	verifAssert(ok, "round(x, n) of a float is a float")
	r := float64(g)
	u := math.Pow(10, float64(-d)) // one unit of the last place kept (0 when it underflows)
	verifAssert(!math.IsNaN(r) && !math.IsInf(r, 0), "the result is finite")
	verifAssert(math.Signbit(r) == math.Signbit(f), "the result keeps the sign of x (a zero result too)")
	if math.Abs(f) < 0.4*u {
		verifAssert(r == 0, "a value below half a unit of the last place kept rounds to zero")
	}
	if math.Abs(f) > 0.6*u {
		verifAssert(r != 0, "a value above half a unit of the last place kept does not round to zero")
	}
	verifAssert(math.Abs(r-f) <= 0.52*u+math.Abs(f)*math.Ldexp(1, -51), "the result is within half a unit of the last place kept of x")
	if f == math.Trunc(f) {
		verifAssert(r == f, "an integral value is left alone")
	}
}

// the text of the values that are not finite, and of the zeros: inf, -inf, nan
// (whatever the NaN's payload and sign), 0.0 and -0.0, for str and repr alike.
// (The digits of finite values come from strconv's shortest formatting, which
// has no SMT counterpart: outside, see DESIGN.md 8.8.)
//
//verif:property C15
//verif:havoc strconv.FormatFloat:shortest
//verif:expect called
func VerifC15SpecialText() {
	f := verifFloat64("f")
	verifAssume(math.IsNaN(f) || math.IsInf(f, 0) || f == 0)
	var got Object
	var err error
	if verifChoice("how", 2) == 0 {
		got, err = Str(Float(f))
	} else {
		got, err = Repr(Float(f))
	}
	verifReach("called")
	verifAssert(err == nil, "no error")
	s, ok := got.(String)
	verifAssert(ok, "the text of a float is a string")
	switch {
	case math.IsNaN(f):
		verifAssert(s == "nan", "nan is spelled nan")
	case math.IsInf(f, 1):
		verifAssert(s == "inf", "positive infinity is spelled inf")
	case math.IsInf(f, -1):
		verifAssert(s == "-inf", "negative infinity is spelled -inf")
	case math.Signbit(f):
		verifAssert(s == "-0.0", "negative zero is spelled -0.0")
	default:
		verifAssert(s == "0.0", "zero is spelled 0.0")
	}
}

// the text of a finite non-zero float: Python lays the shortest decimal that
// converts back (d0.d1d2... * 10^X, strconv's job: abstract here, DESIGN.md 8.8)
// out as follows: with X < -4 or X >= 16 in exponent form d0[.d1...]e+XX (sign
// always, two exponent digits at least); otherwise in positional form, with
// ".0" added when no fraction digits remain. Decided: gpython's text is exactly
// that layout of the same digits, for every digit count 1..17 and every
// exponent -324..308, either sign, str and repr alike.
//
//verif:property C15
//verif:havoc strconv.FormatFloat:shortest
//verif:maxpaths 40000 200000
//verif:timeout 400 1500
//verif:expect called
func VerifC15FloatText() {
	f := verifFloat64("f")
	verifAssume(!math.IsNaN(f) && !math.IsInf(f, 0) && f != 0)
	neg, digits, x := verifShortest(f)
	var got Object
	var err error
	if verifChoice("how", 2) == 0 {
		got, err = Str(Float(f))
	} else {
		got, err = Repr(Float(f))
	}
	verifReach("called")
	verifAssert(err == nil, "no error")
	s, ok := got.(String)
	verifAssert(ok, "the text of a float is a string")
	want := ""
	if neg {
		want = "-"
	}
	n := len(digits)
	switch {
	case x < -4 || x >= 16:
		want += digits[:1]
		if n > 1 {
			want += "." + digits[1:]
		}
		ax := x
		if x < 0 {
			want += "e-"
			ax = -x
		} else {
			want += "e+"
		}
		if ax >= 100 {
			want += string([]byte{byte('0' + ax/100)})
		}
		want += string([]byte{byte('0' + ax/10%10), byte('0' + ax%10)})
	case x < 0:
		want += "0."
		for i := 0; i < -x-1; i++ {
			want += "0"
		}
		want += digits
	default:
		for i := 0; i <= x; i++ {
			if i < n {
				want += digits[i : i+1]
			} else {
				want += "0"
			}
		}
		if n > x+1 {
			want += "." + digits[x+1:]
		} else {
			want += ".0"
		}
	}
	verifAssert(string(s) == want, "the text of a finite float is Python's layout of its shortest round-trip digits")
}

//verif:property C15
//verif:expect called
func VerifC15NegAbsBool() {
	f := verifFloat64("f")
	n, err := Neg(Float(f))
	verifReach("called")
	verifAssert(err == nil, "no error")
	nf, ok := n.(Float)
	verifAssert(ok && (float64(nf) == -f || math.IsNaN(f)), "negation")
	a, err := Abs(Float(f))
	verifAssert(err == nil, "no error")
	af, ok := a.(Float)
	verifAssert(ok && (float64(af) == math.Abs(f) || math.IsNaN(f)), "abs")
	t, err := MakeBool(Float(f))
	verifAssert(err == nil, "no error")
	verifAssert(t == Object(Bool(f != 0)), "truth value of a float is f != 0 (nan is true)")
}

// float % float and divmod: C's fmod has no usable SMT counterpart (DESIGN.md 8.3), so math.Mod is a
// fresh value constrained by fmod's contract, and what is decided is Python's rule around it: for
// finite operands the remainder is finite, no larger than the divisor in magnitude, carries the
// divisor's sign (a zero remainder too), and divmod's quotient is a whole number with the same remainder.
//
//verif:property C15
//verif:timeout 600 2400
//verif:havoc math.Mod:contract
//verif:expect called
func VerifC15FloatMod() {
	x := verifFloat64("x")
	y := verifFloat64("y")
	verifAssume(!math.IsNaN(x) && !math.IsInf(x, 0) && !math.IsNaN(y) && !math.IsInf(y, 0))
	got, err := Mod(Float(x), Float(y))
	verifReach("called")
	if y == 0 {
		verifAssert(err != nil && c07ErrIs(err, ZeroDivisionError), "zero divisor raises ZeroDivisionError")
		return
	}
	verifAssert(err == nil, "no error")
	rf, ok := got.(Float)
	verifAssert(ok, "float % float is a float")
	r := float64(rf)
	verifAssert(!math.IsNaN(r) && !math.IsInf(r, 0), "finite operands give a finite remainder")
	verifAssert(math.Abs(r) <= math.Abs(y), "the remainder is no larger than the divisor")
	verifAssert(math.Signbit(r) == math.Signbit(y), "the remainder carries the sign of the divisor (a zero remainder too)")
	q, r2, err := DivMod(Float(x), Float(y))
	verifAssert(err == nil, "no error")
	qf, ok1 := q.(Float)
	r2f, ok2 := r2.(Float)
	verifAssert(ok1 && ok2, "divmod of floats gives floats")
	verifAssert(!math.IsNaN(float64(qf)), "the quotient is a number")
	verifAssert(math.IsInf(float64(qf), 0) || math.Floor(float64(qf)) == float64(qf), "the quotient of divmod is a whole number")
	verifAssert(math.Float64bits(float64(r2f)) == math.Float64bits(r), "divmod's remainder is the % remainder")
}
