package stdlib

import (
	"fmt"
	"sync"
	"time"

	"github.com/go-python/gpython/py"
	"github.com/go-python/gpython/vm"
)

// C09 — Close/Done are safe under every interleaving with execution.
//
// Thread templates: each function below is the body of one goroutine acting
// on a shared context. The engine executes them in recording mode (see
// engine/sym/conc.go): the accesses to the context's lifecycle fields and the
// sync.WaitGroup / sync.Once / sync.Mutex / channel operations of the real
// pushBusy, popBusy, ModuleInit, ResolveAndCompile, RunCode, Close and Done
// become events, a read of a shared flag returns a symbolic value. cmd/verif
// (conc.go) composes the traces of up to N threads into a bounded transition
// system in SMT, with the schedule as variables, and asks the solver for an
// interleaving that panics, deadlocks, signals Done early, runs the close
// callbacks while an execution is in flight or more than once, admits an
// execution after the callbacks ran or after a Close returned.
//
// Stubs (rewrites.json): running a code object (vm.EvalCode) is the pair of
// events body_begin/body_end with an arbitrary result; the modules' close
// callbacks (ModuleStore.OnContextClosed) are the event callbacks.

var verifConc bool // true inside the thread templates and their native replay

func verifEvalCode(ctx py.Context, code *py.Code, globals, locals py.StringDict, args []py.Object, kwargs py.StringDict, defs []py.Object, kwdefs py.StringDict, closure py.Tuple) (py.Object, error) {
	if !verifConc {
		return vm.EvalCode(ctx, code, globals, locals, args, kwargs, defs, kwdefs, closure)
	}
	verifYield("body_begin")
	verifEvent("body_begin")
	verifYield("body_end")
	verifEvent("body_end")
	return py.None, nil
}

func verifOnContextClosed(store *py.ModuleStore) {
	if !verifConc {
		store.OnContextClosed()
		return
	}
	verifYield("callbacks")
	verifEvent("callbacks")
}

var c09Shared *context // native replay: the one context all threads act on

func c09Ctx() *context {
	verifConc = true
	if c09Shared != nil {
		return c09Shared
	}
	ctx := &context{done: make(chan struct{})}
	ctx.store = py.NewModuleStore()
	verifShared(ctx)
	return ctx
}

func c09Mark(tag string) {
	verifYield(tag)
	verifEvent(tag)
}

// c09Note: an event the monitors ignore (conc_C09.json gives it no check and no update):
// no scheduling point of its own
func c09Note(tag string) { verifEvent(tag) }

func c09Ret(err error) {
	if err != nil {
		c09Note("ret_err")
	} else {
		c09Mark("ret_ok")
	}
}

//verif:conc C09
func VerifC09ThreadRunCode() {
	ctx := c09Ctx()
	_, err := ctx.RunCode(nil, nil, nil, nil)
	c09Ret(err)
}

//verif:conc C09
func VerifC09ThreadResolveAndCompile() {
	ctx := c09Ctx()
	_, err := ctx.ResolveAndCompile("/vfs/nosuch", py.CompileOpts{})
	_ = err // the file does not exist: an error either way; what matters is that the request is released
	c09Note("request_done")
}

//verif:conc C09
func VerifC09ThreadModuleInit() {
	ctx := c09Ctx()
	// a module with code: ModuleInit runs it through RunCode (a nested request)
	_, err := ctx.ModuleInit(&py.ModuleImpl{Info: py.ModuleInfo{Name: "c09mod"}, Code: &py.Code{}})
	_ = err
	c09Note("request_done")
}

//verif:conc C09
func VerifC09ThreadClose() {
	ctx := c09Ctx()
	c09Note("close_call")
	err := ctx.Close()
	_ = err
	c09Mark("close_ret")
}

//verif:conc C09
func VerifC09ThreadDoneWait() {
	ctx := c09Ctx()
	verifYield("ch_recv")
	<-ctx.Done()
	c09Mark("done_seen")
}

// ---------------------------------------------------------------------------
// native replay of a schedule found by the solver

var c09Templates = map[string]func(){
	"VerifC09ThreadRunCode":           VerifC09ThreadRunCode,
	"VerifC09ThreadResolveAndCompile": VerifC09ThreadResolveAndCompile,
	"VerifC09ThreadModuleInit":        VerifC09ThreadModuleInit,
	"VerifC09ThreadClose":             VerifC09ThreadClose,
	"VerifC09ThreadDoneWait":          VerifC09ThreadDoneWait,
}

// VerifConcReplay runs the given thread templates on one shared context under a
// controlling scheduler: steps[i] names the thread that runs from its current
// scheduling point to its next one. It returns what was observed: "panic: ...",
// "deadlock", "monitor: <name>" or "ok".
func VerifConcReplay(threads []string, steps []int) string {
	c09Shared = nil
	ctx := c09Ctx()
	c09Shared = ctx
	verifFiles = map[string]string{}
	defer func() { c09Shared = nil; verifYieldHook = nil; verifEventHook = nil; verifConc = false }()

	n := len(threads)
	var mu sync.Mutex
	current := -1
	resume := make([]chan struct{}, n)
	finished := make([]bool, n)
	parked := make(chan int, 4*n)
	outcome := ""
	note := func(s string) {
		if outcome == "" {
			outcome = s
		}
	}
	// monitors, the same as the model's (conc_C09.json)
	inside, callbacks, closeRet := 0, 0, 0
	startedAfterClose := make([]bool, n)
	started := make([]bool, n)
	verifEventHook = func(tag string) {
		mu.Lock()
		defer mu.Unlock()
		t := current
		switch tag {
		case "body_begin":
			if callbacks > 0 {
				note("monitor: an execution was admitted after the close callbacks ran")
			}
			if closeRet > 0 {
				note("monitor: an execution was admitted after a Close call had returned")
			}
			inside++
		case "body_end":
			inside--
		case "callbacks":
			if inside > 0 {
				note("monitor: the close callbacks ran while an admitted execution was still running")
			}
			if callbacks > 0 {
				note("monitor: the close callbacks ran more than once")
			}
			callbacks++
		case "close_ret":
			if inside > 0 {
				note("monitor: Close returned while an admitted execution was still running")
			}
			closeRet++
		case "done_seen", "ch_close":
			if inside > 0 || callbacks != 1 {
				note("monitor: Done was signalled before the executions finished and the close callbacks ran")
			}
		case "ret_ok":
			if t >= 0 && startedAfterClose[t] {
				note("monitor: a request made after Close had returned did not fail")
			}
		}
	}
	verifYieldHook = func(tag string) {
		mu.Lock()
		t := current
		mu.Unlock()
		if t < 0 {
			return
		}
		parked <- t
		<-resume[t]
	}
	var wg sync.WaitGroup
	for i := range threads {
		resume[i] = make(chan struct{}, 1)
		fn := c09Templates[threads[i]]
		wg.Add(1)
		go func(i int) {
			defer wg.Done()
			defer func() {
				if r := recover(); r != nil {
					mu.Lock()
					note(fmt.Sprintf("panic: %v", r))
					mu.Unlock()
				}
				mu.Lock()
				finished[i] = true
				mu.Unlock()
				parked <- -1 - i
			}()
			<-resume[i] // wait to be started
			fn()
		}(i)
	}
	for si, t := range steps {
		mu.Lock()
		done := finished[t]
		current = t
		if si >= n && !started[t] {
			// the thread takes its first step now (the first n steps only bring every thread to its first scheduling point)
			started[t] = true
			startedAfterClose[t] = closeRet > 0
		}
		mu.Unlock()
		if done {
			continue
		}
		resume[t] <- struct{}{}
		select {
		case <-parked:
		case <-time.After(300 * time.Millisecond):
			// the thread is blocked inside a real synchronisation call; go on with the others
		}
	}
	// schedule consumed: let everything run to the end
	mu.Lock()
	current = -1
	mu.Unlock()
	for i := range resume {
		select {
		case resume[i] <- struct{}{}:
		default:
		}
	}
	all := make(chan struct{})
	go func() { wg.Wait(); close(all) }()
	for {
		select {
		case <-all:
			mu.Lock()
			defer mu.Unlock()
			if outcome == "" {
				return "ok"
			}
			return outcome
		case t := <-parked:
			if t >= 0 {
				select {
				case resume[t] <- struct{}{}:
				default:
				}
			}
		case <-time.After(3 * time.Second):
			mu.Lock()
			defer mu.Unlock()
			if outcome == "" {
				return "deadlock"
			}
			return outcome
		}
	}
}
