package stdlib

import (
	"github.com/go-python/gpython/py"
)

// C19 — a module body runs once per context; all importers share the module.
//
// The real context (NewContext, ModuleInit, ResolveAndCompile, RunCode), the
// real import code (py/import.go, py/run.go, py/module.go), the real compiler
// and the real VM import opcodes run a family of generated module graphs:
// main -> {ma, mb}, ma -> {mb, mc, ma, missing}, mb -> {ma, mc}; every edge
// takes any statement form; definitions come before or after the imports
// (so that a cycle sees a partly initialised module); __all__ present or not.
// The file system is the in-memory table of vfs.go.
//
// The oracle is a reference model of the import protocol written below
// (cache lookup first, module registered before its body runs, from-import
// reads the attribute at that moment, star binds __all__ or the public names).

const (
	c19None = iota
	c19Import
	c19ImportAs
	c19From
	c19FromAs
	c19Star
	c19FromMod // from T import mc as z_T : mc is a module name, bound in T only if T imported it
)

var c19Names = []string{"ma", "mb", "mc", "zz", "trace"}

type c19Edge struct {
	to    int // index into c19Names
	form  int
	guard bool // the statement sits in try: ... except ImportError: trace.hit("caught")
}

type c19Spec struct {
	name      string
	defsFirst bool
	all       int // 0: no __all__, 1: __all__ = ["v", "_p"], 2: __all__ = []
	imports   []c19Edge
}

func c19ImportLine(e c19Edge) string {
	t := c19Names[e.to]
	switch e.form {
	case c19Import:
		return "import " + t + "\n"
	case c19ImportAs:
		return "import " + t + " as x_" + t + "\n"
	case c19From:
		return "from " + t + " import v\n"
	case c19FromAs:
		return "from " + t + " import v as y_" + t + "\n"
	case c19Star:
		return "from " + t + " import *\n"
	case c19FromMod:
		return "from " + t + " import mc as z_" + t + "\n"
	}
	return ""
}

func c19Source(s *c19Spec) string {
	src := "import trace\ntrace.hit(\"" + s.name + "\")\n"
	defs := "v = \"" + s.name + ".v\"\n_p = \"" + s.name + "._p\"\nw = \"" + s.name + ".w\"\n"
	switch s.all {
	case 1:
		defs += "__all__ = [\"v\", \"_p\"]\n"
	case 2:
		defs += "__all__ = []\n"
	}
	if s.defsFirst {
		src += defs
	}
	for _, e := range s.imports {
		if e.guard {
			src += "try:\n    " + c19ImportLine(e) + "except ImportError:\n    trace.hit(\"caught\")\n"
		} else {
			src += c19ImportLine(e)
		}
	}
	if !s.defsFirst {
		src += defs
	}
	return src
}

// ---- reference model

type c19Val struct {
	s   string // a string value, or
	mod string // a module, by name
}

type c19RefMod struct {
	g     map[string]c19Val
	order []string // binding order (for star imports: irrelevant, bindings are a set)
}

type c19Ref struct {
	specs  map[string]*c19Spec
	mods   map[string]*c19RefMod
	log    []string
	err    string
	failed map[string]bool // modules whose body raised (what becomes of them is not part of the property)
}

func (r *c19Ref) bind(m *c19RefMod, k string, v c19Val) { m.g[k] = v }

func (r *c19Ref) defs(m *c19RefMod, s *c19Spec) {
	r.bind(m, "v", c19Val{s: s.name + ".v"})
	r.bind(m, "_p", c19Val{s: s.name + "._p"})
	r.bind(m, "w", c19Val{s: s.name + ".w"})
	switch s.all {
	case 1:
		r.bind(m, "__all__", c19Val{s: "<all:v,_p>"})
	case 2:
		r.bind(m, "__all__", c19Val{s: "<all:>"})
	}
}

// exec: import of module name; false when an exception propagates
func (r *c19Ref) exec(name string) (*c19RefMod, bool) {
	if m, ok := r.mods[name]; ok {
		return m, true // cached, possibly still initialising
	}
	s, ok := r.specs[name]
	if !ok {
		r.err = "ImportError"
		return nil, false
	}
	m := &c19RefMod{g: map[string]c19Val{}}
	r.mods[name] = m // registered before the body runs
	if !r.body(m, s) {
		r.failed[name] = true
		return nil, false
	}
	return m, true
}

func (r *c19Ref) body(m *c19RefMod, s *c19Spec) bool {
	r.log = append(r.log, s.name)
	if s.defsFirst {
		r.defs(m, s)
	}
	for _, e := range s.imports {
		if e.form == c19None {
			continue
		}
		t := c19Names[e.to]
		var tm *c19RefMod
		if t == "trace" {
			tm = &c19RefMod{g: map[string]c19Val{}}
		} else {
			var ok bool
			tm, ok = r.exec(t)
			if !ok {
				if e.guard && r.err == "ImportError" {
					r.err = ""
					r.log = append(r.log, "caught")
					continue
				}
				return false
			}
		}
		fail := func(kind string) bool {
			if e.guard && kind == "ImportError" {
				r.log = append(r.log, "caught")
				return true
			}
			r.err = kind
			return false
		}
		_ = fail
		switch e.form {
		case c19Import:
			r.bind(m, t, c19Val{mod: t})
		case c19ImportAs:
			r.bind(m, "x_"+t, c19Val{mod: t})
		case c19From, c19FromAs:
			v, ok := tm.g["v"]
			if !ok {
				if fail("ImportError") {
					continue
				}
				return false
			}
			if e.form == c19From {
				r.bind(m, "v", v)
			} else {
				r.bind(m, "y_"+t, v)
			}
		case c19FromMod:
			v, ok := tm.g["mc"]
			if !ok {
				if fail("ImportError") {
					continue
				}
				return false
			}
			r.bind(m, "z_"+t, v)
		case c19Star:
			if a, hasAll := tm.g["__all__"]; hasAll {
				names := []string{"v", "_p"}
				if a.s == "<all:>" {
					names = nil
				}
				for _, k := range names {
					v, ok := tm.g[k]
					if !ok {
						r.err = "AttributeError"
						return false
					}
					r.bind(m, k, v)
				}
			} else {
				for k, v := range tm.g {
					if k[0] != '_' {
						r.bind(m, k, v)
					}
				}
			}
		}
	}
	if !s.defsFirst {
		r.defs(m, s)
	}
	return true
}

// ---- the Go module every generated module reports to

var c19Log []string

func c19TraceModule() *py.ModuleImpl {
	return &py.ModuleImpl{
		Info: py.ModuleInfo{Name: "trace"},
		Methods: []*py.Method{
			py.MustNewMethod("hit", func(self py.Object, args py.Tuple) (py.Object, error) {
				if len(args) == 1 {
					if s, ok := args[0].(py.String); ok {
						c19Log = append(c19Log, string(s))
					}
				}
				return py.None, nil
			}, 0, ""),
		},
		Globals: py.StringDict{},
	}
}

var c19Interesting = []string{"v", "_p", "w", "ma", "mb", "mc", "zz", "x_ma", "x_mb", "x_mc", "y_ma", "y_mb", "y_mc", "z_ma", "z_mb", "z_mc"}

func c19CheckModule(ctx py.Context, real *py.Module, want *c19RefMod) {
	for _, k := range c19Interesting {
		got, has := real.Globals[k]
		w, wantHas := want.g[k]
		verifAssert(has == wantHas, "a module's globals bind exactly the names the reference model binds")
		if !has {
			continue
		}
		if w.mod != "" {
			m, err := ctx.GetModule(w.mod)
			verifAssert(err == nil && got == py.Object(m), "every importer holds the one module object of the context")
		} else {
			verifAssert(got == py.Object(py.String(w.s)), "an imported name has the value it had in the module at import time")
		}
	}
}

//verif:property C19
//verif:maxpaths 100000 2000000
//verif:timeout 300 3000
//verif:runinit github.com/go-python/gpython/py.init@type.go:1 github.com/go-python/gpython/py.init@exception.go:1 github.com/go-python/gpython/vm.init#1 github.com/go-python/gpython/vm.init#2 github.com/go-python/gpython/stdlib/builtin.init#1 github.com/go-python/gpython/compile.init@compile.go:1
//verif:expect ran
func VerifC19ImportGraph() {
	// thorough tier: the full product of all dimensions. Quick tier: three slices of it, each
	// varying some dimensions fully and holding the others at a default:
	//   0: main does `import ma`; every edge of ma and of mb in every form; definitions before/after imports
	//   1: every form of main's two imports (same module twice, or two modules), every __all__ variant
	//   2: from-import / star / from-import-module out of ma to {mb, mc, ma}, every __all__ variant, both definition orders
	//   3: ma imports mb or mc and then a missing module; main catches the ImportError (or does not) and imports mb / mc again
	full := verifBound(0, 1) == 1
	mode := 0
	if !full {
		mode = verifChoice("mode", 4)
	}
	on := func(modes ...int) bool {
		if full {
			return true
		}
		for _, m := range modes {
			if m == mode {
				return true
			}
		}
		return false
	}
	dim := func(name string, n int, vary bool, dflt int) int {
		if !vary {
			return dflt
		}
		return verifChoice(name, n)
	}
	defsFirst := dim("defs_first", 2, on(0, 2), 1) == 1
	all := dim("all", 3, on(1, 2), 0)
	main := &c19Spec{name: "__main__", defsFirst: true}
	// slice 3 (quick) / always (thorough): main guards its first import with try/except ImportError and goes on;
	// ma may end in an import of a missing module after its own imports
	guard := dim("main_guard", 2, on(3), 0) == 1
	main.imports = append(main.imports, c19Edge{to: 0, form: 1 + dim("main_a_form", 6, on(1), 0), guard: guard})
	if mode == 3 {
		// after the guarded import: import the modules ma reached, again
		main.imports = append(main.imports, c19Edge{to: 1 + verifChoice("main_2_to3", 2), form: []int{c19Import, c19From, c19Star}[verifChoice("main_2_form3", 3)]})
	} else if f := dim("main_2_form", 7, on(1), c19None); f != c19None {
		main.imports = append(main.imports, c19Edge{to: verifChoice("main_2_to", 2), form: f})
	}
	ma := &c19Spec{name: "ma", defsFirst: defsFirst, all: all}
	var aForm int
	if on(0) {
		aForm = verifChoice("a_form", 7)
	} else if mode == 2 {
		aForm = []int{c19From, c19Star, c19FromMod}[verifChoice("a_form2", 3)]
	} else if mode == 3 {
		aForm = []int{c19Import, c19From, c19Star}[verifChoice("a_form3", 3)]
	} else {
		aForm = c19Import
	}
	if aForm != c19None {
		to := 1
		if on(0) {
			to = []int{1, 2, 0, 3}[verifChoice("a_to", 4)]
		} else if mode == 2 {
			to = []int{1, 2, 0}[verifChoice("a_to2", 3)]
		} else if mode == 3 {
			to = []int{1, 2}[verifChoice("a_to3", 2)]
		}
		ma.imports = append(ma.imports, c19Edge{to: to, form: aForm})
	}
	if dim("a_then_missing", 2, on(3), 0) == 1 {
		ma.imports = append(ma.imports, c19Edge{to: 3, form: c19Import})
	}
	mb := &c19Spec{name: "mb", defsFirst: defsFirst, all: all}
	if f := dim("b_form", 7, on(0), c19None); f != c19None {
		mb.imports = append(mb.imports, c19Edge{to: []int{0, 2}[verifChoice("b_to", 2)], form: f})
	}
	mc := &c19Spec{name: "mc", defsFirst: true, all: all}

	verifFiles = map[string]string{
		"/vfs/main.py": c19Source(main),
		"/vfs/ma.py":   c19Source(ma),
		"/vfs/mb.py":   c19Source(mb),
		"/vfs/mc.py":   c19Source(mc),
		"/vfs/after.py": "import trace\ntrace.hit(\"after\")\nimport ma\n",
	}
	c19Log = nil
	py.RegisterModule(&py.ModuleImpl{Info: py.ModuleInfo{Name: "sys"}, Globals: py.StringDict{}})
	py.RegisterModule(c19TraceModule())

	ref := &c19Ref{specs: map[string]*c19Spec{"ma": ma, "mb": mb, "mc": mc}, mods: map[string]*c19RefMod{}, failed: map[string]bool{}}
	refMain := &c19RefMod{g: map[string]c19Val{}}
	ref.mods["__main__"] = refMain
	ok := ref.body(refMain, main)

	ctx := NewContext(py.ContextOpts{SysPaths: []string{"/vfs"}})
	mod, err := py.RunFile(ctx, "main", py.CompileOpts{UseSysPaths: true}, nil)
	verifReach("ran")

	verifAssert(len(c19Log) == len(ref.log), "each module body runs exactly once, at its first import")
	for i := range ref.log {
		verifAssert(c19Log[i] == ref.log[i], "module bodies run in the order of first import")
	}
	if !ok {
		verifAssert(err != nil, "the failing import raises")
		if ref.err == "ImportError" {
			verifAssert(py.IsException(py.ImportError, err), "a missing module or name raises ImportError")
		}
		// the context is still usable: another program runs, and sees the modules that completed
		n := len(c19Log)
		_, err2 := py.RunFile(ctx, "after", py.CompileOpts{UseSysPaths: true}, nil)
		verifAssert(len(c19Log) > n && c19Log[n] == "after", "the context runs another program after a failed import")
		_ = err2
		c19Close(ctx)
		return
	}
	verifAssert(err == nil, "the program runs to completion")
	c19CheckModule(ctx, mod, refMain)
	for _, name := range []string{"ma", "mb", "mc"} {
		if ref.failed[name] {
			continue // whether a module whose body raised stays cached is not part of the property
		}
		want, imported := ref.mods[name]
		real, gerr := ctx.GetModule(name)
		verifAssert((gerr == nil) == imported, "the context holds exactly the modules that were imported")
		if imported && gerr == nil {
			c19CheckModule(ctx, real, want)
		}
	}
	c19Close(ctx)
}

// whatever happened before, the context closes (every admitted request was released) and then refuses work
func c19Close(ctx py.Context) {
	err := ctx.Close()
	verifAssert(err == nil, "Close returns")
	_, err = py.RunFile(ctx, "after", py.CompileOpts{UseSysPaths: true}, nil)
	verifAssert(err != nil, "a request after Close fails with an ordinary error")
}
