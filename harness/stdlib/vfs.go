package stdlib

import (
	"errors"
	"io"
)

// In-memory file table standing in for the file system (see rewrites.json):
// the lifecycle and import code of stdlib.go runs unchanged except that its
// os.Stat / os.ReadFile / os.IsNotExist / os.Getwd / os.Open calls land here.

var verifFiles = map[string]string{}

var errVerifNotExist = errors.New("file does not exist")

type verifFileInfo struct{ dir bool }

func (fi verifFileInfo) IsDir() bool { return fi.dir }

func verifStat(p string) (verifFileInfo, error) {
	if verifConc {
		// in the C09 thread templates a file system access is a piece of the request's work in flight
		c09Mark("body_begin")
		c09Mark("body_end")
	}
	if _, ok := verifFiles[p]; ok {
		return verifFileInfo{}, nil
	}
	if p == "/vfs" {
		return verifFileInfo{dir: true}, nil
	}
	return verifFileInfo{}, errVerifNotExist
}

func verifReadFile(p string) ([]byte, error) {
	if s, ok := verifFiles[p]; ok {
		return []byte(s), nil
	}
	return nil, errVerifNotExist
}

func verifIsNotExist(err error) bool { return err == errVerifNotExist }

func verifGetwd() (string, error) { return "/cwd", nil }

type verifNoFile struct{}

func (verifNoFile) Close() error               { return nil }
func (verifNoFile) Read(p []byte) (int, error) { return 0, io.EOF }

func verifOpen(p string) (verifNoFile, error) { return verifNoFile{}, errVerifNotExist }
