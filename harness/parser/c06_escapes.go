package parser

import (
	"bytes"

	"github.com/go-python/gpython/py"
)

// C06 / C14 — escape sequences in string and bytes literals denote what the
// language reference (2.4.1) says; malformed ones are rejected.
//
// The literal body is a backslash followed by symbolic printable ASCII bytes.

func c06Hex(c byte) (int, bool) {
	switch {
	case c >= '0' && c <= '9':
		return int(c - '0'), true
	case c >= 'a' && c <= 'f':
		return int(c-'a') + 10, true
	case c >= 'A' && c <= 'F':
		return int(c-'A') + 10, true
	}
	return 0, false
}

// c06RefDecode: the reference decoder. ok=false: the literal is malformed.
func c06RefDecode(s string, byteMode bool) (out []rune, ok bool) {
	for i := 0; i < len(s); i++ {
		c := s[i]
		if c != '\\' {
			out = append(out, rune(c))
			continue
		}
		i++
		if i >= len(s) {
			return nil, false // a lone trailing backslash cannot occur inside a closed literal
		}
		c = s[i]
		simple := map[byte]rune{'\\': '\\', '\'': '\'', '"': '"', 'a': 7, 'b': 8, 'f': 12, 'n': 10, 'r': 13, 't': 9, 'v': 11}
		if r, is := simple[c]; is {
			out = append(out, r)
			continue
		}
		switch {
		case c >= '0' && c <= '7':
			v := rune(c - '0')
			for k := 0; k < 2 && i+1 < len(s) && s[i+1] >= '0' && s[i+1] <= '7'; k++ {
				i++
				v = v*8 + rune(s[i]-'0')
			}
			if byteMode {
				v &= 0xff
			}
			out = append(out, v)
		case c == 'x' || (!byteMode && (c == 'u' || c == 'U')):
			n := 2
			if c == 'u' {
				n = 4
			} else if c == 'U' {
				n = 8
			}
			if i+n > len(s)-1 {
				return nil, false // fewer than n characters follow
			}
			v := 0
			for k := 1; k <= n; k++ {
				d, isHex := c06Hex(s[i+k])
				if !isHex {
					return nil, false
				}
				v = v*16 + d
			}
			if v > 0x10ffff {
				return nil, false
			}
			i += n
			out = append(out, rune(v))
		default:
			// unrecognised escapes stay in the string, backslash included
			out = append(out, '\\', rune(c))
		}
	}
	return out, true
}

//verif:property C06 C14
//verif:expect decoded
//verif:maxpaths 40000 400000
//verif:timeout 300 1500
func VerifC06Escapes() {
	n := verifBound(3, 4)
	tail := verifString("s", n)
	for i := 0; i < n; i++ {
		verifAssume(tail[i] >= 0x20)
		verifAssume(tail[i] < 0x7f)
	}
	verifAssume(tail[0] != 'N') // \N{name} needs the Unicode name database: outside the claim
	byteMode := verifChoice("bytes", 2) == 1
	body := "\\" + tail
	// a body ending in an odd number of backslashes cannot be the body of a closed literal
	bs := 0
	for i := len(body) - 1; i >= 0 && body[i] == '\\'; i-- {
		bs++
	}
	verifAssume(bs%2 == 0)
	out, err := DecodeEscape(bytes.NewBufferString(body), byteMode)
	verifReach("decoded")
	want, ok := c06RefDecode(body, byteMode)
	if !ok {
		verifAssert(err != nil, "a malformed escape is rejected")
		return
	}
	verifAssert(err == nil, "a well-formed literal body is accepted")
	var wantBytes []byte
	if byteMode {
		for _, r := range want {
			wantBytes = append(wantBytes, byte(r))
		}
	} else {
		wantBytes = []byte(string(want))
	}
	got := out.Bytes()
	verifAssert(len(got) == len(wantBytes), "decoded length")
	for i := range wantBytes {
		verifAssert(got[i] == wantBytes[i], "decoded content")
	}
	_ = py.None
}
