package parser

import (
	"strconv"
	"strings"

	"github.com/go-python/gpython/ast"
	"github.com/go-python/gpython/py"
)

// C06 — every legal concrete spelling of a program parses to the same tree.
//
// One small program (a function with a nested block, displays, a call with a
// keyword, literals) is spelled in many ways: indentation units of the two
// block levels, bracket-implicit line joining with continuation lines and
// closing brackets at any column (to the left of the block too), trailing
// commas, comments and blank lines, backslash continuation, semicolons,
// spacing, redundant parentheses, alternative literal spellings, a missing
// final newline. Each spelling goes through the real lexer and LALR parser and
// its tree (rendered by c06Tree, positions left out) must be the tree of the
// canonical one-line-per-statement spelling.

func c06Tree(n ast.Ast) string {
	switch x := n.(type) {
	case nil:
		return "nil"
	case *ast.Module:
		return "Module" + c06Body(x.Body)
	case *ast.FunctionDef:
		s := "Def(" + string(x.Name) + ";"
		for _, a := range x.Args.Args {
			s += string(a.Arg) + ","
		}
		for _, d := range x.Args.Defaults {
			s += "=" + c06Tree(d) + ","
		}
		if x.Args.Vararg != nil || x.Args.Kwarg != nil || len(x.Args.Kwonlyargs) != 0 {
			s += "?"
		}
		return s + ")" + c06Body(x.Body)
	case *ast.Assign:
		s := "Assign("
		for _, t := range x.Targets {
			s += c06Tree(t) + "="
		}
		return s + c06Tree(x.Value) + ")"
	case *ast.AugAssign:
		return "Aug(" + c06Tree(x.Target) + x.Op.String() + c06Tree(x.Value) + ")"
	case *ast.If:
		return "If(" + c06Tree(x.Test) + ")" + c06Body(x.Body) + "else" + c06Body(x.Orelse)
	case *ast.For:
		return "For(" + c06Tree(x.Target) + " in " + c06Tree(x.Iter) + ")" + c06Body(x.Body) + "else" + c06Body(x.Orelse)
	case *ast.While:
		return "While(" + c06Tree(x.Test) + ")" + c06Body(x.Body) + "else" + c06Body(x.Orelse)
	case *ast.Return:
		if x.Value == nil {
			return "Return()"
		}
		return "Return(" + c06Tree(x.Value) + ")"
	case *ast.Pass:
		return "Pass"
	case *ast.ExprStmt:
		return "Expr(" + c06Tree(x.Value) + ")"
	case *ast.Name:
		return string(x.Id)
	case *ast.Num:
		switch v := x.N.(type) {
		case py.Int:
			return "int:" + strconv.FormatInt(int64(v), 10)
		case py.Float:
			return "float:" + strconv.FormatInt(int64(v*1024), 10)
		}
		return "num?"
	case *ast.Str:
		return "str:" + strconv.Itoa(len(x.S)) + ":" + string(x.S)
	case *ast.Bytes:
		return "bytes:" + strconv.Itoa(len(x.S)) + ":" + string(x.S)
	case *ast.List:
		return "List" + c06Exprs(x.Elts)
	case *ast.Tuple:
		return "Tuple" + c06Exprs(x.Elts)
	case *ast.Set:
		return "Set" + c06Exprs(x.Elts)
	case *ast.Dict:
		return "Dict" + c06Exprs(x.Keys) + c06Exprs(x.Values)
	case *ast.Call:
		s := "Call(" + c06Tree(x.Func) + c06Exprs(x.Args)
		for _, k := range x.Keywords {
			s += string(k.Arg) + "=" + c06Tree(k.Value) + ","
		}
		if x.Starargs != nil || x.Kwargs != nil {
			s += "?"
		}
		return s + ")"
	case *ast.Attribute:
		return c06Tree(x.Value) + "." + string(x.Attr)
	case *ast.Subscript:
		if ix, ok := x.Slice.(*ast.Index); ok {
			return "Sub(" + c06Tree(x.Value) + "," + c06Tree(ix.Value) + ")"
		}
		return "Sub?"
	case *ast.IfExp:
		return "IfExp(" + c06Tree(x.Test) + "," + c06Tree(x.Body) + "," + c06Tree(x.Orelse) + ")"
	case ast.Expr:
		return c06Dump(x) // operators: the renderer of the grouping harness
	}
	return "?"
}

func c06Exprs(es []ast.Expr) string {
	s := "["
	for _, e := range es {
		s += c06Tree(e) + ","
	}
	return s + "]"
}

func c06Body(ss []ast.Stmt) string {
	s := "{"
	for _, st := range ss {
		s += c06Tree(st) + ";"
	}
	return s + "}"
}

type c06Spell struct {
	ind1, ind2    string // indentation units of the function body and of the nested block (added to ind1)
	split         int    // list display: 0 on one line, 1 a line per element, 2 also a break after the opening bracket
	cont, closeAt int    // columns of the continuation lines and of the line of the closing bracket
	tcomma        bool   // trailing commas in the list display, the call, the dict display and the parameter list
	comment       int    // 0 none, 1 trailing comments, 2 comment lines at column 0 inside the blocks, 3 blank lines with white space
	backslash     bool   // backslash continuation inside an expression and after the assignment sign
	semi          int    // 0 two lines, 1 "p = 1; q = 2", 2 the same with a trailing semicolon
	wide          bool   // generous spacing around operators and after commas / none
	lit           int    // literal spellings
	paren         bool   // redundant parentheses
	noFinalNL     bool
	crlf          bool
}

func (s *c06Spell) text() string {
	sp := func(tight, wide string) string {
		if s.wide {
			return wide
		}
		return tight
	}
	tc := ""
	if s.tcomma {
		tc = ","
	}
	cmt := func(text string) string {
		if s.comment == 1 {
			return "  # " + text
		}
		return ""
	}
	var b strings.Builder
	line := func(indent, code, comment string) {
		b.WriteString(indent + code + cmt(comment) + "\n")
		switch s.comment {
		case 2:
			b.WriteString("# a comment line at column 0: indentation of comment lines does not count\n")
		case 3:
			b.WriteString("   \t \n\n")
		}
	}
	pa := func(e string) string {
		if s.paren {
			return "(" + e + ")"
		}
		return e
	}
	// literals: sixteen, the string ab'c, ten point zero
	sixteen, str, ten := "16", "'ab\\'c'", "10.0"
	switch s.lit {
	case 1:
		sixteen, str, ten = "0x10", "\"ab'c\"", "1e1"
	case 2:
		sixteen, str, ten = "0o20", "'ab' \"'c\"", "10."
	case 3:
		sixteen, str, ten = "0b10000", "'''ab'c'''", "1.0E+1"
	}
	line("", "def"+sp(" ", "  ")+"f("+sp("a,b", "a , b")+tc+")"+sp(":", " :"), "header")
	// x = [a, b, (a + b) * 2]
	e3 := pa("(a"+sp("+", " + ")+"b)") + sp("*", "  *  ") + pa("2")
	contI := strings.Repeat(" ", s.cont)
	closeI := strings.Repeat(" ", s.closeAt)
	asg := "x" + sp("=", " = ")
	if s.backslash {
		asg += "\\\n" + contI
	}
	switch s.split {
	case 0:
		line(s.ind1, asg+"["+sp("a,b,", "a, b, ")+e3+tc+"]", "display")
	case 1:
		b.WriteString(s.ind1 + asg + "[a," + cmt("first") + "\n")
		b.WriteString(contI + "b," + cmt("second") + "\n")
		if s.comment == 2 {
			b.WriteString("# inside the brackets\n")
		}
		if s.comment == 3 {
			b.WriteString("  \n")
		}
		b.WriteString(contI + e3 + tc + "\n")
		line(closeI, "]", "closing")
	default:
		b.WriteString(s.ind1 + asg + "[\n")
		b.WriteString(contI + "a," + sp("", " ") + "b,\n")
		line(contI, e3+tc+"]", "closing")
	}
	line(s.ind1, "if"+sp(" ", "   ")+pa("x")+":", "test")
	call := "g(" + sp("a,k=b", "a , k = b") + tc + ")"
	if s.backslash {
		call = "g \\\n" + "(a, \\\n k=b" + tc + ")"
	}
	line(s.ind1+s.ind2, "y"+sp("=", " = ")+call, "call")
	line(s.ind1+s.ind2, "z"+sp("=", " = ")+"{"+str+":"+sp("", " ")+sixteen+tc+"}", "dict")
	switch s.semi {
	case 0:
		line(s.ind1, "p"+sp("=", " = ")+ten, "")
		line(s.ind1, "q = 2", "")
	case 1:
		line(s.ind1, "p"+sp("=", " = ")+ten+sp(";", " ; ")+"q = 2", "")
	default:
		line(s.ind1, "p"+sp("=", " = ")+ten+";q = 2;", "")
	}
	line(s.ind1, "return"+sp(" ", "  ")+"x,"+sp("", " ")+"y", "result")
	line("", "w"+sp("=", " = ")+"f(1,"+sp("", " ")+sixteen+")", "")
	t := b.String()
	if s.noFinalNL {
		t = strings.TrimRight(t, "\n \t")
		// a trailing comment-only or blank tail was removed with it; fine: same statements
	}
	if s.crlf {
		t = strings.Replace(t, "\n", "\r\n", -1)
	}
	return t
}

func c06SpellCheck(s *c06Spell) {
	canon := &c06Spell{ind1: "    ", ind2: "    "}
	want, err := ParseString(canon.text(), py.ExecMode)
	verifAssert(err == nil, "the canonical spelling parses")
	src := s.text()
	verifLog(src)
	got, err := ParseString(src, py.ExecMode)
	verifReach("parsed")
	verifAssert(err == nil, "a legal spelling of the program parses")
	verifAssert(c06Tree(got) == c06Tree(want), "every legal spelling of a program parses to the same tree")
}

// layout: indentation units, line joining inside brackets, trailing commas, comments
//
//verif:property C06
//verif:expect parsed
//verif:maxpaths 40000 400000
//verif:timeout 400 1500
func VerifC06SpellingsLayout() {
	units := []string{"    ", " ", "\t", "  ", "        "}
	s := &c06Spell{}
	s.ind1 = units[verifChoice("ind1", verifBound(3, 5))]
	s.ind2 = units[verifChoice("ind2", verifBound(3, 5))]
	s.split = verifChoice("split", 3)
	s.cont = verifChoice("cont", verifBound(4, 10))
	s.closeAt = verifChoice("close", verifBound(4, 10))
	if s.split == 0 {
		verifAssume(s.cont == 0 && s.closeAt == 0)
	}
	s.tcomma = verifChoice("tcomma", 2) == 1
	s.comment = verifChoice("comment", 4)
	c06SpellCheck(s)
}

// tokens: backslash continuation, semicolons, spacing, parentheses, literal spellings, end of file
//
//verif:property C06
//verif:expect parsed
//verif:maxpaths 40000 400000
//verif:timeout 400 1500
func VerifC06SpellingsTokens() {
	s := &c06Spell{ind1: "    ", ind2: "  "}
	s.backslash = verifChoice("backslash", 2) == 1
	s.semi = verifChoice("semi", 3)
	s.wide = verifChoice("wide", 2) == 1
	s.lit = verifChoice("lit", 4)
	s.paren = verifChoice("paren", 2) == 1
	s.noFinalNL = verifChoice("nofinalnl", 2) == 1
	s.crlf = verifChoice("crlf", verifBound(1, 2)) == 1
	s.tcomma = verifChoice("tcomma", 2) == 1
	s.split = verifChoice("split", 2)
	s.cont, s.closeAt = 6, 2
	c06SpellCheck(s)
}

// a trailing comma makes a tuple wherever a bare expression list is allowed:
// for every such position, one or two elements, with and without the trailing
// comma: a Tuple node iff there are two elements or a trailing comma.
//
//verif:property C06
//verif:expect parsed
func VerifC06TrailingComma() {
	n := 1 + verifChoice("n", 2)
	trailing := verifChoice("trailing", 2) == 1
	list := "a"
	tree := "a"
	if n == 2 {
		list = "a, b"
		tree = "a,b,"
	}
	if trailing {
		list += ","
	}
	if n == 2 || trailing {
		if n == 1 {
			tree = "a,"
		}
		tree = "Tuple[" + tree + "]"
	}
	var src, want string
	switch verifChoice("where", 7) {
	case 0:
		src, want = "for "+list+" in x: pass\n", "Module{For("+tree+" in x){Pass;}else{};}"
	case 1:
		src, want = "for x in "+list+": pass\n", "Module{For(x in "+tree+"){Pass;}else{};}"
	case 2:
		src, want = list+" = x\n", "Module{Assign("+tree+"=x);}"
	case 3:
		src, want = "x = "+list+"\n", "Module{Assign(x="+tree+");}"
	case 4:
		src, want = "def f():\n    return "+list+"\n", "Module{Def(f;){Return("+tree+");};}"
	case 5:
		src, want = "x["+list+"]\n", "Module{Expr(Sub(x,"+tree+"));}"
	default:
		src, want = "x += "+list+"\n", "Module{Aug(xAdd()"+tree+");}"
	}
	verifLog(src)
	got, err := ParseString(src, py.ExecMode)
	verifReach("parsed")
	verifAssert(err == nil, "a legal statement parses")
	verifLog(c06Tree(got))
	verifAssert(c06Tree(got) == want, "an expression list is a tuple iff it has several elements or a trailing comma")
}
