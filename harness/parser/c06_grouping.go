package parser

import (
	"strconv"

	"github.com/go-python/gpython/ast"
	"github.com/go-python/gpython/py"
)

// C06 — operator grouping: source text "a OP1 b OP2 c" (with optional unary
// prefixes and redundant spelling variations) goes through the real lexer and
// the real LALR(1) tables and actions; the tree must be the one the language
// reference's precedence table assigns. OP1 / OP2 range over all binary,
// comparison and boolean operators.

type c06Op struct {
	text  string
	level int    // binding strength: higher binds tighter
	kind  string // bool, cmp, bin
	name  string // ast constructor name for the dump
}

// Language reference 6.15 Operator precedence (lowest first)
var c06Ops = []c06Op{
	{"or", 1, "bool", "Or"}, {"and", 2, "bool", "And"},
	{"<", 4, "cmp", "Lt"}, {"<=", 4, "cmp", "LtE"}, {">", 4, "cmp", "Gt"}, {">=", 4, "cmp", "GtE"}, {"==", 4, "cmp", "Eq"}, {"!=", 4, "cmp", "NotEq"},
	{"in", 4, "cmp", "In"}, {"not in", 4, "cmp", "NotIn"}, {"is", 4, "cmp", "Is"}, {"is not", 4, "cmp", "IsNot"},
	{"|", 5, "bin", "BitOr"}, {"^", 6, "bin", "BitXor"}, {"&", 7, "bin", "BitAnd"},
	{"<<", 8, "bin", "LShift"}, {">>", 8, "bin", "RShift"},
	{"+", 9, "bin", "Add"}, {"-", 9, "bin", "Sub"},
	{"*", 10, "bin", "Mult"}, {"/", 10, "bin", "Div"}, {"//", 10, "bin", "FloorDiv"}, {"%", 10, "bin", "Mod"},
	{"**", 12, "bin", "Pow"},
}

// c06Dump renders the expression subset in a canonical form
func c06Dump(e ast.Expr) string {
	switch x := e.(type) {
	case *ast.Name:
		return string(x.Id)
	case *ast.BinOp:
		return x.Op.String() + "(" + c06Dump(x.Left) + "," + c06Dump(x.Right) + ")"
	case *ast.BoolOp:
		s := x.Op.String() + "["
		for i, v := range x.Values {
			if i > 0 {
				s += ","
			}
			s += c06Dump(v)
		}
		return s + "]"
	case *ast.Compare:
		s := "Cmp(" + c06Dump(x.Left)
		for i, op := range x.Ops {
			s += "," + op.String() + "," + c06Dump(x.Comparators[i])
		}
		return s + ")"
	case *ast.UnaryOp:
		return x.Op.String() + "(" + c06Dump(x.Operand) + ")"
	}
	return "?"
}

// the reference: what tree do the operator precedences assign to  u1 a OP1 u2 b OP2 u3 c ?
type c06Node struct {
	dump  string
	level int    // binding strength of the node's top operator (100 for atoms)
	kind  string // for merging chains of and/or and comparisons
	op    string
}

func c06Unary(u int, operand string) c06Node {
	switch u {
	case 1:
		return c06Node{dump: "USub()(" + operand + ")", level: 11}
	case 2:
		return c06Node{dump: "Invert()(" + operand + ")", level: 11}
	case 3:
		return c06Node{dump: "Not()(" + operand + ")", level: 3}
	}
	return c06Node{dump: operand, level: 100}
}

func c06Combine(op c06Op, l, r c06Node) c06Node {
	switch op.kind {
	case "bool":
		// a or b or c is ONE BoolOp with three values
		if l.kind == "bool" && l.op == op.name {
			return c06Node{dump: l.dump[:len(l.dump)-1] + "," + r.dump + "]", level: op.level, kind: "bool", op: op.name}
		}
		return c06Node{dump: op.name + "()[" + l.dump + "," + r.dump + "]", level: op.level, kind: "bool", op: op.name}
	case "cmp":
		if l.kind == "cmp" {
			return c06Node{dump: l.dump[:len(l.dump)-1] + "," + op.name + "()," + r.dump + ")", level: op.level, kind: "cmp"}
		}
		return c06Node{dump: "Cmp(" + l.dump + "," + op.name + "()," + r.dump + ")", level: op.level, kind: "cmp"}
	}
	return c06Node{dump: op.name + "()(" + l.dump + "," + r.dump + ")", level: op.level}
}

//verif:property C06 C01
//verif:expect parsed
//verif:maxpaths 20000 200000
//verif:timeout 300 1200
func VerifC06Grouping() {
	op1 := c06Ops[verifChoice("op1", len(c06Ops))]
	op2 := c06Ops[verifChoice("op2", len(c06Ops))]
	// unary prefix on b (the middle operand): none, -, ~, not
	u := verifChoice("unary_b", verifBound(2, 4))
	pre := []string{"", "-", "~", "not "}[u]
	// spelling variation: spaces / redundant parentheses around the atoms
	sp := []string{" ", "  ", "\t"}[verifChoice("space", verifBound(1, 3))]
	a, b, c := "a", "b", "c"
	if verifChoice("paren_atoms", 2) == 1 {
		a, b, c = "(a)", "( b )", "((c))"
	}
	// "a is not b" spells the operator "is not" (covered by op1 = "is not" with no prefix), not "is" applied to "not b"
	verifAssume(!(op1.text == "is" && u == 3))
	src := a + sp + op1.text + sp + pre + b + sp + op2.text + sp + c
	tree, err := ParseString(src, py.EvalMode)
	verifReach("parsed")

	// "not" as the operand of an operator that binds tighter than not is not in the grammar:  a + not b
	if u == 3 && op1.level > 3 {
		verifAssert(err != nil, "text outside the grammar is rejected")
		return
	}
	verifAssert(err == nil, "a legal expression parses")
	got := c06Dump(tree.(*ast.Expression).Body)

	// reference: precedence climbing over  a OP1 (u b) OP2 c
	A := c06Node{dump: "a", level: 100}
	C := c06Node{dump: "c", level: 100}
	var want c06Node
	switch {
	case u != 0 && u != 3 && op2.name == "Pow":
		// ** binds tighter than a unary operator on its left:  -b ** c  is  -(b ** c)
		inner := c06Combine(op2, c06Node{dump: "b", level: 100}, C)
		ub := c06Unary(u, inner.dump)
		want = c06Combine(op1, A, ub)
	case u == 3:
		// not binds weaker than comparisons and everything arithmetic:  a or not b < c  is  a or (not (b < c))
		if op2.level > 3 {
			inner := c06Combine(op2, c06Node{dump: "b", level: 100}, C)
			want = c06Combine(op1, A, c06Unary(3, inner.dump))
		} else {
			// not b and c : (not b) and c ; grouping of op1 / op2 by their own levels
			B := c06Unary(3, "b")
			want = c06Group(op1, op2, A, B, C)
		}
	default:
		B := c06Unary(u, "b")
		want = c06Group(op1, op2, A, B, C)
	}
	verifLog("src  " + src)
	verifLog("got  " + got)
	verifLog("want " + want.dump)
	verifAssert(got == want.dump, "the tree is the one Python's precedence and associativity assign")
}

func c06Group(op1, op2 c06Op, A, B, C c06Node) c06Node {
	right := false
	switch {
	case op2.level > op1.level:
		right = true
	case op2.level == op1.level && op1.name == "Pow":
		right = true // ** is right associative
	}
	if right {
		return c06Combine(op1, A, c06Combine(op2, B, C))
	}
	return c06Combine(op2, c06Combine(op1, A, B), C)
}

var _ = strconv.Itoa
