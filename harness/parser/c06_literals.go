package parser

import (
	"math/big"

	"github.com/go-python/gpython/ast"
	"github.com/go-python/gpython/py"
)

// C06 — integer literals in every base denote their exact value; call argument
// lists follow the 3.4 grammar's ordering rules or are rejected.

func c06IntValue(o py.Object) *big.Int {
	switch x := o.(type) {
	case py.Int:
		return big.NewInt(int64(x))
	case *py.BigInt:
		return new(big.Int).Set((*big.Int)(x))
	}
	return big.NewInt(-1)
}

//verif:property C06 C07
//verif:bigw 96
//verif:expect parsed
//verif:maxpaths 20000 100000
func VerifC06IntLiterals() {
	type form struct {
		prefix string
		base   int
	}
	f := []form{{"", 10}, {"0x", 16}, {"0X", 16}, {"0o", 8}, {"0b", 2}}[verifChoice("form", 5)]
	// 1..2 symbolic leading digits followed by a concrete tail that brings the literal to 1..3, 15..17 or 19..20 digits
	nsym := 1 + verifChoice("nsym", 2)
	tails := []string{"", "1", "1010101010101", "10101010101010", "101010101010101", "10101010101010101", "101010101010101010"}
	tail := tails[verifChoice("tail", len(tails))]
	digits := verifString("d", nsym)
	for i := 0; i < nsym; i++ {
		_, ok := verifParseDigits(digits[i:i+1], f.base)
		verifAssume(ok)
	}
	if f.base == 10 {
		verifAssume(digits[0] != '0') // decimal literals have no leading zero
	}
	src := f.prefix + digits + tail
	tree, err := ParseString(src, py.EvalMode)
	verifReach("parsed")
	verifAssert(err == nil, "a well-formed integer literal is accepted")
	num, ok := tree.(*ast.Expression).Body.(*ast.Num)
	verifAssert(ok, "and is a Num node")
	want, _ := verifParseDigits(digits+tail, f.base)
	verifAssert(c06IntValue(num.N).Cmp(want) == 0, "the literal denotes its exact value")
}

//verif:property C06
//verif:expect parsed
//verif:maxpaths 20000 100000
func VerifC06CallArguments() {
	// kinds: 0 positional, 1 keyword, 2 *seq, 3 **map
	n := 1 + verifChoice("n", verifBound(3, 4))
	kinds := make([]int, n)
	src := "f("
	names := []string{"a", "b", "c", "d"}
	for i := 0; i < n; i++ {
		kinds[i] = verifChoice("k"+names[i], 4)
		if i > 0 {
			src += ", "
		}
		switch kinds[i] {
		case 0:
			src += names[i]
		case 1:
			src += "kw" + names[i] + "=" + names[i]
		case 2:
			src += "*" + names[i]
		default:
			src += "**" + names[i]
		}
	}
	src += ")"
	tree, err := ParseString(src, py.EvalMode)
	verifReach("parsed")
	// the 3.4 rules: positional arguments first, then keywords; after *seq only keywords
	// (and **map); **map must be last; at most one of each starred form
	legal := true
	seenKw, seenStar, seenDstar := false, false, false
	for _, k := range kinds {
		if seenDstar {
			legal = false
		}
		switch k {
		case 0:
			if seenKw || seenStar {
				legal = false
			}
		case 1:
			seenKw = true
		case 2:
			if seenStar {
				legal = false
			}
			seenStar = true
		default:
			seenDstar = true
		}
	}
	verifLog("src " + src)
	if !legal {
		verifAssert(err != nil, "an argument list outside the grammar is rejected")
		return
	}
	verifAssert(err == nil, "a legal argument list parses")
	call, ok := tree.(*ast.Expression).Body.(*ast.Call)
	verifAssert(ok, "as a call")
	np, nk := 0, 0
	for i, k := range kinds {
		switch k {
		case 0:
			verifAssert(np < len(call.Args) && c06Dump(call.Args[np]) == names[i], "positional arguments in order")
			np++
		case 1:
			verifAssert(nk < len(call.Keywords) && string(call.Keywords[nk].Arg) == "kw"+names[i] && c06Dump(call.Keywords[nk].Value) == names[i], "keyword arguments in order")
			nk++
		case 2:
			verifAssert(call.Starargs != nil && c06Dump(call.Starargs) == names[i], "*seq")
		default:
			verifAssert(call.Kwargs != nil && c06Dump(call.Kwargs) == names[i], "**map")
		}
	}
	verifAssert(np == len(call.Args) && nk == len(call.Keywords), "no argument dropped or invented")
}

// physical lines of any length are accepted: the length (around the reader's
// buffer size) and the kind of padding are chosen symbolically
//
//verif:property C06 C11
//verif:expect parsed
//verif:maxsteps 40000000
func VerifC06LongLines() {
	lens := []int{100, 4090, 4095, 4096, 4097, 5000, 8200}
	n := lens[verifChoice("len", len(lens))]
	pad := make([]byte, n)
	kind := verifChoice("kind", 3)
	for i := range pad {
		pad[i] = ' '
		if kind == 2 {
			pad[i] = 'a'
		}
	}
	var src string
	switch kind {
	case 0:
		src = "x = 1" + string(pad) + "\ny = 2\n"
	case 1:
		src = "x = 1 #" + string(pad) + "\ny = 2\n"
	default:
		src = "x = '" + string(pad) + "'\ny = 2\n"
	}
	tree, err := ParseString(src, py.ExecMode)
	verifReach("parsed")
	verifAssert(err == nil, "a long physical line is legal")
	m, ok := tree.(*ast.Module)
	verifAssert(ok && len(m.Body) == 2, "both statements are parsed")
	if kind == 2 {
		s, ok := m.Body[0].(*ast.Assign).Value.(*ast.Str)
		verifAssert(ok && len(s.S) == n, "the long string literal keeps its full value")
	}
}
