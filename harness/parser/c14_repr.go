package parser

import (
	"math"
	"strconv"

	"github.com/go-python/gpython/ast"
	"github.com/go-python/gpython/py"
)

// C14 — repr() of str, bytes, int and nested tuples/lists of them is a literal
// that the (real) lexer and parser read back as an equal value.

var c14Runes = []rune{'a', '\'', '"', '\\', 0, '\n', 0x7f, 0xe9, 0x800, 0x2070e, '\t', 0x80}
var c14Floats = []float64{0.0, math.Copysign(0, -1), 1.5, -2.25, 0.1, 1e16, 1e22, 1e-7, 5e-324, 1.7976931348623157e308, 123456789.125}

var c14Bytes = []byte{'a', '\'', '"', '\\', 0, '\n', 0x7f, 0x80, 0xff, '\t'}

// c14Eval evaluates the literal subset of expressions
func c14Eval(e ast.Expr) (py.Object, bool) {
	switch x := e.(type) {
	case *ast.Num:
		return x.N, true
	case *ast.Str:
		return x.S, true
	case *ast.Bytes:
		return x.S, true
	case *ast.UnaryOp:
		if x.Op == ast.USub {
			v, ok := c14Eval(x.Operand)
			if !ok {
				return nil, false
			}
			r, err := py.Neg(v)
			return r, err == nil
		}
	case *ast.Tuple:
		t := make(py.Tuple, len(x.Elts))
		for i, el := range x.Elts {
			v, ok := c14Eval(el)
			if !ok {
				return nil, false
			}
			t[i] = v
		}
		return t, true
	case *ast.List:
		l := py.NewList()
		for _, el := range x.Elts {
			v, ok := c14Eval(el)
			if !ok {
				return nil, false
			}
			l.Append(v)
		}
		return l, true
	}
	return nil, false
}

func c14Leaf(name string) py.Object {
	switch verifChoice(name+"_kind", 4) {
	case 3: // a float from a list of special and ordinary values (float text is concrete: no symbolic formatting)
		return py.Float(c14Floats[verifChoice(name+"_float", len(c14Floats))])
	case 0: // str of 0..2 code points
		k := verifChoice(name+"_len", verifBound(2, 3))
		rs := make([]rune, k)
		for i := range rs {
			rs[i] = c14Runes[verifChoice(name+"_r"+strconv.Itoa(i), verifBound(7, len(c14Runes)))]
		}
		return py.String(string(rs))
	case 1: // bytes of 0..2 bytes
		k := verifChoice(name+"_len", 3)
		bs := make([]byte, k)
		for i := range bs {
			bs[i] = c14Bytes[verifChoice(name+"_b"+strconv.Itoa(i), verifBound(7, len(c14Bytes)))]
		}
		return py.Bytes(bs)
	}
	return py.Int([]int64{0, -1, 7, 1 << 40}[verifChoice(name+"_int", 4)])
}

func c14Same(a, b py.Object) bool {
	switch x := a.(type) {
	case py.Tuple:
		y, ok := b.(py.Tuple)
		if !ok || len(x) != len(y) {
			return false
		}
		for i := range x {
			if !c14Same(x[i], y[i]) {
				return false
			}
		}
		return true
	case *py.List:
		y, ok := b.(*py.List)
		if !ok || len(x.Items) != len(y.Items) {
			return false
		}
		for i := range x.Items {
			if !c14Same(x.Items[i], y.Items[i]) {
				return false
			}
		}
		return true
	case py.Bytes:
		y, ok := b.(py.Bytes)
		return ok && string(x) == string(y)
	case py.Float:
		y, ok := b.(py.Float)
		return ok && math.Float64bits(float64(x)) == math.Float64bits(float64(y))
	}
	return a == b
}

//verif:property C14
//verif:expect parsed
//verif:maxpaths 100000 600000
//verif:timeout 300 1800
func VerifC14ReprRoundTrip() {
	var v py.Object
	switch verifChoice("shape", 4) {
	case 0:
		v = c14Leaf("x")
	case 1: // tuple of 0..2 leaves
		n := verifChoice("n", 3)
		t := make(py.Tuple, n)
		for i := range t {
			t[i] = c14Leaf("e" + strconv.Itoa(i))
		}
		v = t
	case 2: // list of 0..2 leaves
		n := verifChoice("n", 3)
		l := py.NewList()
		for i := 0; i < n; i++ {
			l.Append(c14Leaf("e" + strconv.Itoa(i)))
		}
		v = l
	default: // one level of nesting
		v = py.Tuple{py.NewListFromItems([]py.Object{c14Leaf("e0")}), py.Tuple{c14Leaf("e1")}}
	}
	r, err := py.Repr(v)
	verifAssert(err == nil, "repr works")
	text := string(r.(py.String))
	tree, err := ParseString(text, py.EvalMode)
	verifReach("parsed")
	verifLog("repr " + text)
	verifAssert(err == nil, "repr() produces text the compiler accepts")
	if err != nil {
		return
	}
	back, ok := c14Eval(tree.(*ast.Expression).Body)
	verifAssert(ok, "and that text is a literal")
	verifAssert(c14Same(back, v), "which evaluates back to an equal value")
}
