package repl

import (
	"strings"

	"github.com/go-python/gpython/py"
	"github.com/go-python/gpython/stdlib"
	"github.com/go-python/gpython/vm"
)

// C20 — line-at-a-time interactive input is equivalent to running the
// statements one by one.
//
// A session is a sequence of statements drawn from a family of templates
// (simple, compound, nested blocks, multi-line brackets and strings with
// empty lines, comments, backslash continuation, erroneous statements), each
// optionally followed by noise lines (blank, comment). It is fed to the real
// REPL (repl.New / REPL.Run on a real context, real parser, compiler and VM)
// one physical line at a time, with a blank line after each multi-line
// statement. The oracle runs the same statements one at a time, each compiled
// in one piece, in a second context, and both sides must agree on every echo,
// every error, the prompts and the final session namespace.

type c20UI struct {
	prompts []string
	out     []string
}

func (u *c20UI) SetPrompt(p string) { u.prompts = append(u.prompts, p) }
func (u *c20UI) Print(s string)     { u.out = append(u.out, s) }

var c20Errors []string

func verifTracebackDump(err error) { c20Errors = append(c20Errors, c20ErrName(err)) }

func c20ErrName(err error) string {
	switch e := err.(type) {
	case *py.Exception:
		return e.Base.Name
	case py.ExceptionInfo:
		if t := e.Type; t != nil {
			return t.Name
		}
	}
	return "error"
}

// statement templates: text (physical lines joined by \n)
var c20Templates = []string{
	"x = 3",
	"x + 1",
	"None",
	"'a' * 2",
	"if x:\n    y = 1\nelse:\n    y = 2",
	"def f(a):\n    return a + 1",
	"f(2)",
	"for i in range(3):\n    x = x + i",
	"z = (1,\n     2)",
	"s = \"\"\"a\n\nb\"\"\"",
	"x = = 1",
	"1 / 0",
	"if x:\n    if x > 1:\n        w = 1\n    v = 2",
	"class C:\n    a = 1",
	"q = 1 + \\\n    2",
	"try:\n    1 / 0\nexcept ZeroDivisionError:\n    e = 1",
	"x = 5 # trailing comment",
	"t = [1,\n\n     2]",
	"undefined_name",
	"_",
	"while x > 4:\n    x = x - 1",
	"def g():\n    # comment in a block\n    return 7",
	"g()",
	"for i in range(3):\n    x = = i",
	"if x:\n    y = 1\n  z = 2",
}

var c20Noise = []string{"", "# note", "   ", "    # indented note", "\t"}

type c20Result struct {
	echo   []string
	errors []string
}

func c20Context() py.Context {
	py.RegisterModule(&py.ModuleImpl{Info: py.ModuleInfo{Name: "sys"}, Globals: py.StringDict{}})
	return stdlib.NewContext(py.ContextOpts{})
}

func c20Globals(g py.StringDict) map[string]string {
	out := map[string]string{}
	for k, v := range g {
		if strings.HasPrefix(k, "__") {
			continue
		}
		switch x := v.(type) {
		case py.Int, py.String, py.Bool, py.NoneType, py.Tuple, *py.List, py.Float:
			r, err := py.ReprAsString(x)
			if err != nil {
				r = "<repr error>"
			}
			out[k] = r
		default:
			out[k] = "<" + v.Type().Name + ">"
		}
	}
	return out
}

//verif:property C20
//verif:maxpaths 200000 2000000
//verif:runinit github.com/go-python/gpython/py.init@type.go:1 github.com/go-python/gpython/py.init@exception.go:1 github.com/go-python/gpython/vm.init#1 github.com/go-python/gpython/vm.init#2 github.com/go-python/gpython/stdlib/builtin.init#1 github.com/go-python/gpython/compile.init@compile.go:1
//verif:expect fed
func VerifC20Session() {
	n := verifBound(2, 3)
	var stmts []string
	var noise []int
	for i := 0; i < n; i++ {
		stmts = append(stmts, c20Templates[verifChoice("stmt"+string(rune('0'+i)), len(c20Templates))])
		k := 0
		if i == 0 {
			k = verifChoice("noise"+string(rune('0'+i)), 1+len(c20Noise))
		}
		noise = append(noise, k)
	}

	// ---- the oracle: each statement compiled in one piece, run in order
	refCtx := c20Context()
	refMod, err := refCtx.ModuleInit(&py.ModuleImpl{Info: py.ModuleInfo{FileDesc: "<stdin>"}})
	verifAssert(err == nil, "reference module")
	var ref c20Result
	oldPrint := vm.PrintExpr
	vm.PrintExpr = func(s string) { ref.echo = append(ref.echo, s) }
	for _, s := range stmts {
		code, err := py.Compile(s+"\n", "<stdin>", py.SingleMode, 0, true)
		if err != nil {
			ref.errors = append(ref.errors, "compile")
			continue
		}
		_, err = refCtx.RunCode(code, refMod.Globals, refMod.Globals, nil)
		if err != nil {
			ref.errors = append(ref.errors, c20ErrName(err))
		}
	}
	vm.PrintExpr = oldPrint

	// ---- the REPL, one physical line at a time
	c20Errors = nil
	r := New(c20Context())
	ui := &c20UI{}
	r.SetUI(ui)
	var got c20Result
	for i, s := range stmts {
		lines := strings.Split(s, "\n")
		for j, line := range lines {
			before := len(ui.out)
			err := r.Run(line)
			verifAssert(err == nil, "Run returns no error")
			last := ui.prompts[len(ui.prompts)-1]
			if len(lines) > 1 {
				verifAssert(last == ContinuationPrompt, "the continuation prompt is shown while a multi-line statement is being entered")
				verifAssert(len(ui.out) == before, "nothing runs before the statement is terminated")
			} else if j == len(lines)-1 {
				verifAssert(last == NormalPrompt, "the normal prompt is shown once everything entered has been executed")
			}
		}
		if len(lines) > 1 {
			err := r.Run("") // the terminating blank line
			verifAssert(err == nil, "Run returns no error")
			verifAssert(ui.prompts[len(ui.prompts)-1] == NormalPrompt, "the normal prompt is shown once everything entered has been executed")
		}
		if noise[i] > 0 {
			err := r.Run(c20Noise[noise[i]-1])
			verifAssert(err == nil, "Run returns no error")
			verifAssert(ui.prompts[len(ui.prompts)-1] == NormalPrompt, "blank and comment lines between statements leave the normal prompt")
		}
	}
	verifReach("fed")
	for _, o := range ui.out {
		if strings.HasPrefix(o, "Compile error:") {
			got.errors = append(got.errors, "compile")
		} else {
			got.echo = append(got.echo, o)
		}
	}
	// runtime errors come through the traceback hook, compile errors through Print: merge in order is not
	// observable here, so compare the two kinds separately
	var refCompile, refRuntime, gotCompile []string
	for _, e := range ref.errors {
		if e == "compile" {
			refCompile = append(refCompile, e)
		} else {
			refRuntime = append(refRuntime, e)
		}
	}
	gotCompile = got.errors
	verifAssert(len(gotCompile) == len(refCompile), "the same statements are rejected at compile time")
	verifAssert(len(c20Errors) == len(refRuntime), "the same statements fail at run time")
	for i := range refRuntime {
		if i < len(c20Errors) {
			verifAssert(c20Errors[i] == refRuntime[i], "with the same exception")
		}
	}
	verifAssert(len(got.echo) == len(ref.echo), "the same expression statements are echoed")
	for i := range ref.echo {
		if i < len(got.echo) {
			verifAssert(got.echo[i] == ref.echo[i], "with the same repr")
		}
	}
	gg, rg := c20Globals(r.Module.Globals), c20Globals(refMod.Globals)
	verifAssert(len(gg) == len(rg), "the session namespace holds the same names")
	for k, v := range rg {
		verifAssert(gg[k] == v, "the session namespace holds the same values")
	}
}

// The value of a bare expression statement is bound to _ unless it is None.
//
//verif:property C20
//verif:runinit github.com/go-python/gpython/py.init@type.go:1 github.com/go-python/gpython/py.init@exception.go:1 github.com/go-python/gpython/vm.init#1 github.com/go-python/gpython/vm.init#2 github.com/go-python/gpython/stdlib/builtin.init#1 github.com/go-python/gpython/compile.init@compile.go:1
//verif:expect fed
func VerifC20Underscore() {
	r := New(c20Context())
	ui := &c20UI{}
	r.SetUI(ui)
	first := []string{"41 + 1", "'s'", "(1, 2)"}[verifChoice("first", 3)]
	want := []string{"42", "'s'", "(1, 2)"}[verifChoiceOf("first")]
	verifAssert(r.Run(first) == nil, "Run")
	verifAssert(len(ui.out) == 1 && ui.out[0] == want, "the value is echoed as its repr")
	second := []string{"None", "x = 1", "if 1:\n    pass"}[verifChoice("second", 3)]
	for _, l := range strings.Split(second, "\n") {
		verifAssert(r.Run(l) == nil, "Run")
	}
	if strings.Contains(second, "\n") {
		verifAssert(r.Run("") == nil, "Run")
	}
	verifReach("fed")
	verifAssert(len(ui.out) == 1, "None and statements echo nothing")
	v, ok := r.Module.Globals["_"]
	verifAssert(ok, "_ is bound")
	s, err := py.ReprAsString(v)
	verifAssert(err == nil && s == want, "_ keeps the last echoed value: None does not rebind it")
}

// Only a bare expression statement entered at the prompt is echoed: expression
// statements inside a function or class body defined at the prompt are not.
//
//verif:property C20
//verif:runinit github.com/go-python/gpython/py.init@type.go:1 github.com/go-python/gpython/py.init@exception.go:1 github.com/go-python/gpython/vm.init#1 github.com/go-python/gpython/vm.init#2 github.com/go-python/gpython/stdlib/builtin.init#1 github.com/go-python/gpython/compile.init@compile.go:1
//verif:expect fed
func VerifC20NestedNoEcho() {
	r := New(c20Context())
	ui := &c20UI{}
	r.SetUI(ui)
	defs := []string{
		"def h():\n    1 + 1\n    'ignored'\n    return 0",
		"class D:\n    1 + 1\n    def m(self):\n        2 + 2\n        return 0",
		"def outer():\n    def inner():\n        3 + 3\n        return 0\n    inner()\n    return 0",
	}
	calls := []string{"h()", "D().m()", "outer()"}
	k := verifChoice("which", len(defs))
	for _, l := range strings.Split(defs[k], "\n") {
		verifAssert(r.Run(l) == nil, "Run")
	}
	verifAssert(r.Run("") == nil, "Run")
	verifAssert(len(ui.out) == 0, "defining a function or class echoes nothing")
	verifAssert(r.Run(calls[k]) == nil, "Run")
	verifReach("fed")
	verifAssert(len(ui.out) == 1 && ui.out[0] == "0", "only the value of the statement typed at the prompt is echoed")
	v, ok := r.Module.Globals["_"]
	verifAssert(ok && v == py.Object(py.Int(0)), "_ is the echoed value")
}
