package main

import (
	"encoding/json"
	"fmt"
	"os"
	"os/exec"
	"path/filepath"
	"regexp"
	"sort"
	"strconv"
	"strings"
	"sync"
	"time"

	"verif/engine/sym"
)

// Concurrency checks: the traces of thread templates (sym/conc.go), recorded
// from /repo's current source, are composed into a bounded transition system
// over the shared fields and the synchronisation objects they touch. The
// schedule is a vector of SMT variables; a violation is a state flag; the
// solver is asked for a schedule that sets it (or that reaches a state where
// some thread is unfinished and none is enabled). Bound: N threads, each
// running any one template, K = sum of the longest trace per thread steps, so
// every complete interleaving fits (stuttering steps fill the rest).

type concMark struct {
	Check  [][2]string    `json:"check"`  // [SMT condition over counters/flags in the pre-state, what it means]
	Update map[string]int `json:"update"` // counter deltas
}

type concSpec struct {
	Property    string              `json:"property"`
	Package     string              `json:"package"`
	Templates   []string            `json:"templates"`
	Counters    []string            `json:"counters"`
	Marks       map[string]concMark `json:"marks"`
	ChanClose   [][2]string         `json:"chan_close"`
	ThreadFlags map[string]string   `json:"thread_flags"` // flag -> condition evaluated when the thread takes its first step
	Threads     [2]int              `json:"threads"`      // quick, thorough
	ReplayFunc  string              `json:"replay_func"`
	// a blocked state only counts as a deadlock if some thread runs a trace with this mark
	// (waiting for a signal nobody was asked to send is not a defect of the code under test)
	DeadlockIfMark string `json:"deadlock_if_mark"`
	// quick tier: beyond Threads[0] threads, one more thread is explored for the assignments in which at
	// most one thread runs a template outside this list (they are decided in seconds)
	QuickLight []string `json:"quick_light_templates"`
	Expect     []string `json:"expect_marks"`
}

type concTemplate struct {
	Name  string
	Paths []*sym.ConcPath
	Res   *sym.HarnessResult
}

type concCex struct {
	What     string   `json:"what"`
	Kind     string   `json:"kind"` // monitor | panic | deadlock
	Threads  []string `json:"threads"`
	Steps    []string `json:"steps"`  // readable schedule
	Replay   []int    `json:"replay"` // native schedule: thread to resume, step by step
	Native   string   `json:"native"`
	Confirm  bool     `json:"confirmed"`
	Known    bool     `json:"known"`
	KnownMsg string   `json:"-"`
}

func findConcSpec(prop string) (*concSpec, string) {
	ms, _ := filepath.Glob(filepath.Join(harnessDir, "*", "conc_"+prop+".json"))
	if len(ms) == 0 {
		return nil, ""
	}
	b, err := os.ReadFile(ms[0])
	if err != nil {
		return nil, ""
	}
	var sp concSpec
	if err := json.Unmarshal(b, &sp); err != nil {
		fmt.Println("conc spec:", err)
		return nil, ""
	}
	return &sp, filepath.Base(filepath.Dir(ms[0]))
}

func smtName(s string) string {
	return regexp.MustCompile(`[^A-Za-z0-9_]`).ReplaceAllString(s, "_")
}

// recordTemplates runs every template in recording mode.
func recordTemplates(ld *loaded, sp *concSpec, pkgDir string, tier tierCfg, verbose bool) ([]*concTemplate, error) {
	var out []*concTemplate
	for _, name := range sp.Templates {
		var h *Harness
		for _, x := range ld.harness {
			if x.Name == name && x.PkgDir == pkgDir {
				h = x
			}
		}
		if h == nil {
			return nil, fmt.Errorf("thread template %s not found (does the harness still compile?)", name)
		}
		pkg := ld.pkgs[h.PkgDir]
		fn := pkg.Func(h.Name)
		if fn == nil {
			return nil, fmt.Errorf("thread template %s not in SSA", name)
		}
		tpl := &concTemplate{Name: name}
		newSolver := func() *sym.Solver { return sym.NewSolver([]string{"z3", "cvc5"}, 10*time.Second) }
		ex := &sym.Explorer{Prog: ld.prog, NewSolver: newSolver, Workers: 1, BigW: 64, MaxSteps: 3000000, MaxDecisions: 200, MaxSymLen: 8, MaxPaths: 2000,
			Deadline: time.Now().Add(120 * time.Second), Havoc: map[string]bool{}, RunInit: h.RunInit, Verbose: verbose, Tier: tier.idx,
			Conc: true, OnConcPath: func(p *sym.ConcPath) { tpl.Paths = append(tpl.Paths, p) }}
		for _, hv := range h.Havoc {
			ex.Havoc[hv] = true
		}
		tpl.Res = ex.Run(fn)
		if !tpl.Res.Complete || len(tpl.Res.Unsupported) > 0 {
			return nil, fmt.Errorf("thread template %s could not be recorded completely: %v %v", name, tpl.Res.Unsupported, tpl.Res.Inconclusive)
		}
		out = append(out, tpl)
	}
	// events without any effect in the model are dropped (their scheduling point moves to the next
	// event of the trace): marks the specification gives no check and no update, and writes to
	// fields no trace ever reads
	read := map[string]bool{}
	for _, t := range out {
		for _, p := range t.Paths {
			for _, e := range p.Events {
				if e.Kind == "rd" {
					read[e.Field] = true
				}
			}
		}
	}
	for _, tpl := range out {
		for _, p := range tpl.Paths {
			var kept []sym.ConcEvent
			carry := false
			for _, e := range p.Events {
				mk, isMark := sp.Marks[e.Tag]
				noop := (e.Kind == "mark" && e.Tag != sp.DeadlockIfMark && (!isMark || (len(mk.Check) == 0 && len(mk.Update) == 0))) || (e.Kind == "wr" && !read[e.Field])
				if noop {
					carry = carry || e.Yield
					continue
				}
				e.Yield = e.Yield || carry
				carry = false
				kept = append(kept, e)
			}
			p.Events = kept
		}
		// deterministic order
		sort.Slice(tpl.Paths, func(i, j int) bool { return pathKey(tpl.Paths[i]) < pathKey(tpl.Paths[j]) })
	}
	return out, nil
}

func pathKey(p *sym.ConcPath) string {
	var sb strings.Builder
	for _, e := range p.Events {
		fmt.Fprintf(&sb, "%s:%s:%s:%s:%d;", e.Kind, e.Field, e.Tag, e.Val, e.N)
	}
	sb.WriteString(strings.Join(p.PC, "&"))
	return sb.String()
}

type concModel struct {
	sp    *concSpec
	T, K  int
	paths [][]*sym.ConcPath // paths[t]: the traces of the template thread t runs
	tplOf []string          // tplOf[t]: that template's name
	// state variables
	fields   map[string]string // shared field -> sort
	wgs      []string
	onces    []string
	mus      []string
	chans    []string
	viol     []string // violation code (1-based) -> meaning
	violKind []string
}

func (m *concModel) code(kind, what string) int {
	for i, v := range m.viol {
		if v == what {
			return i + 1
		}
	}
	m.viol = append(m.viol, what)
	m.violKind = append(m.violKind, kind)
	return len(m.viol)
}

func uniqAdd(l *[]string, s string) {
	for _, x := range *l {
		if x == s {
			return
		}
	}
	*l = append(*l, s)
}

func buildConcModel(sp *concSpec, tpls []*concTemplate, assign []int) *concModel {
	T := len(assign)
	m := &concModel{sp: sp, T: T, fields: map[string]string{}}
	for _, ti := range assign {
		t := tpls[ti]
		m.paths = append(m.paths, t.Paths)
		m.tplOf = append(m.tplOf, t.Name)
		maxLen := 0
		for _, p := range t.Paths {
			if len(p.Events) > maxLen {
				maxLen = len(p.Events)
			}
		}
		m.K += maxLen // every complete interleaving of the longest traces fits
	}
	// state variables: from all templates, so that every query has the same shape
	for _, t := range tpls {
		for _, p := range t.Paths {
			for _, e := range p.Events {
				switch e.Kind {
				case "rd":
					m.fields[smtName(e.Field)] = e.Sort
				case "wr":
					if _, ok := m.fields[smtName(e.Field)]; !ok {
						m.fields[smtName(e.Field)] = "Bool"
					}
					if _, err := strconv.Atoi(e.Val); err == nil {
						m.fields[smtName(e.Field)] = "Int"
					}
				case "wg_add", "wg_wait":
					uniqAdd(&m.wgs, smtName(e.Field))
				case "once_begin", "once_end":
					uniqAdd(&m.onces, smtName(e.Field))
				case "mu_lock", "mu_unlock":
					uniqAdd(&m.mus, smtName(e.Field))
				case "ch_close", "ch_recv":
					uniqAdd(&m.chans, smtName(e.Field))
				}
			}
		}
	}
	return m
}

// globals: ordered list of (name, sort, initial value)
func (m *concModel) globals() [][3]string {
	var g [][3]string
	var fs []string
	for f := range m.fields {
		fs = append(fs, f)
	}
	sort.Strings(fs)
	for _, f := range fs {
		init := "false"
		if m.fields[f] == "Int" {
			init = "0"
		}
		g = append(g, [3]string{"S_" + f, m.fields[f], init})
	}
	for _, w := range m.wgs {
		g = append(g, [3]string{"WG_" + w, "Int", "0"})
	}
	for _, o := range m.onces {
		g = append(g, [3]string{"ONCE_" + o, "Int", "0"})
	}
	for _, x := range m.mus {
		g = append(g, [3]string{"MU_" + x, "Bool", "false"})
	}
	for _, c := range m.chans {
		g = append(g, [3]string{"CH_" + c, "Bool", "false"})
	}
	for _, c := range m.sp.Counters {
		g = append(g, [3]string{"C_" + c, "Int", "0"})
	}
	g = append(g, [3]string{"bad", "Int", "0"})
	return g
}

func (m *concModel) flagNames() []string {
	var fl []string
	for f := range m.sp.ThreadFlags {
		fl = append(fl, f)
	}
	sort.Strings(fl)
	return fl
}

// substitute counter / flag names of a spec condition by their step-i variables
func (m *concModel) cond(expr string, i, t int) string {
	out := expr
	for _, c := range m.sp.Counters {
		out = regexp.MustCompile(`\b`+regexp.QuoteMeta(c)+`\b`).ReplaceAllString(out, fmt.Sprintf("C_%s_%d", c, i))
	}
	for _, f := range m.flagNames() {
		out = regexp.MustCompile(`\b`+regexp.QuoteMeta(f)+`\b`).ReplaceAllString(out, fmt.Sprintf("FL_%s_%d_%d", f, t, i))
	}
	return out
}

func renameSyms(expr string, t, p int) string {
	return regexp.MustCompile(`\b(rd|once|hv)_(\d{4})\b`).ReplaceAllString(expr, fmt.Sprintf("Y_%d_%d_${1}_${2}", t, p))
}

// smt builds the transition system; the caller appends the query.
func (m *concModel) smt() string {
	var sb strings.Builder
	w := func(f string, a ...interface{}) { fmt.Fprintf(&sb, f+"\n", a...) }
	g := m.globals()
	fl := m.flagNames()
	T, K := m.T, m.K
	for i := 0; i <= K; i++ {
		for _, v := range g {
			w("(declare-const %s_%d %s)", v[0], i, v[1])
		}
		for t := 0; t < T; t++ {
			w("(declare-const pc_%d_%d Int)", t, i)
			w("(declare-const st_%d_%d Bool)", t, i) // thread has taken its first step
			for _, f := range fl {
				w("(declare-const FL_%s_%d_%d Bool)", f, t, i)
			}
		}
		if i < K {
			w("(declare-const sched_%d Int)", i)
			w("(assert (and (>= sched_%d 0) (<= sched_%d %d)))", i, i, T)
		}
	}
	for _, v := range g {
		w("(assert (= %s_0 %s))", v[0], v[2])
	}
	for t := 0; t < T; t++ {
		w("(declare-const p_%d Int)", t)
		w("(assert (and (>= p_%d 0) (< p_%d %d)))", t, t, len(m.paths[t]))
		w("(assert (= pc_%d_0 0))", t)
		w("(assert (not st_%d_0))", t)
		for _, f := range fl {
			w("(assert (not FL_%s_%d_0))", f, t)
		}
		for p, path := range m.paths[t] {
			var names []string
			for s := range path.Syms {
				names = append(names, s)
			}
			sort.Strings(names)
			for _, s := range names {
				w("(declare-const Y_%d_%d_%s %s)", t, p, s, path.Syms[s])
			}
			if len(path.PC) > 0 {
				var cs []string
				for _, c := range path.PC {
					cs = append(cs, renameSyms(c, t, p))
				}
				w("(assert (=> (= p_%d %d) (and %s)))", t, p, strings.Join(cs, " "))
			}
		}
	}
	// stuttering only at the end of a schedule
	for i := 0; i+1 < K; i++ {
		w("(assert (=> (= sched_%d %d) (= sched_%d %d)))", i, T, i+1, T)
	}
	// symmetry: threads running the same template are interchangeable
	for t := 0; t+1 < T; t++ {
		if m.tplOf[t] == m.tplOf[t+1] {
			w("(assert (<= p_%d p_%d))", t, t+1)
		}
	}
	for i := 0; i < K; i++ {
		// idle step
		var same []string
		for _, v := range g {
			same = append(same, fmt.Sprintf("(= %s_%d %s_%d)", v[0], i+1, v[0], i))
		}
		w("(assert (=> (= sched_%d %d) (and %s)))", i, T, strings.Join(same, " "))
		for t := 0; t < T; t++ {
			// thread-locals of threads not scheduled
			var keep []string
			keep = append(keep, fmt.Sprintf("(= pc_%d_%d pc_%d_%d)", t, i+1, t, i), fmt.Sprintf("(= st_%d_%d st_%d_%d)", t, i+1, t, i))
			for _, f := range fl {
				keep = append(keep, fmt.Sprintf("(= FL_%s_%d_%d FL_%s_%d_%d)", f, t, i+1, f, t, i))
			}
			w("(assert (=> (not (= sched_%d %d)) (and %s)))", i, t, strings.Join(keep, " "))
			// scheduled: one of the alternatives
			var alts []string
			for p, path := range m.paths[t] {
				for k, e := range path.Events {
					alts = append(alts, m.alt(t, p, k, i, e, path, g, fl))
				}
			}
			w("(assert (=> (= sched_%d %d) (or %s)))", i, t, strings.Join(alts, "\n  "))
		}
	}
	// helper predicates
	for i := 0; i <= K; i++ {
		for t := 0; t < T; t++ {
			var fin, en []string
			for p, path := range m.paths[t] {
				fin = append(fin, fmt.Sprintf("(and (= p_%d %d) (= pc_%d_%d %d))", t, p, t, i, len(path.Events)))
				for k, e := range path.Events {
					// enabled = not blocked (a read, or the outcome of Once.Do, never blocks: it selects the trace)
					gd := m.notBlocked(e, i)
					en = append(en, fmt.Sprintf("(and (= p_%d %d) (= pc_%d_%d %d) %s)", t, p, t, i, k, gd))
				}
			}
			w("(define-fun fin_%d_%d () Bool (or %s))", t, i, strings.Join(fin, " "))
			w("(define-fun en_%d_%d () Bool (or %s))", t, i, strings.Join(en, " "))
		}
	}
	return sb.String()
}

func (m *concModel) notBlocked(e sym.ConcEvent, i int) string {
	f := smtName(e.Field)
	switch e.Kind {
	case "wg_wait":
		return fmt.Sprintf("(= WG_%s_%d 0)", f, i)
	case "once_begin":
		return fmt.Sprintf("(not (= ONCE_%s_%d 1))", f, i)
	case "mu_lock":
		return fmt.Sprintf("(not MU_%s_%d)", f, i)
	case "ch_recv":
		return fmt.Sprintf("CH_%s_%d", f, i)
	}
	return "true"
}

func (m *concModel) guard(e sym.ConcEvent, i, t, p int) string {
	f := smtName(e.Field)
	switch e.Kind {
	case "wg_wait":
		return fmt.Sprintf("(= WG_%s_%d 0)", f, i)
	case "once_begin":
		first := fmt.Sprintf("Y_%d_%d_%s", t, p, e.Sym)
		// the first caller proceeds; any other caller waits until the first has finished
		return fmt.Sprintf("(and (= %s (= ONCE_%s_%d 0)) (or %s (= ONCE_%s_%d 2)))", first, f, i, first, f, i)
	case "mu_lock":
		return fmt.Sprintf("(not MU_%s_%d)", f, i)
	case "ch_recv":
		return fmt.Sprintf("CH_%s_%d", f, i)
	case "rd":
		return fmt.Sprintf("(= Y_%d_%d_%s S_%s_%d)", t, p, e.Sym, f, i)
	}
	return "true"
}

func (m *concModel) alt(t, p, k, i int, e sym.ConcEvent, path *sym.ConcPath, g [][3]string, fl []string) string {
	next := map[string]string{} // global var -> expression for step i+1
	var checks [][2]string      // (condition, code)
	f := smtName(e.Field)
	switch e.Kind {
	case "wr":
		next["S_"+f] = renameSyms(e.Val, t, p)
	case "wg_add":
		nv := fmt.Sprintf("(+ WG_%s_%d %d)", f, i, e.N)
		if e.N < 0 {
			nv = fmt.Sprintf("(- WG_%s_%d %d)", f, i, -e.N)
		}
		next["WG_"+f] = nv
		checks = append(checks, [2]string{fmt.Sprintf("(< %s 0)", nv), strconv.Itoa(m.code("panic", "panic: sync: negative WaitGroup counter"))})
	case "once_begin":
		first := fmt.Sprintf("Y_%d_%d_%s", t, p, e.Sym)
		next["ONCE_"+f] = fmt.Sprintf("(ite %s 1 ONCE_%s_%d)", first, f, i)
	case "once_end":
		next["ONCE_"+f] = "2"
	case "mu_lock":
		next["MU_"+f] = "true"
	case "mu_unlock":
		next["MU_"+f] = "false"
		checks = append(checks, [2]string{fmt.Sprintf("(not MU_%s_%d)", f, i), strconv.Itoa(m.code("panic", "panic: sync: unlock of unlocked mutex"))})
	case "ch_close":
		next["CH_"+f] = "true"
		checks = append(checks, [2]string{fmt.Sprintf("CH_%s_%d", f, i), strconv.Itoa(m.code("panic", "panic: close of closed channel"))})
		for _, c := range m.sp.ChanClose {
			checks = append(checks, [2]string{m.cond(c[0], i, t), strconv.Itoa(m.code("monitor", c[1]))})
		}
	case "mark":
		mk := m.sp.Marks[e.Tag]
		for _, c := range mk.Check {
			checks = append(checks, [2]string{m.cond(c[0], i, t), strconv.Itoa(m.code("monitor", c[1]))})
		}
		for c, d := range mk.Update {
			if d >= 0 {
				next["C_"+c] = fmt.Sprintf("(+ C_%s_%d %d)", c, i, d)
			} else {
				next["C_"+c] = fmt.Sprintf("(- C_%s_%d %d)", c, i, -d)
			}
		}
	}
	if path.Panic != "" && k == len(path.Events)-1 {
		checks = append(checks, [2]string{"true", strconv.Itoa(m.code("panic", "panic: "+path.Panic))})
	}
	// first violation wins and sticks
	badNew := "0"
	for j := len(checks) - 1; j >= 0; j-- {
		badNew = fmt.Sprintf("(ite %s %s %s)", checks[j][0], checks[j][1], badNew)
	}
	next["bad"] = fmt.Sprintf("(ite (not (= bad_%d 0)) bad_%d %s)", i, i, badNew)
	parts := []string{fmt.Sprintf("(= p_%d %d)", t, p), fmt.Sprintf("(= pc_%d_%d %d)", t, i, k), m.guard(e, i, t, p), fmt.Sprintf("(= pc_%d_%d %d)", t, i+1, k+1), fmt.Sprintf("st_%d_%d", t, i+1)}
	for _, v := range g {
		if nx, ok := next[v[0]]; ok {
			parts = append(parts, fmt.Sprintf("(= %s_%d %s)", v[0], i+1, nx))
		} else {
			parts = append(parts, fmt.Sprintf("(= %s_%d %s_%d)", v[0], i+1, v[0], i))
		}
	}
	for _, fn := range fl {
		// a thread's flags are fixed when it takes its first step
		parts = append(parts, fmt.Sprintf("(= FL_%s_%d_%d (ite st_%d_%d FL_%s_%d_%d %s))", fn, t, i+1, t, i, fn, t, i, m.cond(m.sp.ThreadFlags[fn], i, t)))
	}
	return "(and " + strings.Join(parts, " ") + ")"
}

type smtResult struct {
	status string
	vals   map[string]string
	secs   float64
	solver string
}

func runSMT(text string, getVals []string, file string, solver string, timeoutS int) smtResult {
	q := "(set-logic QF_LIA)\n" + text + "(check-sat)\n"
	if len(getVals) > 0 {
		q += "(get-value (" + strings.Join(getVals, " ") + "))\n"
	}
	os.MkdirAll(filepath.Dir(file), 0o755)
	os.WriteFile(file, []byte(q), 0o644)
	t0 := time.Now()
	var cmd *exec.Cmd
	if solver == "cvc5" {
		cmd = exec.Command("timeout", strconv.Itoa(timeoutS), "cvc5", "--produce-models", file)
	} else {
		cmd = exec.Command("timeout", strconv.Itoa(timeoutS), solver, file)
	}
	out, _ := cmd.CombinedOutput()
	r := smtResult{vals: map[string]string{}, secs: time.Since(t0).Seconds(), solver: solver}
	s := string(out)
	first := ""
	for _, l := range strings.Split(s, "\n") {
		if l = strings.TrimSpace(l); l == "sat" || l == "unsat" || l == "unknown" {
			first = l
			break
		}
	}
	switch {
	case strings.Contains(s, "(error") && first != "unsat":
		r.status = "error: " + lastLines(s, 2)
	case first == "sat" || first == "unsat":
		r.status = first
	default:
		r.status = "unknown"
	}
	re := regexp.MustCompile(`\(([A-Za-z_0-9]+) (\(- (\d+)\)|[a-z0-9]+)\)`)
	for _, mm := range re.FindAllStringSubmatch(s, -1) {
		v := mm[2]
		if mm[3] != "" {
			v = "-" + mm[3]
		}
		r.vals[mm[1]] = v
	}
	return r
}

// runConc performs the whole concurrency check of one property. It returns the exit status.
func runConc(ld *loaded, sp *concSpec, pkgDir string, tier tierCfg, known []*sym.KnownFinding, verbose bool) int {
	t0 := time.Now()
	prop := sp.Property
	outDir := filepath.Join(outBase, prop)
	os.MkdirAll(outDir, 0o755)
	if old, _ := filepath.Glob(filepath.Join(outDir, "conc-*.json")); len(old) > 0 {
		for _, f := range old {
			os.Remove(f)
		}
	}
	tpls, err := recordTemplates(ld, sp, pkgDir, tier, verbose)
	if err != nil {
		fmt.Println("CHECK-ERROR", err)
		return 2
	}
	funcs := map[string]bool{}
	nPaths := 0
	var traceSamples []interface{}
	for _, t := range tpls {
		for f := range t.Res.Funcs {
			funcs[f] = true
		}
		nPaths += len(t.Paths)
		for _, p := range t.Paths {
			var evs []string
			for _, e := range p.Events {
				evs = append(evs, evString(e))
			}
			fmt.Printf("  trace %s: %s | pc: %s\n", t.Name, strings.Join(evs, " ; "), strings.Join(p.PC, " "))
			if len(traceSamples) < 6 {
				traceSamples = append(traceSamples, map[string]interface{}{"template": t.Name, "events": evs, "path_condition": p.PC})
			}
		}
	}
	T := sp.Threads[tier.idx]
	solvers := []string{"z3-new"}
	if tier.idx == 1 {
		solvers = append(solvers, "cvc5")
	}
	var cexs []*concCex
	queries, unsat, sat, unknown := 0, 0, 0, 0
	unknownBase := 0 // inconclusive queries at the smallest thread count (the bound every tier must decide)
	solverTime := 0.0
	var notes []string
	obligations, discharged := 0, 0
	var bounds []map[string]interface{}
	exit := 0
	type job struct {
		n      int
		assign []int
	}
	type jobResult struct {
		cexs                                  []*concCex
		notes                                 []string
		queries, unsat, sat, unknown          int
		obligations, discharged, steps, bytes int
		solverTime                            float64
		lines                                 []string
	}
	runJob := func(j job, timeoutS int) *jobResult {
		jr := &jobResult{}
		n := j.n
		m := buildConcModel(sp, tpls, j.assign)
		base := m.smt()
		jr.steps, jr.bytes = m.K, len(base)
		var names []string
		for _, a := range j.assign {
			names = append(names, strings.TrimPrefix(tpls[a].Name, "VerifC09Thread"))
		}
		label := strings.Join(names, "+")
		var vals []string
		for i := 0; i < m.K; i++ {
			vals = append(vals, fmt.Sprintf("sched_%d", i))
			for t := 0; t < n; t++ {
				vals = append(vals, fmt.Sprintf("pc_%d_%d", t, i))
			}
		}
		for t := 0; t < n; t++ {
			vals = append(vals, fmt.Sprintf("p_%d", t))
		}
		vals = append(vals, fmt.Sprintf("bad_%d", m.K))
		ask := func(name, q string, want []string) smtResult {
			var res smtResult
			for si, sv := range solvers {
				r := runSMT(base+q, want, filepath.Join(outDir, fmt.Sprintf("conc_%s_%s_%s.smt2", tier.name, label, name)), sv, timeoutS)
				jr.queries++
				jr.solverTime += r.secs
				jr.lines = append(jr.lines, fmt.Sprintf("  query %-22s %-40s steps=%d solver=%s: %s (%.1fs)", name, label, m.K, sv, r.status, r.secs))
				if si == 0 {
					res = r
				} else if r.status != res.status && (r.status == "sat" || r.status == "unsat") && (res.status == "sat" || res.status == "unsat") {
					jr.notes = append(jr.notes, fmt.Sprintf("SOLVER DISAGREEMENT on %s %s: %s vs %s", label, name, res.status, r.status))
					res.status = "unknown"
				} else if res.status != "sat" && res.status != "unsat" && (r.status == "sat" || r.status == "unsat") {
					res = r // the second solver decided what the first could not
				}
			}
			switch res.status {
			case "sat":
				jr.sat++
			case "unsat":
				jr.unsat++
			default:
				jr.unknown++
			}
			return res
		}
		// vacuity witness: every thread can finish with no violation
		// (a thread that waits for a signal nobody in this assignment sends is not expected to finish)
		closer := false
		for t := 0; t < n; t++ {
			for _, path := range m.paths[t] {
				for _, e := range path.Events {
					if e.Kind == "ch_close" {
						closer = true
					}
				}
			}
		}
		allFin := []string{"true"}
		for t := 0; t < n; t++ {
			waits := false
			for _, path := range m.paths[t] {
				for _, e := range path.Events {
					if e.Kind == "ch_recv" {
						waits = true
					}
				}
			}
			if closer || !waits {
				allFin = append(allFin, fmt.Sprintf("fin_%d_%d", t, m.K))
			}
		}
		r := ask("witness_all_finish", fmt.Sprintf("(assert (and %s (= bad_%d 0)))\n", strings.Join(allFin, " "), m.K), nil)
		if r.status != "sat" {
			jr.notes = append(jr.notes, fmt.Sprintf("VACUITY: %s: no schedule lets all threads finish without a violation (%s)", label, r.status))
		}
		// violations: enumerate distinct kinds
		excluded := ""
		for round := 0; round < 12; round++ {
			jr.obligations++
			r := ask(fmt.Sprintf("violation_%d", round), fmt.Sprintf("(assert (not (= bad_%d 0)))\n%s", m.K, excluded), vals)
			if r.status == "unsat" {
				jr.discharged++
				break
			}
			if r.status != "sat" {
				jr.notes = append(jr.notes, fmt.Sprintf("violation query inconclusive for %s: %s", label, r.status))
				break
			}
			code, _ := strconv.Atoi(r.vals[fmt.Sprintf("bad_%d", m.K)])
			if code <= 0 || code > len(m.viol) {
				jr.notes = append(jr.notes, "could not read the violation code from the model")
				break
			}
			jr.cexs = append(jr.cexs, m.extract(r.vals, m.viol[code-1], m.violKind[code-1]))
			excluded += fmt.Sprintf("(assert (not (= bad_%d %d)))\n", m.K, code)
		}
		// deadlock: some thread unfinished, none enabled, no violation so far
		jr.obligations++
		var dl []string
		for i := 0; i <= m.K; i++ {
			var notFin, noneEn []string
			for t := 0; t < n; t++ {
				notFin = append(notFin, fmt.Sprintf("(not fin_%d_%d)", t, i))
				noneEn = append(noneEn, fmt.Sprintf("(not en_%d_%d)", t, i))
			}
			dl = append(dl, fmt.Sprintf("(and (= bad_%d 0) (or %s) %s (= dlstep %d))", i, strings.Join(notFin, " "), strings.Join(noneEn, " "), i))
		}
		relevant := sp.DeadlockIfMark == ""
		for t := 0; t < n && !relevant; t++ {
			for _, path := range m.paths[t] {
				for _, e := range path.Events {
					if e.Kind == "mark" && e.Tag == sp.DeadlockIfMark {
						relevant = true
					}
				}
			}
		}
		if !relevant {
			jr.discharged++ // nobody was asked to send the signal the threads wait for: blocking is not a defect
		} else {
			r = ask("deadlock", "(declare-const dlstep Int)\n(assert (or "+strings.Join(dl, "\n ")+"))\n", append(vals, "dlstep"))
			if r.status == "unsat" {
				jr.discharged++
			} else if r.status == "sat" {
				cx := m.extract(r.vals, "deadlock: a thread is blocked for ever (no thread can take a step)", "deadlock")
				if ds, err := strconv.Atoi(r.vals["dlstep"]); err == nil {
					cx.Steps = cx.Steps[:min(len(cx.Steps), stepsUpTo(r.vals, m, ds))]
					cx.Replay = m.replayPrefix(r.vals, ds)
				}
				jr.cexs = append(jr.cexs, cx)
			} else {
				jr.notes = append(jr.notes, fmt.Sprintf("deadlock query inconclusive for %s: %s", label, r.status))
			}
		}
		return jr
	}
	// all multisets of n templates
	var multisets func(n, from int, cur []int, out *[][]int)
	multisets = func(n, from int, cur []int, out *[][]int) {
		if n == 0 {
			*out = append(*out, append([]int{}, cur...))
			return
		}
		for i := from; i < len(tpls); i++ {
			multisets(n-1, i, append(cur, i), out)
		}
	}
	timeoutS := 300
	if tier.idx == 1 {
		timeoutS = 600
	}
	seen := map[string]bool{}
	maxN := T
	if tier.idx == 0 && len(sp.QuickLight) > 0 {
		maxN = T + 1
	}
	for n := 2; n <= maxN; n++ {
		var combos [][]int
		multisets(n, 0, nil, &combos)
		if n > T {
			var keep [][]int
			for _, c := range combos {
				heavy := 0
				for _, ti := range c {
					light := false
					for _, l := range sp.QuickLight {
						if tpls[ti].Name == l {
							light = true
						}
					}
					if !light {
						heavy++
					}
				}
				if heavy <= 1 {
					keep = append(keep, c)
				}
			}
			combos = keep
		}
		results := make([]*jobResult, len(combos))
		var wg sync.WaitGroup
		sem := make(chan struct{}, 14)
		for ci, c := range combos {
			wg.Add(1)
			go func(ci int, c []int) {
				defer wg.Done()
				sem <- struct{}{}
				defer func() { <-sem }()
				results[ci] = runJob(job{n, c}, timeoutS)
			}(ci, c)
		}
		wg.Wait()
		maxK, maxBytes := 0, 0
		for _, jr := range results {
			for _, l := range jr.lines {
				fmt.Println(l)
			}
			queries += jr.queries
			unsat += jr.unsat
			sat += jr.sat
			unknown += jr.unknown
			if n == 2 || tier.idx == 0 {
				unknownBase += jr.unknown
			}
			obligations += jr.obligations
			discharged += jr.discharged
			solverTime += jr.solverTime
			notes = append(notes, jr.notes...)
			if jr.steps > maxK {
				maxK = jr.steps
			}
			if jr.bytes > maxBytes {
				maxBytes = jr.bytes
			}
			for _, cx := range jr.cexs {
				// one counterexample per kind of violation: the first (fewest threads) is kept
				if !seen[cx.What] {
					seen[cx.What] = true
					cexs = append(cexs, cx)
				}
			}
		}
		bounds = append(bounds, map[string]interface{}{"threads": n, "template_assignments": len(combos), "max_steps": maxK, "max_smt_bytes": maxBytes})
		if len(cexs) > 0 {
			break // counterexamples with fewer threads first
		}
	}
	// native replay
	if len(cexs) > 0 {
		replayConc(ld, sp, pkgDir, outDir, cexs)
	}
	var confirmedN, mismatchN, knownN int
	for i, cx := range cexs {
		key := cx.Kind + ":" + cx.What
		for _, kf := range known {
			if kf.Property == prop && kf.Key == key && !strings.HasPrefix(kf.Status, "fixed") {
				cx.Known, cx.KnownMsg = true, kf.What
			}
		}
		file := filepath.Join(outDir, fmt.Sprintf("conc-%d.json", i))
		b, _ := json.MarshalIndent(cx, "", " ")
		os.WriteFile(file, b, 0o644)
		switch {
		case !cx.Confirm:
			mismatchN++
			fmt.Printf("ENGINE-MISMATCH conc %q: the schedule did not reproduce natively (native outcome: %s)\n", cx.What, cx.Native)
		case cx.Known:
			knownN++
			fmt.Printf("KNOWN-FINDING: property=%s %s\n", prop, cx.KnownMsg)
		default:
			confirmedN++
			exit = 1
			fmt.Printf("VIOLATION property=%s replay=%s  # %s\n", prop, file, cx.What)
			for _, s := range cx.Steps {
				fmt.Println("     ", s)
			}
		}
	}
	for _, n := range notes {
		fmt.Println("  NOTE", n)
	}
	// evidence
	var repoFuncs []string
	for f := range funcs {
		if strings.Contains(f, modPath) {
			repoFuncs = append(repoFuncs, strings.ReplaceAll(f, modPath+"/", ""))
		}
	}
	sort.Strings(repoFuncs)
	samples := traceSamples
	for _, cx := range cexs {
		samples = append(samples, map[string]interface{}{"counterexample": cx.What, "threads": cx.Threads, "schedule": cx.Steps, "native_outcome": cx.Native})
	}
	ev := map[string]interface{}{
		"property_id": prop, "tier": tier.name, "seed": 0, "level": "model_checking", "wall_s": time.Since(t0).Seconds(), "violations": confirmedN,
		"coverage": map[string]interface{}{
			"evaluations":         queries,
			"distinct_nontrivial": obligations + nPaths,
			"rule": "evaluations = SMT queries over the unrolled transition system; distinct_nontrivial = recorded thread traces (each a distinct event sequence with its path condition) + obligations (per thread count: 'no schedule reaches a violation flag' enumerated per violation kind, and 'no schedule reaches a deadlocked state'); " +
				"each unsat answer covers every assignment of templates to threads and every interleaving of their events within the step bound",
			"samples": samples, "obligations": obligations, "discharged": discharged,
			"traces_validated_against_impl": len(cexs),
			"queries":                       map[string]int{"issued": queries, "unsat": unsat, "sat": sat, "unknown": unknown},
			"solver_time_s":                 solverTime,
			"bounds":                        bounds,
			"thread_templates":              sp.Templates,
			"recorded_paths":                nPaths,
			"functions_encoded_repo":        repoFuncs,
			"rewrites":                      ld.rewrites,
			"notes":                         notes,
			"engine_mismatch":               mismatchN,
			"known_findings_seen":           knownN,
			"exhaustive":                    false,
		},
		"assumptions": []string{
			"go/ssa lowers /repo's current source faithfully; the recording interpreter turns every access to a scalar field of the shared context and every sync.WaitGroup/Once/Mutex/channel operation into an event (engine/sym/conc.go)",
			"interleaving granularity = those events; sequential consistency (no weak-memory reordering of the plain bool fields: the Go memory model gives racy plain accesses no guarantee at all, so a race on them is reported by the monitors only through its interleaving effects)",
			"sync.WaitGroup, sync.Once, sync.Mutex and channel close/receive follow their documented semantics as encoded in cmd/verif/conc.go (Wait enabled at counter 0, negative counter panics, Once.Do blocks later callers until the first returns, close of a closed channel panics)",
			"stubs: running a code object = events body_begin, body_end with an arbitrary result; ModuleStore.OnContextClosed = event callbacks; file system = in-memory table (rewrites.json)",
			fmt.Sprintf("bound: %d..%d threads, every assignment of templates to threads (one query set per multiset), each thread runs its template once; steps = sum of the longest trace of each thread, so every complete interleaving fits", 2, T),
			"z3 answers are correct; thorough tier cross-checks with cvc5",
		},
	}
	os.MkdirAll(evidenceDir, 0o755)
	b, _ := json.MarshalIndent(ev, "", " ")
	os.WriteFile(filepath.Join(evidenceDir, prop+".json"), b, 0o644)
	fmt.Printf("property %s tier %s: %d thread templates, %d recorded paths, %d queries, %d violations, %d known findings seen, wall %.1fs\n", prop, tier.name, len(tpls), nPaths, queries, confirmedN, knownN, time.Since(t0).Seconds())
	if unknown > unknownBase {
		fmt.Printf("  NOTE %d queries beyond 2 threads were inconclusive within the time limit: those template assignments are outside what this run decided (listed above; obligations %d, discharged %d)\n", unknown-unknownBase, obligations, discharged)
	}
	if exit == 0 && (unknownBase > 0 || len(ld.rewriteErrs) > 0) {
		for _, e := range ld.rewriteErrs {
			fmt.Println("CHECK-ERROR rewrite:", e)
		}
		if unknownBase > 0 {
			fmt.Println("CHECK-ERROR a two-thread query was inconclusive")
		}
		return 2
	}
	return exit
}

func evString(e sym.ConcEvent) string {
	switch e.Kind {
	case "rd":
		return "rd " + e.Field + "->" + e.Sym
	case "wr":
		return "wr " + e.Field + ":=" + e.Val
	case "wg_add":
		return fmt.Sprintf("wg.Add(%d)", e.N)
	case "mark":
		return "mark " + e.Tag
	}
	return e.Kind
}

func stepsUpTo(vals map[string]string, m *concModel, ds int) int {
	n := 0
	for i := 0; i < ds && i < m.K; i++ {
		if s, _ := strconv.Atoi(vals[fmt.Sprintf("sched_%d", i)]); s < m.T {
			n++
		}
	}
	return n
}

func (m *concModel) extract(vals map[string]string, what, kind string) *concCex {
	cx := &concCex{What: what, Kind: kind}
	ps := make([]int, m.T)
	for t := 0; t < m.T; t++ {
		ps[t], _ = strconv.Atoi(vals[fmt.Sprintf("p_%d", t)])
		cx.Threads = append(cx.Threads, m.tplOf[t])
	}
	for i := 0; i < m.K; i++ {
		s, _ := strconv.Atoi(vals[fmt.Sprintf("sched_%d", i)])
		if s >= m.T {
			continue
		}
		k, _ := strconv.Atoi(vals[fmt.Sprintf("pc_%d_%d", s, i)])
		path := m.paths[s][ps[s]]
		if k >= len(path.Events) {
			continue
		}
		e := path.Events[k]
		cx.Steps = append(cx.Steps, fmt.Sprintf("T%d %s: %s", s, strings.TrimPrefix(m.tplOf[s], "VerifC09Thread"), evString(e)))
	}
	cx.Replay = m.replayPrefix(vals, m.K)
	return cx
}

// replayPrefix: the native schedule for the first `upto` model steps: every thread is first
// brought to its first scheduling point, then each event that has a scheduling point in front
// of it becomes one "resume that thread" step.
func (m *concModel) replayPrefix(vals map[string]string, upto int) []int {
	var out []int
	for t := 0; t < m.T; t++ {
		out = append(out, t)
	}
	ps := make([]int, m.T)
	for t := 0; t < m.T; t++ {
		ps[t], _ = strconv.Atoi(vals[fmt.Sprintf("p_%d", t)])
	}
	for i := 0; i < upto && i < m.K; i++ {
		s, _ := strconv.Atoi(vals[fmt.Sprintf("sched_%d", i)])
		if s >= m.T {
			continue
		}
		k, _ := strconv.Atoi(vals[fmt.Sprintf("pc_%d_%d", s, i)])
		path := m.paths[s][ps[s]]
		if k < len(path.Events) && path.Events[k].Yield {
			out = append(out, s)
		}
	}
	return out
}

func replayConc(ld *loaded, sp *concSpec, pkgDir, outDir string, cexs []*concCex) {
	pkgName := filepath.Base(pkgDirToPath(pkgDir))
	var sb strings.Builder
	fmt.Fprintf(&sb, "package %s\n\nimport (\n\t\"encoding/json\"\n\t\"fmt\"\n\t\"os\"\n\t\"testing\"\n)\n\n", pkgName)
	fmt.Fprintf(&sb, `func TestVerifConcReplay(t *testing.T) {
	var cases []struct {
		Threads []string `+"`json:\"threads\"`"+`
		Replay  []int    `+"`json:\"replay\"`"+`
	}
	b, err := os.ReadFile(os.Getenv("VERIF_CONC_REPLAY"))
	if err != nil {
		t.Fatal(err)
	}
	if err := json.Unmarshal(b, &cases); err != nil {
		t.Fatal(err)
	}
	for i, c := range cases {
		fmt.Printf("VERIF-CONC-REPLAY %%d %%s\n", i, %s(c.Threads, c.Replay))
	}
}
`, sp.ReplayFunc)
	testFile := filepath.Join(outDir, "conc_replay_test.go")
	os.WriteFile(testFile, []byte(sb.String()), 0o644)
	casesFile := filepath.Join(outDir, "conc_cases.json")
	b, _ := json.Marshal(cexs)
	os.WriteFile(casesFile, b, 0o644)
	repl := map[string]string{}
	for v, r := range ld.overlay {
		repl[v] = r
	}
	repl[filepath.Join(repoDir, pkgDirToPath(pkgDir), "zz_verif_conc_replay_test.go")] = testFile
	ovb, _ := json.Marshal(map[string]interface{}{"Replace": repl})
	ovFile := filepath.Join(outDir, "overlay_conc.json")
	os.WriteFile(ovFile, ovb, 0o644)
	cmd := exec.Command("timeout", "600", "go", "test", "-v", "-vet=off", "-count=1", "-overlay", ovFile, "-run", "^TestVerifConcReplay$", "./"+pkgDirToPath(pkgDir))
	cmd.Dir = repoDir
	cmd.Env = append(goEnv(), "VERIF_CONC_REPLAY="+casesFile)
	out, _ := cmd.CombinedOutput()
	re := regexp.MustCompile(`(?m)^VERIF-CONC-REPLAY (\d+) (.*)$`)
	found := false
	for _, mm := range re.FindAllStringSubmatch(string(out), -1) {
		i, _ := strconv.Atoi(mm[1])
		if i < len(cexs) {
			found = true
			cexs[i].Native = mm[2]
			switch cexs[i].Kind {
			case "deadlock":
				cexs[i].Confirm = mm[2] == "deadlock"
			case "panic":
				cexs[i].Confirm = strings.HasPrefix(mm[2], "panic:")
			default:
				cexs[i].Confirm = mm[2] == "monitor: "+cexs[i].What
			}
		}
	}
	if !found {
		for _, c := range cexs {
			c.Native = "native replay produced no outcome: " + lastLines(string(out), 5)
		}
	}
}
