package main

import (
	"crypto/sha1"
	"encoding/json"
	"fmt"
	"os"
	"path/filepath"
	"sort"
	"strings"
	"time"

	"verif/engine/sym"
)

func fileHashes(ld *loaded, funcs map[string]bool) map[string]string {
	// hash of each repo source file that contributed an interpreted function
	files := map[string]bool{}
	for _, p := range ld.pkgs {
		for _, m := range p.Members {
			_ = m
		}
	}
	_ = files
	return nil
}

func writeEvidence(prop string, tier tierCfg, seed int64, ld *loaded, hs []*Harness, results []*sym.HarnessResult,
	confirmed, mismatched, known []*sym.Violation, skipped []string, wall time.Duration) {

	type hsum struct {
		Name        string         `json:"harness"`
		Encoding    string         `json:"encoding"`
		Paths       map[string]int `json:"paths"`
		Obligations int            `json:"obligations"`
		Discharged  int            `json:"discharged"`
		Queries     map[string]int `json:"queries"`
		SolverTimeS float64        `json:"solver_time_s"`
		WallS       float64        `json:"wall_s"`
		Complete    bool           `json:"complete"`
		Bounds      map[string]int `json:"bounds"`
		Unsupported []string       `json:"unsupported,omitempty"`
		Inconcl     []string       `json:"inconclusive,omitempty"`
		Vacuous     []string       `json:"vacuous_tags,omitempty"`
		Reached     []string       `json:"reached_tags,omitempty"`
	}
	var sums []hsum
	funcs := map[string]bool{}
	models := map[string]bool{}
	assumptions := map[string]bool{}
	var samples []interface{}
	evaluations, distinct, obligations, discharged := 0, 0, 0, 0
	solverTime := 0.0
	steps := 0
	paths := map[string]int{}
	queries := map[string]int{}
	for i, r := range results {
		h := hs[i]
		st := r.Stats
		s := hsum{Name: r.Name, Encoding: h.Encoding,
			Paths: map[string]int{"explored": st.Paths, "completed": st.Completed, "infeasible": st.Infeasible, "ended_by_failed_assertion": st.Asserted,
				"go_panic_escaped": st.Panicked, "unsupported": st.Unsupported, "unwind_exceeded": st.UnwindExceeded, "budget_cut": st.BudgetCut, "outside_bound": st.BoundCut, "engine_errors": st.EngineErrors},
			Obligations: st.Obligations, Discharged: st.Discharged,
			Queries:     map[string]int{"issued": r.SolverStats.Queries, "unsat": r.SolverStats.Unsat, "sat": r.SolverStats.Sat, "unknown": r.SolverStats.Unknown, "cache_hits": r.SolverStats.CacheHits, "errors": r.SolverStats.Errors},
			SolverTimeS: r.SolverStats.Time.Seconds(), WallS: r.Wall.Seconds(), Complete: r.Complete,
			Bounds: map[string]int{"max_paths": h.MaxPaths[tier.idx], "unwind_decisions_per_path": h.MaxDec[tier.idx], "max_steps_per_path": h.MaxSteps, "big_int_model_bits": h.BigW,
				"per_query_timeout_s": h.QTimeout[tier.idx], "harness_timeout_s": h.Timeout[tier.idx]},
			Inconcl: r.Inconclusive, Vacuous: r.Vacuous,
		}
		for m, n := range r.Unsupported {
			s.Unsupported = append(s.Unsupported, fmt.Sprintf("x%d %s", n, m))
		}
		sort.Strings(s.Unsupported)
		for t := range r.Reached {
			s.Reached = append(s.Reached, t)
		}
		sort.Strings(s.Reached)
		sums = append(sums, s)
		for f := range r.Funcs {
			funcs[f] = true
		}
		for f := range r.Models {
			models[f] = true
		}
		for f := range r.Assumptions {
			assumptions[f] = true
		}
		for _, sm := range r.Samples {
			if len(samples) < 12 {
				samples = append(samples, sm)
			}
		}
		evaluations += st.Paths + r.SolverStats.Queries + r.SolverStats.CacheHits
		distinct += len(r.Distinct)
		obligations += st.Obligations
		discharged += st.Discharged
		solverTime += r.SolverStats.Time.Seconds()
		steps += st.Steps
		for k, v := range s.Paths {
			paths[k] += v
		}
		for k, v := range s.Queries {
			queries[k] += v
		}
	}
	// functions encoded, restricted to the repository (plus count of library ones)
	var repoFuncs []string
	lib := 0
	for f := range funcs {
		if strings.Contains(f, modPath) {
			repoFuncs = append(repoFuncs, strings.ReplaceAll(f, modPath+"/", ""))
		} else {
			lib++
		}
	}
	sort.Strings(repoFuncs)
	srcHash := map[string]string{}
	for d := range ld.pkgs {
		gofiles, _ := filepath.Glob(filepath.Join(repoDir, pkgDirToPath(d), "*.go"))
		h := sha1.New()
		for _, g := range gofiles {
			if strings.HasSuffix(g, "_test.go") {
				continue
			}
			b, _ := os.ReadFile(g)
			h.Write(b)
		}
		srcHash[pkgDirToPath(d)] = fmt.Sprintf("%x", h.Sum(nil))[:16]
	}
	var viol []interface{}
	for _, v := range confirmed {
		viol = append(viol, map[string]interface{}{"harness": v.Harness, "key": v.Key, "inputs": v.Inputs, "replay": v.ReplayFile, "native": v.ReplayNote})
		if len(samples) < 16 {
			samples = append(samples, map[string]interface{}{"harness": v.Harness, "assertion": v.Key, "verdict": "sat (counterexample replayed natively)", "inputs": v.Inputs})
		}
	}
	var mism []interface{}
	for _, v := range mismatched {
		mism = append(mism, map[string]interface{}{"harness": v.Harness, "key": v.Key, "inputs": v.Inputs, "native": v.ReplayNote})
	}
	var kn []interface{}
	for _, v := range known {
		kn = append(kn, map[string]interface{}{"harness": v.Harness, "key": v.Key, "what": v.Msg, "witness": v.Inputs, "native": v.ReplayNote})
	}
	if len(samples) == 0 {
		samples = append(samples, "no obligation reached")
	}
	ev := map[string]interface{}{
		"property_id": prop,
		"tier":        tier.name,
		"seed":        seed,
		"level":       "model_checking",
		"wall_s":      wall.Seconds(),
		"violations":  len(confirmed),
		"coverage": map[string]interface{}{
			"evaluations":         evaluations,
			"distinct_nontrivial": distinct,
			"rule": "evaluations = symbolic executions of a harness (explored paths) + SMT queries issued by them (incl. cache hits); distinct_nontrivial = distinct (harness, path-decision-sequence, assertion) " +
				"obligations whose path condition was found satisfiable (infeasible paths are pruned before any obligation is counted); each obligation covers ALL input values satisfying its path condition",
			"samples":                       samples,
			"states":                        paths["explored"],
			"transitions":                   steps,
			"states_transitions_rule":       "states = feasible symbolic paths explored (each ends in a distinct symbolic state and stands for all input values satisfying its path condition); transitions = SSA instructions interpreted along them (steps of the symbolic machine)",
			"obligations":                   obligations,
			"discharged":                    discharged,
			"traces_validated_against_impl": len(confirmed) + len(mismatched) + len(known),
			"paths":                         paths,
			"queries":                       queries,
			"solver_time_s":                 solverTime,
			"harnesses":                     sums,
			"functions_encoded_repo":        repoFuncs,
			"functions_encoded_library":     lib,
			"models_used":                   sortedKeys(models),
			"source_hash_by_package":        srcHash,
			"violations_confirmed":          viol,
			"engine_mismatch":               mism,
			"known_findings_seen":           kn,
			"harnesses_skipped":             skipped,
			"load_time_s":                   ld.loadTime.Seconds(),
			"exhaustive":                    false,
		},
		"assumptions": append([]string{
			"go/packages + go/ssa (x/tools v0.29.0) lower /repo's current source faithfully; the SSA interpreter in /verif/engine/sym implements Go semantics for the instructions it accepts (anything else ends the path as 'unsupported', counted above)",
			"z3 5.1 / cvc5 1.0 answers are correct; any '(error' line or unknown makes the query inconclusive",
			"library models listed in models_used (math/big as exact integers, fmt as opaque strings, sync as no-ops, UTF-8 codec) behave as the documented library does",
			"bounds are those listed per harness; inputs beyond them are outside the claim",
		}, sortedKeys(assumptions)...),
	}
	os.MkdirAll(evidenceDir, 0o755)
	b, _ := json.MarshalIndent(ev, "", " ")
	os.WriteFile(filepath.Join(evidenceDir, prop+".json"), b, 0o644)
}

func sortedKeys(m map[string]bool) []string {
	out := []string{}
	for k := range m {
		out = append(out, k)
	}
	sort.Strings(out)
	return out
}
