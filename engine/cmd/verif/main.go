package main

import (
	"encoding/json"
	"flag"
	"fmt"
	"go/ast"
	"go/parser"
	"go/token"
	"os"
	"os/exec"
	"path/filepath"
	"regexp"
	"runtime/debug"
	"runtime/pprof"
	"sort"
	"strconv"
	"strings"
	"sync"
	"time"

	"golang.org/x/tools/go/packages"
	"golang.org/x/tools/go/ssa"
	"golang.org/x/tools/go/ssa/ssautil"

	"verif/engine/sym"
)

const (
	verifDir = "/verif"
	modPath  = "github.com/go-python/gpython"
)

// repoDir is /repo. Development only (seed matrix on a scratch copy while /repo
// is in use): VERIF_REPO=<copy> reads the sources from there, and then the
// output and evidence directories move to VERIF_OUT (default <copy>/.verif_out)
// so that nothing under /verif/evidence comes from a copy.
var (
	repoDir     = "/repo"
	outBase     = filepath.Join(verifDir, "out")
	evidenceDir = filepath.Join(verifDir, "evidence")
	// harnessDir: development runs on a scratch copy may read a snapshot of the harness directory
	// (VERIF_HARNESS, honoured only together with VERIF_REPO) so that editing goes on meanwhile
	harnessDir = filepath.Join(verifDir, "harness")
)

func init() {
	if r := os.Getenv("VERIF_REPO"); r != "" && r != "/repo" {
		repoDir = r
		outBase = os.Getenv("VERIF_OUT")
		if outBase == "" {
			outBase = filepath.Join(r, ".verif_out")
		}
		evidenceDir = filepath.Join(outBase, "evidence")
		if h := os.Getenv("VERIF_HARNESS"); h != "" {
			harnessDir = h
		}
	}
}

// Harness describes one harness function found under /verif/harness.
type Harness struct {
	Name     string
	PkgDir   string // e.g. "py"
	File     string // source file under /verif/harness
	Property []string
	Encoding string // "bv" | "int"
	BigW     int
	MaxPaths [2]int // quick, thorough
	MaxDec   [2]int
	MaxSteps int
	Timeout  [2]int // seconds per harness
	Tier     string // "", "quick", "thorough"
	Havoc    []string
	RunInit  []string
	MapOrder bool
	Solver   string
	Expect   []string // tags that must be reached
	QTimeout [2]int   // per-query seconds
	Conc     bool
}

func parseHarnessFile(path, pkgDir string) ([]*Harness, error) {
	fset := token.NewFileSet()
	f, err := parser.ParseFile(fset, path, nil, parser.ParseComments)
	if err != nil {
		return nil, err
	}
	var out []*Harness
	for _, d := range f.Decls {
		fd, ok := d.(*ast.FuncDecl)
		if !ok || fd.Recv != nil || !strings.HasPrefix(fd.Name.Name, "Verif") || fd.Doc == nil {
			continue
		}
		h := &Harness{Name: fd.Name.Name, PkgDir: pkgDir, File: path, Encoding: "bv", BigW: 192,
			MaxPaths: [2]int{2000, 20000}, MaxDec: [2]int{200, 400}, MaxSteps: 3000000, Timeout: [2]int{120, 900}, QTimeout: [2]int{10, 60}}
		for _, cm := range fd.Doc.List {
			t := strings.TrimSpace(strings.TrimPrefix(cm.Text, "//"))
			if !strings.HasPrefix(t, "verif:") {
				continue
			}
			fs := strings.Fields(t[len("verif:"):])
			if len(fs) == 0 {
				continue
			}
			two := func(dst *[2]int) {
				if len(fs) >= 2 {
					dst[0], _ = strconv.Atoi(fs[1])
					dst[1] = dst[0]
				}
				if len(fs) >= 3 {
					dst[1], _ = strconv.Atoi(fs[2])
				}
			}
			switch fs[0] {
			case "property":
				h.Property = append(h.Property, fs[1:]...)
			case "encoding":
				h.Encoding = fs[1]
			case "bigw":
				h.BigW, _ = strconv.Atoi(fs[1])
			case "maxpaths":
				two(&h.MaxPaths)
			case "unwind":
				two(&h.MaxDec)
			case "maxsteps":
				h.MaxSteps, _ = strconv.Atoi(fs[1])
			case "timeout":
				two(&h.Timeout)
			case "qtimeout":
				two(&h.QTimeout)
			case "tier":
				h.Tier = fs[1]
			case "conc":
				h.Conc = true // a thread template (cmd/verif/conc.go), not a harness of its own
			case "havoc":
				h.Havoc = append(h.Havoc, fs[1:]...)
			case "runinit":
				h.RunInit = append(h.RunInit, fs[1:]...)
			case "maporder":
				h.MapOrder = true
			case "solver":
				h.Solver = fs[1]
			case "expect":
				h.Expect = append(h.Expect, fs[1:]...)
			}
		}
		if len(h.Property) > 0 || h.Conc {
			out = append(out, h)
		}
	}
	return out, nil
}

type loaded struct {
	prog         *ssa.Program
	pkgs         map[string]*ssa.Package // by dir
	skipped      map[string]string       // harness file -> error
	rewrites     []string                // environment rewrites applied (see genRewrites)
	rewriteErrs  []string
	rewriteNotes []string
	overlay      map[string]string // virtual path -> real path
	harness      []*Harness
	loadTime     time.Duration
}

func harnessFiles() map[string][]string {
	out := map[string][]string{}
	dirs, _ := os.ReadDir(harnessDir)
	for _, d := range dirs {
		if !d.IsDir() {
			continue
		}
		fs, _ := filepath.Glob(filepath.Join(harnessDir, d.Name(), "*.go"))
		sort.Strings(fs)
		// nested package dirs use "__" for "/": stdlib__builtin
		out[d.Name()] = fs
	}
	return out
}

func pkgDirToPath(d string) string { return strings.ReplaceAll(d, "__", "/") }

func virtName(pkgDir, file string) string {
	return filepath.Join(repoDir, pkgDirToPath(pkgDir), "zz_verif_"+filepath.Base(file))
}

func goEnv() []string {
	return append(os.Environ(), "GOFLAGS=-mod=mod", "GOPROXY=off", "GOSUMDB=off", "GOTOOLCHAIN=local")
}

// A harness directory may hold rewrites.json: a list of {"file", "subst": [[old, new], ...], "why"}.
// The named file of the package is read from /repo's working tree at every run, the textual
// substitutions are applied (each pattern must occur) and the result replaces the file in the
// overlay, for the symbolic run and for native replays alike. It is how environment calls
// (file system, scheduling points) are turned into harness-provided stubs without touching /repo.
type rewriteSpec struct {
	File  string     `json:"file"`
	Subst [][]string `json:"subst"` // [old, new] or [old, new, "optional"]
	Why   string     `json:"why"`
}

func genRewrites(ld *loaded, pkgDir string) error {
	b, err := os.ReadFile(filepath.Join(harnessDir, pkgDir, "rewrites.json"))
	if err != nil {
		return nil
	}
	var specs []rewriteSpec
	if err := json.Unmarshal(b, &specs); err != nil {
		return fmt.Errorf("rewrites.json of %s: %v", pkgDir, err)
	}
	dir := filepath.Join(outBase, "gen", pkgDir)
	os.MkdirAll(dir, 0o755)
	for _, sp := range specs {
		real := filepath.Join(repoDir, pkgDirToPath(pkgDir), sp.File)
		src, err := os.ReadFile(real)
		if err != nil {
			return fmt.Errorf("rewrite %s: %v", real, err)
		}
		text := string(src)
		for _, su := range sp.Subst {
			if len(su) < 2 {
				continue
			}
			if !strings.Contains(text, su[0]) {
				if len(su) > 2 && su[2] == "optional" {
					// a scheduling point for native replay only: without it a replayed schedule is coarser there
					ld.rewriteNotes = append(ld.rewriteNotes, fmt.Sprintf("%s: optional pattern %q does not occur in %s", pkgDir, su[0], sp.File))
					continue
				}
				ld.rewriteErrs = append(ld.rewriteErrs, fmt.Sprintf("%s: pattern %q no longer occurs in %s", pkgDir, su[0], sp.File))
				continue
			}
			text = strings.ReplaceAll(text, su[0], su[1])
		}
		out := filepath.Join(dir, "rewritten_"+sp.File)
		if err := os.WriteFile(out, []byte(text), 0o644); err != nil {
			return err
		}
		ld.overlay[real] = out
		ld.rewrites = append(ld.rewrites, fmt.Sprintf("%s/%s: %d substitutions (%s)", pkgDirToPath(pkgDir), sp.File, len(sp.Subst), sp.Why))
	}
	return nil
}

func genIntrinsics(pkgDir string) (string, error) {
	tmpl, err := os.ReadFile(filepath.Join(harnessDir, "intrinsics.go.tmpl"))
	if err != nil {
		return "", err
	}
	pkgName := filepath.Base(pkgDirToPath(pkgDir))
	dir := filepath.Join(outBase, "gen", pkgDir)
	os.MkdirAll(dir, 0o755)
	p := filepath.Join(dir, "intrinsics.go")
	src := strings.Replace(string(tmpl), "package PKG", "package "+pkgName, 1)
	if err := os.WriteFile(p, []byte(src), 0o644); err != nil {
		return "", err
	}
	return p, nil
}

func load(only map[string]bool) (*loaded, error) {
	t0 := time.Now()
	ld := &loaded{pkgs: map[string]*ssa.Package{}, skipped: map[string]string{}, overlay: map[string]string{}}
	files := harnessFiles()
	var patterns []string
	for d, fs := range files {
		if only != nil && !only[d] {
			continue
		}
		if len(fs) == 0 {
			continue
		}
		patterns = append(patterns, "./"+pkgDirToPath(d))
		ip, err := genIntrinsics(d)
		if err != nil {
			return nil, err
		}
		ld.overlay[filepath.Join(repoDir, pkgDirToPath(d), "zz_verif_intrinsics.go")] = ip
		for _, f := range fs {
			ld.overlay[virtName(d, f)] = f
		}
		if err := genRewrites(ld, d); err != nil {
			return nil, err
		}
	}
	sort.Strings(patterns)
	for attempt := 0; attempt < 20; attempt++ {
		ov := map[string][]byte{}
		for v, r := range ld.overlay {
			b, err := os.ReadFile(r)
			if err != nil {
				return nil, err
			}
			ov[v] = b
		}
		cfg := &packages.Config{Mode: packages.LoadAllSyntax, Dir: repoDir, Env: goEnv(), Overlay: ov}
		pkgs, err := packages.Load(cfg, patterns...)
		if err != nil {
			return nil, err
		}
		// collect errors
		bad := map[string]string{}
		fatal := []string{}
		for _, p := range pkgs {
			for _, e := range p.Errors {
				pos := e.Pos
				file := pos
				if i := strings.Index(pos, ":"); i >= 0 {
					file = pos[:i]
				}
				if real, ok := ld.overlay[file]; ok && !strings.HasSuffix(file, "zz_verif_intrinsics.go") {
					bad[file] = real + ": " + e.Msg
				} else {
					fatal = append(fatal, e.Error())
				}
			}
		}
		if len(bad) > 0 {
			for v, msg := range bad {
				ld.skipped[ld.overlay[v]] = msg
				delete(ld.overlay, v)
			}
			continue
		}
		if len(fatal) > 0 {
			return nil, fmt.Errorf("package errors in /repo (not from harness files): %s", strings.Join(fatal, "; "))
		}
		prog, spkgs := ssautil.AllPackages(pkgs, ssa.InstantiateGenerics)
		prog.Build()
		ld.prog = prog
		for i, p := range pkgs {
			if spkgs[i] == nil {
				continue
			}
			rel := strings.TrimPrefix(strings.TrimPrefix(p.PkgPath, modPath), "/")
			ld.pkgs[strings.ReplaceAll(rel, "/", "__")] = spkgs[i]
		}
		break
	}
	if ld.prog == nil {
		return nil, fmt.Errorf("could not load packages")
	}
	for d, fs := range files {
		if only != nil && !only[d] {
			continue
		}
		for _, f := range fs {
			if _, sk := ld.skipped[f]; sk {
				continue
			}
			hs, err := parseHarnessFile(f, d)
			if err != nil {
				return nil, err
			}
			ld.harness = append(ld.harness, hs...)
		}
	}
	ld.loadTime = time.Since(t0)
	return ld, nil
}

// skippedHarnessProps: for skipped files, find which properties they served (by scanning text).
func skippedProps(file string) []string {
	b, _ := os.ReadFile(file)
	re := regexp.MustCompile(`//verif:property\s+(.*)`)
	seen := map[string]bool{}
	var out []string
	for _, m := range re.FindAllStringSubmatch(string(b), -1) {
		for _, p := range strings.Fields(m[1]) {
			if !seen[p] {
				seen[p] = true
				out = append(out, p)
			}
		}
	}
	return out
}

type tierCfg struct {
	name string
	idx  int
}

func runHarness(ld *loaded, h *Harness, tier tierCfg, known []*sym.KnownFinding, seed int64, verbose bool, workers int) *sym.HarnessResult {
	pkg := ld.pkgs[h.PkgDir]
	fn := pkg.Func(h.Name)
	if fn == nil {
		return &sym.HarnessResult{Name: h.Name, Inconclusive: []string{"harness function not found in SSA"}}
	}
	order := []string{"z3", "cvc5"}
	if h.Solver != "" {
		order = strings.Split(h.Solver, ",")
	}
	if e := os.Getenv("VERIF_SOLVER"); e != "" {
		order = strings.Split(e, ",")
	}
	newSolver := func() *sym.Solver {
		s := sym.NewSolver(order, time.Duration(h.QTimeout[tier.idx])*time.Second)
		s.Both = tier.idx == 1 && os.Getenv("VERIF_BOTH") != "0"
		return s
	}
	ex := &sym.Explorer{
		Prog: ld.prog, NewSolver: newSolver, Workers: workers, IntMode: h.Encoding == "int", BigW: h.BigW,
		MaxSteps: h.MaxSteps, MaxDecisions: h.MaxDec[tier.idx], MaxSymLen: 8, MaxPaths: h.MaxPaths[tier.idx],
		Deadline: time.Now().Add(time.Duration(h.Timeout[tier.idx]) * time.Second),
		MapOrder: h.MapOrder, Havoc: map[string]bool{}, RunInit: h.RunInit, Known: known, Verbose: verbose,
		Tier: tier.idx, Seed: seed,
	}
	for _, hv := range h.Havoc {
		ex.Havoc[hv] = true
	}
	res := ex.Run(fn)
	for _, tag := range h.Expect {
		if !res.Reached[tag] {
			res.Vacuous = append(res.Vacuous, tag)
		}
	}
	return res
}

func loadKnown() ([]*sym.KnownFinding, error) {
	b, err := os.ReadFile(filepath.Join(verifDir, "known_findings.json"))
	if err != nil {
		if os.IsNotExist(err) {
			return nil, nil
		}
		return nil, err
	}
	var doc struct {
		Findings []*sym.KnownFinding `json:"findings"`
	}
	if err := json.Unmarshal(b, &doc); err != nil {
		return nil, fmt.Errorf("known_findings.json: %v", err)
	}
	return doc.Findings, nil
}

func main() {
	if os.Getenv("GOGC") == "" {
		debug.SetGCPercent(150)
	}
	if len(os.Args) < 2 {
		fmt.Fprintln(os.Stderr, "usage: verif check <Cxx> [--tier quick|thorough] | run <Harness> | replay <file> | list")
		os.Exit(2)
	}
	switch os.Args[1] {
	case "check":
		os.Exit(cmdCheck(os.Args[2:]))
	case "run":
		os.Exit(cmdRun(os.Args[2:]))
	case "replay":
		os.Exit(cmdReplay(os.Args[2:]))
	case "list":
		ld, err := load(nil)
		if err != nil {
			fmt.Println("load error:", err)
			os.Exit(2)
		}
		for _, h := range ld.harness {
			fmt.Println(strings.Join(h.Property, ","), h.PkgDir, h.Name, h.Encoding)
		}
		for f, e := range ld.skipped {
			fmt.Println("HARNESS-SKIPPED", f, e)
		}
	default:
		fmt.Fprintln(os.Stderr, "unknown command", os.Args[1])
		os.Exit(2)
	}
}

func tierOf(s string) tierCfg {
	if s == "thorough" {
		return tierCfg{"thorough", 1}
	}
	return tierCfg{"quick", 0}
}

func cmdRun(args []string) int {
	fs := flag.NewFlagSet("run", flag.ExitOnError)
	tier := fs.String("tier", "quick", "")
	verbose := fs.Bool("v", false, "")
	workersF := fs.Int("w", 8, "")
	prof := fs.String("cpuprofile", "", "")
	if len(args) < 1 {
		return 2
	}
	name := args[0]
	fs.Parse(args[1:])
	ld, err := load(nil)
	if err != nil {
		fmt.Println("load error:", err)
		return 2
	}
	for f, e := range ld.skipped {
		fmt.Println("HARNESS-SKIPPED", f, e)
	}
	known, err := loadKnown()
	if err != nil {
		fmt.Println(err)
		return 2
	}
	if *prof != "" {
		f, _ := os.Create(*prof)
		pprof.StartCPUProfile(f)
		defer pprof.StopCPUProfile()
	}
	if os.Getenv("VERIF_STEPPROFILE") != "" {
		sym.StepProfile = map[string]int{}
		*workersF = 1
		defer func() {
			type kv struct {
				k string
				v int
			}
			var l []kv
			for k, v := range sym.StepProfile {
				l = append(l, kv{k, v})
			}
			sort.Slice(l, func(i, j int) bool { return l[i].v > l[j].v })
			for i := 0; i < 25 && i < len(l); i++ {
				fmt.Printf("%10d %s\n", l[i].v, l[i].k)
			}
		}()
	}
	re := regexp.MustCompile("^(" + name + ")$")
	for _, h := range ld.harness {
		if !re.MatchString(h.Name) {
			continue
		}
		res := runHarness(ld, h, tierOf(*tier), known, 0, *verbose, *workersF)
		printResult(res, true)
	}
	sym.DumpPathStats()
	return 0
}

func printResult(res *sym.HarnessResult, detail bool) {
	st := res.Stats
	fmt.Printf("== %s: paths=%d completed=%d infeasible=%d asserted=%d panicked=%d unsupported=%d unwind=%d budget=%d bound=%d engineerr=%d | obligations=%d discharged=%d inconclusive=%d | queries=%d (unsat %d sat %d unknown %d cache %d) solver %.1fs pathtime %.1fs steps %d wall %.1fs complete=%v\n",
		res.Name, st.Paths, st.Completed, st.Infeasible, st.Asserted, st.Panicked, st.Unsupported, st.UnwindExceeded, st.BudgetCut, st.BoundCut, st.EngineErrors,
		st.Obligations, st.Discharged, st.Inconclusive,
		res.SolverStats.Queries, res.SolverStats.Unsat, res.SolverStats.Sat, res.SolverStats.Unknown, res.SolverStats.CacheHits, res.SolverStats.Time.Seconds(), st.PathTime.Seconds(), st.Steps, res.Wall.Seconds(), res.Complete)
	if !detail {
		return
	}
	for _, v := range res.Violations {
		fmt.Printf("   VIOL %s (x%d) inputs=%v decisions=%v\n", v.Key, v.Count, v.Inputs, v.Decisions)
		if strings.HasPrefix(v.Key, "panic:") {
			fmt.Printf("        %s\n", v.Msg)
		}
		for _, l := range v.Log {
			fmt.Printf("        log: %s\n", l)
		}
	}
	for k, v := range res.Known {
		fmt.Printf("   KNOWN %s inputs=%v\n", k, v.Inputs)
	}
	for m, n := range res.Unsupported {
		fmt.Printf("   UNSUPPORTED x%d: %s\n", n, m)
	}
	for _, s := range res.Inconclusive {
		fmt.Printf("   INCONCLUSIVE %s\n", s)
	}
	for _, s := range res.Vacuous {
		fmt.Printf("   VACUOUS tag %q never reached\n", s)
	}
	for k, n := range res.Recovered {
		fmt.Printf("   recovered-panic x%d %s\n", n, k)
	}
}

// ---------------------------------------------------------------------------
// check

func cmdCheck(args []string) int {
	if len(args) < 1 {
		return 2
	}
	prop := args[0]
	fs := flag.NewFlagSet("check", flag.ExitOnError)
	tierS := fs.String("tier", "", "")
	jobs := fs.Int("j", 0, "")
	verbose := fs.Bool("v", false, "")
	fs.Parse(args[1:])
	if *tierS == "" {
		*tierS = os.Getenv("VERIF_TIER")
	}
	tier := tierOf(*tierS)
	seed, _ := strconv.ParseInt(os.Getenv("VERIF_SEED"), 10, 64)
	t0 := time.Now()

	// Which package dirs have harnesses for this property?
	only := map[string]bool{}
	for d, files := range harnessFiles() {
		for _, f := range files {
			for _, p := range skippedProps(f) {
				if p == prop {
					only[d] = true
				}
			}
		}
	}
	concSp, concDir := findConcSpec(prop)
	if len(only) == 0 && concSp == nil {
		fmt.Printf("no harness for property %s\n", prop)
		return 2
	}
	ld, err := load(nil)
	if err != nil {
		fmt.Println("load error:", err)
		return 2
	}
	known, err := loadKnown()
	if err != nil {
		fmt.Println(err)
		return 2
	}
	if concSp != nil {
		for f, e := range ld.skipped {
			if filepath.Base(filepath.Dir(f)) == concDir {
				fmt.Printf("HARNESS-SKIPPED %s: %s\n", f, e)
				fmt.Println("CHECK-ERROR harness does not compile against the current tree:", e)
				return 2
			}
		}
		return runConc(ld, concSp, concDir, tier, known, *verbose)
	}
	var hs []*Harness
	for _, h := range ld.harness {
		for _, p := range h.Property {
			if p == prop && (h.Tier == "" || h.Tier == tier.name) {
				hs = append(hs, h)
			}
		}
	}
	var skippedNotes []string
	for f, e := range ld.skipped {
		for _, p := range skippedProps(f) {
			if p == prop {
				fmt.Printf("HARNESS-SKIPPED %s: %s\n", f, e)
				skippedNotes = append(skippedNotes, filepath.Base(f)+": "+e)
			}
		}
	}
	n := *jobs
	if n <= 0 {
		n = 4
	}
	sym.Tokens = make(chan struct{}, 16)
	results := make([]*sym.HarnessResult, len(hs))
	var wg sync.WaitGroup
	sem := make(chan struct{}, n)
	for i, h := range hs {
		wg.Add(1)
		go func(i int, h *Harness) {
			defer wg.Done()
			sem <- struct{}{}
			defer func() { <-sem }()
			results[i] = runHarness(ld, h, tier, known, seed, *verbose, 8)
		}(i, h)
	}
	wg.Wait()

	// report
	var allViol []*sym.Violation
	var knownSeen []*sym.Violation
	for i, r := range results {
		printResult(r, true)
		for _, v := range r.Violations {
			v.PkgDir = hs[i].PkgDir
			allViol = append(allViol, v)
		}
		for _, v := range r.Known {
			v.PkgDir = hs[i].PkgDir
			knownSeen = append(knownSeen, v)
		}
	}
	// replay
	outDir := filepath.Join(outBase, prop)
	os.MkdirAll(outDir, 0o755)
	confirmed, mismatched := replayAll(ld, outDir, allViol)
	kconf, _ := replayAll(ld, filepath.Join(outDir, "known"), knownSeen)
	exit := 0
	for _, v := range kconf {
		fmt.Printf("KNOWN-FINDING: property=%s %s [%s %s]\n", prop, v.Msg, v.Harness, v.Key)
	}
	for _, v := range mismatched {
		fmt.Printf("ENGINE-MISMATCH %s %s: counterexample did not reproduce natively (%s)\n", v.Harness, v.Key, v.ReplayNote)
	}
	for _, v := range confirmed {
		fmt.Printf("VIOLATION property=%s replay=%s  # %s %s\n", prop, v.ReplayFile, v.Harness, v.Key)
		exit = 1
	}
	writeEvidence(prop, tier, seed, ld, hs, results, confirmed, mismatched, kconf, skippedNotes, time.Since(t0))
	fmt.Printf("property %s tier %s: %d harnesses, %d violations, %d known findings seen, wall %.1fs\n", prop, tier.name, len(hs), len(confirmed), len(kconf), time.Since(t0).Seconds())
	// a harness that no longer compiles against /repo, or an environment rewrite that no longer
	// applies, means the check did not look at what it claims to: that is an error, not a pass
	if exit == 0 && (len(skippedNotes) > 0 || len(ld.rewriteErrs) > 0) {
		for _, e := range ld.rewriteErrs {
			fmt.Println("CHECK-ERROR rewrite:", e)
		}
		for _, e := range skippedNotes {
			fmt.Println("CHECK-ERROR harness does not compile against the current tree:", e)
		}
		return 2
	}
	return exit
}

// ---------------------------------------------------------------------------
// replay

type replayCase struct {
	Harness string            `json:"harness"`
	PkgDir  string            `json:"pkg_dir"`
	Key     string            `json:"key"`
	Msg     string            `json:"msg"`
	Inputs  map[string]string `json:"inputs"`
	Tier    int               `json:"tier"`
}

func writeReplayTest(ld *loaded, pkgDir string, dir string) (string, error) {
	pkgName := filepath.Base(pkgDirToPath(pkgDir))
	var names []string
	for _, h := range ld.harness {
		if h.PkgDir == pkgDir {
			names = append(names, h.Name)
		}
	}
	sort.Strings(names)
	var sb strings.Builder
	fmt.Fprintf(&sb, "package %s\n\nimport (\n\t\"encoding/json\"\n\t\"fmt\"\n\t\"os\"\n\t\"testing\"\n\t\"time\"\n)\n\n", pkgName)
	sb.WriteString("var verifHarnesses = map[string]func(){\n")
	for _, n := range names {
		fmt.Fprintf(&sb, "\t%q: %s,\n", n, n)
	}
	sb.WriteString("}\n\n")
	sb.WriteString(`func TestVerifReplay(t *testing.T) {
	var cases []struct {
		Harness string            ` + "`json:\"harness\"`" + `
		Key     string            ` + "`json:\"key\"`" + `
		Inputs  map[string]string ` + "`json:\"inputs\"`" + `
		Tier    int               ` + "`json:\"tier\"`" + `
	}
	b, err := os.ReadFile(os.Getenv("VERIF_REPLAY"))
	if err != nil {
		t.Fatal(err)
	}
	if err := json.Unmarshal(b, &cases); err != nil {
		t.Fatal(err)
	}
	for i, c := range cases {
		fn := verifHarnesses[c.Harness]
		if fn == nil {
			fmt.Printf("VERIF-REPLAY %d NOHARNESS %s\n", i, c.Harness)
			continue
		}
		// Go randomises map iteration order per range statement: a counterexample that depends on
		// it may need several attempts to show natively
		outcome := "OK"
		for attempt := 0; attempt < 12 && outcome == "OK"; attempt++ {
			cj, _ := json.Marshal(map[string]interface{}{"inputs": c.Inputs, "tier": c.Tier, "attempt": attempt, "case": i})
			os.Setenv("VERIF_CASE", string(cj))
			verifFailMsg = ""
			done := make(chan string, 1)
			go func() {
				defer func() {
					if r := recover(); r != nil {
						if vs, ok := r.(interface{ VerifMsg() string }); ok {
							done <- "ASSERT " + vs.VerifMsg()
							return
						}
						done <- fmt.Sprintf("PANIC %v", r)
					}
				}()
				fn()
				done <- "OK"
			}()
			select {
			case outcome = <-done:
			case <-time.After(30 * time.Second):
				outcome = "DEADLOCK" // the harness did not return: its goroutine is left blocked
			}
		}
		fmt.Printf("VERIF-REPLAY %d %s\n", i, outcome)
	}
}
`)
	p := filepath.Join(dir, "replay_"+pkgDir+"_test.go")
	return p, os.WriteFile(p, []byte(sb.String()), 0o644)
}

// replayAll runs the natively compiled harnesses on the counterexamples. It
// returns the violations that reproduced and those that did not.
func replayAll(ld *loaded, outDir string, vs []*sym.Violation) (confirmed, mismatched []*sym.Violation) {
	if len(vs) == 0 {
		return nil, nil
	}
	os.MkdirAll(outDir, 0o755)
	byPkg := map[string][]*sym.Violation{}
	for _, v := range vs {
		byPkg[v.PkgDir] = append(byPkg[v.PkgDir], v)
	}
	for pkgDir, list := range byPkg {
		var cases []replayCase
		for i, v := range list {
			rc := replayCase{Harness: v.Harness, PkgDir: pkgDir, Key: v.Key, Msg: v.Msg, Inputs: v.Inputs, Tier: v.Tier}
			cases = append(cases, rc)
			// individual replay file
			one, _ := json.MarshalIndent([]replayCase{rc}, "", " ")
			v.ReplayFile = filepath.Join(outDir, fmt.Sprintf("%s-%d.json", v.Harness, i))
			os.WriteFile(v.ReplayFile, one, 0o644)
		}
		all, _ := json.MarshalIndent(cases, "", " ")
		casesFile := filepath.Join(outDir, "cases_"+pkgDir+".json")
		os.WriteFile(casesFile, all, 0o644)
		outcomes, note := runNative(ld, pkgDir, casesFile, outDir)
		for i, v := range list {
			o := outcomes[i]
			v.ReplayNote = o
			if note != "" && o == "" {
				v.ReplayNote = note
			}
			if nativeMatches(v, o) {
				confirmed = append(confirmed, v)
			} else {
				mismatched = append(mismatched, v)
			}
		}
	}
	// a counterexample that did not reproduce may have alternatives from other paths: try those
	var alts []*sym.Violation
	for _, v := range mismatched {
		for _, a := range v.Alts {
			a.PkgDir = v.PkgDir
			alts = append(alts, a)
		}
	}
	if len(alts) > 0 {
		altConfirmed, _ := replayAll(ld, filepath.Join(outDir, "alts"), alts)
		var still []*sym.Violation
		for _, v := range mismatched {
			var hit *sym.Violation
			for _, a := range altConfirmed {
				if a.Harness == v.Harness && a.Key == v.Key {
					hit = a
					break
				}
			}
			if hit != nil {
				hit.Count = v.Count
				confirmed = append(confirmed, hit)
			} else {
				still = append(still, v)
			}
		}
		mismatched = still
	}
	return
}

func nativeMatches(v *sym.Violation, outcome string) bool {
	if strings.HasPrefix(v.Key, "assert:") {
		return outcome == "ASSERT "+strings.TrimPrefix(v.Key, "assert:")
	}
	if strings.HasPrefix(v.Key, "panic:") {
		return strings.HasPrefix(outcome, "PANIC ")
	}
	if strings.HasPrefix(v.Key, "deadlock:") {
		return outcome == "DEADLOCK"
	}
	return false
}

func runNative(ld *loaded, pkgDir, casesFile, outDir string) (map[int]string, string) {
	testFile, err := writeReplayTest(ld, pkgDir, outDir)
	if err != nil {
		return map[int]string{}, err.Error()
	}
	repl := map[string]string{}
	for v, r := range ld.overlay {
		repl[v] = r // harnesses may use exported helpers of other packages' harness files
	}
	repl[filepath.Join(repoDir, pkgDirToPath(pkgDir), "zz_verif_replay_test.go")] = testFile
	ovb, _ := json.Marshal(map[string]interface{}{"Replace": repl})
	ovFile := filepath.Join(outDir, "overlay_"+pkgDir+".json")
	os.WriteFile(ovFile, ovb, 0o644)
	cmd := exec.Command("timeout", "600", "go", "test", "-v", "-vet=off", "-count=1", "-overlay", ovFile, "-run", "^TestVerifReplay$", "./"+pkgDirToPath(pkgDir))
	cmd.Dir = repoDir
	cmd.Env = append(goEnv(), "VERIF_REPLAY="+casesFile)
	out, err := cmd.CombinedOutput()
	res := map[int]string{}
	re := regexp.MustCompile(`(?m)^VERIF-REPLAY (\d+) (.*)$`)
	for _, m := range re.FindAllStringSubmatch(string(out), -1) {
		i, _ := strconv.Atoi(m[1])
		res[i] = m[2]
	}
	note := ""
	if len(res) == 0 {
		note = "native replay produced no outcome: " + lastLines(string(out), 6)
		if err != nil {
			note += " (" + err.Error() + ")"
		}
	}
	return res, note
}

func lastLines(s string, n int) string {
	ls := strings.Split(strings.TrimSpace(s), "\n")
	if len(ls) > n {
		ls = ls[len(ls)-n:]
	}
	return strings.Join(ls, " | ")
}

func cmdReplay(args []string) int {
	if len(args) < 1 {
		return 2
	}
	b, err := os.ReadFile(args[0])
	if err != nil {
		fmt.Println(err)
		return 2
	}
	var cases []replayCase
	if err := json.Unmarshal(b, &cases); err != nil {
		fmt.Println(err)
		return 2
	}
	if len(cases) == 0 {
		return 2
	}
	ld, err := load(nil)
	if err != nil {
		fmt.Println("load error:", err)
		return 2
	}
	outDir := filepath.Join(outBase, "replay")
	os.MkdirAll(outDir, 0o755)
	outcomes, note := runNative(ld, cases[0].PkgDir, args[0], outDir)
	exit := 0
	for i, c := range cases {
		fmt.Printf("%s %s -> %s %s\n", c.Harness, c.Key, outcomes[i], note)
		v := &sym.Violation{Key: c.Key}
		if nativeMatches(v, outcomes[i]) {
			fmt.Printf("REPRODUCED %s: %s with inputs %v\n", c.Key, c.Msg, c.Inputs)
			exit = 1
		}
	}
	return exit
}
