package sym

import (
	"fmt"
	"go/types"
	"strings"

	"golang.org/x/tools/go/ssa"
)

// Value is the interpreter's value universe:
//
//	*Term      bool / integer / float scalar (concrete or symbolic)
//	*StrVal    string (concrete length, bytes concrete or symbolic)
//	*StructVal struct value, *ArrayVal array value (owned, mutable in place inside cells)
//	Ptr        pointer to (a path inside) a heap cell; nil pointer has C==nil
//	SliceVal   slice header with concrete off/len/cap
//	*MapVal    map (reference); nil map is (*MapVal)(nil)
//	Iface      interface value; nil interface has T==nil
//	*FuncVal   function/closure; nil func is (*FuncVal)(nil)
//	TupleVal   multi-value
//	*BigVal    math/big.Int state (exact integer term)
//	*ChanVal   channel (minimal)
type Value interface{}

type Cell struct {
	V    Value
	Name string
	id   int
}

type Ptr struct {
	C    *Cell
	Path []int
}

// SymPtr is the address of a scalar array element at a symbolic index.
type SymPtr struct {
	Base Ptr // pointer to the *ArrayVal
	Off  int
	N    int
	Idx  *Term
}

type StructVal struct{ F []Value }
type ArrayVal struct{ E []Value }

type SliceVal struct {
	Base          Ptr // pointer to an *ArrayVal
	Off, Len, Cap int
	Nil           bool
}

type StrVal struct {
	B []*Term
	// FF: set on the opaque text that the contract model of strconv.FormatFloat(f, 'f', prec, 64)
	// returns for a symbolic f; strconv.ParseFloat recognises it (models.go)
	FF *floatText
}

type floatText struct {
	F    *Term
	Prec int
}

type MapVal struct {
	Keys []Value
	Vals []Value
	id   int
}

type Iface struct {
	T types.Type
	V Value
}

type FuncVal struct {
	Fn  *ssa.Function
	Env []Value
	Bi  *ssa.Builtin
}

type TupleVal []Value

type BigVal struct{ T *Term }

// BigFloatVal models math/big.Float for the two exact uses: an integer or a double.
type BigFloatVal struct {
	Int *Term // big-sorted integer, or nil
	FP  *Term // double, or nil
}

type ChanVal struct {
	Closed bool
	Buf    []Value
	id     int
}

// opaque external objects (e.g. *regexp.Regexp, sync primitives) keep a tag
type OpaqueVal struct {
	Tag string
	X   interface{}
}

func (p Ptr) IsNil() bool { return p.C == nil }

func (p Ptr) sub(i int) Ptr {
	np := make([]int, len(p.Path)+1)
	copy(np, p.Path)
	np[len(p.Path)] = i
	return Ptr{p.C, np}
}

// ptrKey: a map key identifying the addressed slot.
func (c *Ctx) ptrKey(p Ptr) string {
	if p.C == nil {
		return "nil"
	}
	return fmt.Sprintf("%d%v", p.C.id, p.Path)
}

func ptrEq(a, b Ptr) bool {
	if a.C != b.C || len(a.Path) != len(b.Path) {
		return false
	}
	for i := range a.Path {
		if a.Path[i] != b.Path[i] {
			return false
		}
	}
	return true
}

// deref navigates to the container holding the addressed slot.
func (p Ptr) load() Value {
	v := p.C.V
	for _, i := range p.Path {
		switch c := v.(type) {
		case *StructVal:
			v = c.F[i]
		case *ArrayVal:
			v = c.E[i]
		default:
			panic(fmt.Sprintf("engine: bad pointer path into %T", v))
		}
	}
	return v
}

func (p Ptr) store(nv Value) {
	if len(p.Path) == 0 {
		p.C.V = nv
		return
	}
	v := p.C.V
	for _, i := range p.Path[:len(p.Path)-1] {
		switch c := v.(type) {
		case *StructVal:
			v = c.F[i]
		case *ArrayVal:
			v = c.E[i]
		default:
			panic(fmt.Sprintf("engine: bad pointer path into %T", v))
		}
	}
	last := p.Path[len(p.Path)-1]
	switch c := v.(type) {
	case *StructVal:
		c.F[last] = nv
	case *ArrayVal:
		c.E[last] = nv
	default:
		panic(fmt.Sprintf("engine: bad pointer path (store) into %T", v))
	}
}

// copyVal deep-copies aggregates (struct/array values); everything else is shared.
func copyVal(v Value) Value {
	switch c := v.(type) {
	case *StructVal:
		n := &StructVal{F: make([]Value, len(c.F))}
		for i, f := range c.F {
			n.F[i] = copyVal(f)
		}
		return n
	case *ArrayVal:
		n := &ArrayVal{E: make([]Value, len(c.E))}
		for i, f := range c.E {
			n.E[i] = copyVal(f)
		}
		return n
	case TupleVal:
		n := make(TupleVal, len(c))
		for i, f := range c {
			n[i] = copyVal(f)
		}
		return n
	}
	return v
}

func (s SliceVal) elemPtr(i int) Ptr { return s.Base.sub(s.Off + i) }

func (s SliceVal) get(i int) Value { return s.Base.load().(*ArrayVal).E[s.Off+i] }

func ConcreteStr(s string) *StrVal {
	b := make([]*Term, len(s))
	for i := 0; i < len(s); i++ {
		b[i] = nil // filled by ctx (depends on mode)
	}
	return &StrVal{B: b}
}

// concrete returns the Go string if every byte is concrete.
func (s *StrVal) concrete() (string, bool) {
	var sb strings.Builder
	for _, b := range s.B {
		if !b.IsConst() {
			return "", false
		}
		sb.WriteByte(byte(b.C.Uint64()))
	}
	return sb.String(), true
}

func (s *StrVal) String() string {
	var sb strings.Builder
	for _, b := range s.B {
		if b.IsConst() {
			c := byte(b.C.Uint64())
			if c >= 32 && c < 127 {
				sb.WriteByte(c)
			} else {
				fmt.Fprintf(&sb, "\\x%02x", c)
			}
		} else {
			sb.WriteString("?")
		}
	}
	return sb.String()
}

// describe gives a short printable form for diagnostics.
func describe(v Value) string {
	switch c := v.(type) {
	case nil:
		return "<nil>"
	case *Term:
		if c.IsConst() {
			switch c.S.K {
			case KBool:
				return constText(c)
			case KBV:
				return c.SignedVal().String()
			case KInt:
				return c.C.String()
			case KFP:
				return fmt.Sprint(c.F)
			}
		}
		return "<sym " + c.S.SMT() + ">"
	case *StrVal:
		return fmt.Sprintf("%q", c.String())
	case Ptr:
		if c.C == nil {
			return "nil"
		}
		return fmt.Sprintf("&%s%v", c.C.Name, c.Path)
	case Iface:
		if c.T == nil {
			return "nil-iface"
		}
		if sv, ok := c.V.(*StrVal); ok {
			return sv.String()
		}
		return fmt.Sprintf("%s(%s)", c.T, describe(c.V))
	case SliceVal:
		return fmt.Sprintf("slice[len %d]", c.Len)
	case *FuncVal:
		if c == nil {
			return "nil-func"
		}
		if c.Fn != nil {
			return c.Fn.String()
		}
		return "builtin"
	case *BigVal:
		return "big(" + describe(c.T) + ")"
	}
	return fmt.Sprintf("%T", v)
}
