package sym

import (
	"fmt"
	"go/types"
	"math/big"

	"golang.org/x/tools/go/ssa"
)

// Concurrency: event traces of thread bodies.
//
// A thread template is an ordinary harness function. While it runs in
// recording mode every access to the shared object (marked with verifShared)
// and every synchronisation operation becomes an event instead of acting on
// state: a read of a shared scalar yields a fresh symbolic value (so the
// engine forks on what the thread might see), sync.WaitGroup / sync.Once /
// sync.Mutex / channel operations are recorded with no effect. A completed
// path is (events, path condition over the read symbols). The interleaving
// semantics is given to these events by the SMT encoding in cmd/verif/conc.go.

type ConcEvent struct {
	Kind  string // rd wr wg_add wg_wait once_begin once_end mu_lock mu_unlock ch_close ch_recv mark
	Field string // shared field (path inside the shared object), sync object or channel
	Sym   string // rd / once_begin: name of the fresh symbol (Bool or Int)
	Sort  string // rd: "Bool" or "Int"
	Val   string // wr: the value written, rendered as SMT over the path's symbols
	N     int64  // wg_add delta
	Tag   string // mark: harness-defined meaning
	Yield bool   // a verifYield call precedes the event in the source (native replay can stop there)
	Site  string
}

type ConcPath struct {
	Events []ConcEvent
	PC     []string // SMT-LIB Bool terms over the Sym names
	Syms   map[string]string
	Panic  string // the body ends in this Go panic (its own, not one of the modelled sync panics)
	Ret    string
}

type concRec struct {
	shared  *Cell
	events  []ConcEvent
	syms    map[string]string
	yielded bool
	onceDepth int
}

func (c *Ctx) concEvent(e ConcEvent) {
	r := c.rec
	e.Yield = r.yielded
	r.yielded = false
	if c.curFrame != nil {
		e.Site = c.curFrame.fn.String()
	}
	r.events = append(r.events, e)
}

func (c *Ctx) concSym(kind, sort string) (*Term, string) {
	name := fmt.Sprintf("%s_%04d", kind, len(c.rec.events))
	c.rec.syms[name] = sort
	if sort == "Bool" {
		return Var(name, SBool), name
	}
	return Var(name, c.intSort(64)), name
}

// sharedField: is p a scalar slot inside the shared object?
func (c *Ctx) sharedField(p Ptr, t types.Type) (string, bool) {
	if c.rec == nil || c.rec.shared == nil || p.C != c.rec.shared || len(p.Path) == 0 {
		return "", false
	}
	b, ok := t.Underlying().(*types.Basic)
	if !ok || b.Info()&(types.IsBoolean|types.IsInteger) == 0 {
		return "", false
	}
	return fmt.Sprintf("f%v", p.Path), true
}

func (c *Ctx) concLoad(p Ptr, t types.Type) (Value, bool) {
	f, ok := c.sharedField(p, t)
	if !ok {
		return nil, false
	}
	sort := "Int"
	if b := t.Underlying().(*types.Basic); b.Info()&types.IsBoolean != 0 {
		sort = "Bool"
	}
	v, name := c.concSym("rd", sort)
	c.concEvent(ConcEvent{Kind: "rd", Field: f, Sym: name, Sort: sort})
	return v, true
}

func (c *Ctx) concStore(p Ptr, t types.Type, v Value) bool {
	f, ok := c.sharedField(p, t)
	if !ok {
		return false
	}
	tv, isT := v.(*Term)
	if !isT {
		c.unsupported("store of %T to a shared field", v)
	}
	c.concEvent(ConcEvent{Kind: "wr", Field: f, Val: c.inlineSMT(tv)})
	return true
}

func (c *Ctx) concObj(p Ptr) string { return fmt.Sprintf("f%v", p.Path) }

// FinishConcPath snapshots the recorded path.
func (c *Ctx) FinishConcPath() *ConcPath {
	cp := &ConcPath{Events: append([]ConcEvent{}, c.rec.events...), Syms: map[string]string{}}
	for k, v := range c.rec.syms {
		cp.Syms[k] = v
	}
	for _, t := range c.pc {
		cp.PC = append(cp.PC, c.inlineSMT(t))
	}
	return cp
}

var _ = ssa.NewProgram

// inlineSMT renders the small Bool/Int terms that occur in thread traces.
func (c *Ctx) inlineSMT(t *Term) string {
	switch t.Op {
	case "const":
		switch t.S.K {
		case KBool:
			if t.C.Sign() != 0 {
				return "true"
			}
			return "false"
		case KInt:
			if t.C.Sign() < 0 {
				return "(- " + new(big.Int).Neg(t.C).String() + ")"
			}
			return t.C.String()
		case KBV:
			v := toSigned(t.C, t.S.W)
			if v.Sign() < 0 {
				return "(- " + new(big.Int).Neg(v).String() + ")"
			}
			return v.String()
		}
	case "var":
		return t.Name
	case "not", "and", "or", "=", "ite", "=>", "distinct":
		s := "(" + t.Op
		for _, a := range t.Args {
			s += " " + c.inlineSMT(a)
		}
		return s + ")"
	}
	c.unsupported("term %s in a thread trace", t.Op)
	return ""
}
