package sym

import (
	"fmt"
	"go/constant"
	"go/token"
	"go/types"
	"math/big"
	"strings"
	"sync"

	"golang.org/x/tools/go/ssa"
)

// ---------------------------------------------------------------------------
// Control-flow exceptions of the interpreter

// goPanic is a panic of the interpreted program.
type goPanic struct {
	V    Value  // panic value (interface)
	Kind string // "index", "nil", "divide", "assert", "explicit", ...
	Site string // function where raised
	Msg  string
}

// pathAbort ends the current path (never caught by interpreted recover).
type pathAbort struct {
	Kind string // "infeasible", "unsupported", "budget", "unwind", "exit", "engine"
	Msg  string
}

type fnInfo struct {
	idx    map[ssa.Value]int
	n      int
	name   string // fn.String(), cached (types.TypeString is slow)
	model  string // name used for model lookup
	sparse bool   // huge functions (compiler.Expr, yyParse ...) get a map-backed register file
	pool   sync.Pool
}

var (
	fnInfoMu    sync.Mutex
	fnInfoCache = map[*ssa.Function]*fnInfo{}
	fnInfoFast  sync.Map // lock-free read path
)

func infoOf(fn *ssa.Function) *fnInfo {
	if fi, ok := fnInfoFast.Load(fn); ok {
		return fi.(*fnInfo)
	}
	fnInfoMu.Lock()
	defer fnInfoMu.Unlock()
	if fi, ok := fnInfoCache[fn]; ok {
		return fi
	}
	fi := &fnInfo{idx: map[ssa.Value]int{}}
	add := func(v ssa.Value) {
		if _, ok := fi.idx[v]; !ok {
			fi.idx[v] = fi.n
			fi.n++
		}
	}
	for _, p := range fn.Params {
		add(p)
	}
	for _, p := range fn.FreeVars {
		add(p)
	}
	for _, b := range fn.Blocks {
		for _, in := range b.Instrs {
			if v, ok := in.(ssa.Value); ok {
				add(v)
			}
		}
	}
	fi.name = fn.String()
	fi.model = fi.name
	if o := fn.Origin(); o != nil {
		fi.model = o.String()
	}
	fi.sparse = false // pooled slices are cheaper than maps even for huge functions
	fnInfoCache[fn] = fi
	fnInfoFast.Store(fn, fi)
	return fi
}

// StepProfile, when non-nil, counts executed instructions per function (single worker only).
var StepProfile map[string]int

type deferred struct {
	fn   Value
	args []Value
	call *ssa.CallCommon
}

type frame struct {
	fn        *ssa.Function
	info      *fnInfo
	env       []Value
	envMap    map[int]Value // init frames are huge and sparsely used
	block     *ssa.BasicBlock
	prev      *ssa.BasicBlock
	defers    []deferred
	result    Value
	panicking *goPanic
	caller    *frame
	isInit    bool
}

// ---------------------------------------------------------------------------
// Ctx: one path execution

type numberText struct {
	chars []*Term
	val   *Term
}

type Ctx struct {
	Prog      *ssa.Program
	Ex        *Explorer
	S         *Solver
	st        *Stats
	itemModel Model
	IntMode   bool
	BigW      int // width of big.Int model in BV mode
	// digitChars: character terms made by bigText -> the digit value they spell
	digitChars map[*Term]*Term
	// shortCache: abstract shortest decimal per float term (models.go); forceIntText: bigText called by a model
	shortCache   map[string]*shortDec
	forceIntText bool
	// skipModelFor: the next call of this function bypasses its model (set by a model that declines)
	skipModelFor *ssa.Function
	// numberTexts: first character term of a decimal text written by a model -> the text and its value
	numberTexts map[*Term]numberText

	pc     []*Term
	pcSet  map[string]bool
	model  Model
	prefix []int
	pos    int
	trace  []int

	steps     int
	decisions int
	depth     int
	fresh     int
	cellID    int

	globals    map[*ssa.Global]*Cell
	initing    map[*ssa.Global]bool
	initFr     map[*ssa.Package]*frame
	inputs     map[string]*Term // named symbolic inputs created on this path
	inputOrder []string
	bigInputs  map[string]bool
	choices    map[string]int // named concrete choices
	reached    map[string]bool
	funcs      map[string]bool
	wdistinct  map[string]bool
	log        []string
	curFrame   *frame
	onceDone   map[*Cell]bool
	wgs        map[string]int64 // sync.WaitGroup counters by object
	rec        *concRec         // non-nil: thread-trace recording mode (conc.go)
	fmodCache  map[string]*Term // math.Mod contract model: result per operand pair
	inGoPanic  bool
	mapPolicy  int
	pools      map[*Cell][]Value
}

func (c *Ctx) abort(kind, format string, a ...interface{}) {
	panic(&pathAbort{Kind: kind, Msg: fmt.Sprintf(format, a...)})
}

func (c *Ctx) unsupported(format string, a ...interface{}) {
	where := ""
	if c.curFrame != nil {
		where = " in " + c.curFrame.fn.String()
	}
	panic(&pathAbort{Kind: "unsupported", Msg: fmt.Sprintf(format, a...) + where})
}

func (c *Ctx) newCell(v Value, name string) *Cell {
	c.cellID++
	return &Cell{V: v, Name: name, id: c.cellID}
}

func (c *Ctx) freshName(prefix string) string {
	c.fresh++
	return fmt.Sprintf("%s!%d", prefix, c.fresh)
}

// ---------------------------------------------------------------------------
// Integer representation helpers

func intInfo(t types.Type) (w int, signed bool, ok bool) {
	b, isb := t.Underlying().(*types.Basic)
	if !isb {
		return 0, false, false
	}
	switch b.Kind() {
	case types.Int8:
		return 8, true, true
	case types.Int16:
		return 16, true, true
	case types.Int32, types.UntypedRune:
		return 32, true, true
	case types.Int64, types.Int, types.UntypedInt:
		return 64, true, true
	case types.Uint8:
		return 8, false, true
	case types.Uint16:
		return 16, false, true
	case types.Uint32:
		return 32, false, true
	case types.Uint64, types.Uint, types.Uintptr:
		return 64, false, true
	}
	return 0, false, false
}

func isFloat(t types.Type) bool {
	b, ok := t.Underlying().(*types.Basic)
	return ok && b.Info()&types.IsFloat != 0
}
func isString(t types.Type) bool {
	b, ok := t.Underlying().(*types.Basic)
	return ok && b.Info()&types.IsString != 0
}
func isBool(t types.Type) bool {
	b, ok := t.Underlying().(*types.Basic)
	return ok && b.Info()&types.IsBoolean != 0
}

func (c *Ctx) intSort(w int) Sort {
	if c.IntMode {
		return SInt
	}
	return SBV(w)
}

// mkInt makes an integer constant of the given machine type (value wrapped).
func (c *Ctx) mkInt(v *big.Int, w int, signed bool) *Term {
	if !c.IntMode {
		return BVConst(v, w)
	}
	r := normBV(v, w)
	if signed {
		r = toSigned(r, w)
	}
	return IntConst(r)
}
func (c *Ctx) mkInt64(v int64, w int, signed bool) *Term {
	if !c.IntMode {
		return BVConst64(v, w)
	}
	return c.mkInt(big.NewInt(v), w, signed)
}
func (c *Ctx) goInt(v int64) *Term { return c.mkInt64(v, 64, true) }
func (c *Ctx) byteT(b byte) *Term  { return c.mkInt64(int64(b), 8, false) }

// constInt returns the concrete signed value of an integer term if constant.
func (c *Ctx) constInt(t *Term, signed bool) (int64, bool) {
	if !t.IsConst() {
		return 0, false
	}
	if t.S.K == KBV && t.S.W <= 64 {
		u, s := t.u64()
		if signed {
			return s, true
		}
		if t.S.W == 64 && u > 1<<63-1 {
			return 0, false
		}
		return int64(u), true
	}
	var v *big.Int
	if t.S.K == KBV && signed {
		v = t.SignedVal()
	} else {
		v = t.C
	}
	if !v.IsInt64() {
		return 0, false
	}
	return v.Int64(), true
}

func (c *Ctx) str(s string) *StrVal {
	b := make([]*Term, len(s))
	for i := 0; i < len(s); i++ {
		b[i] = c.byteT(s[i])
	}
	return &StrVal{B: b}
}

// rangeConstraint for INT mode symbolic variables
func (c *Ctx) rangeOf(t *Term, w int, signed bool) *Term {
	if !c.IntMode {
		return True
	}
	if signed {
		lo := new(big.Int).Neg(pow2(w - 1))
		hi := new(big.Int).Sub(pow2(w-1), big.NewInt(1))
		return And(ILe(IntConst(lo), t), ILe(t, IntConst(hi)))
	}
	hi := new(big.Int).Sub(pow2(w), big.NewInt(1))
	return And(ILe(IntConst64(0), t), ILe(t, IntConst(hi)))
}

// wrap brings an Int-mode result back into the machine range. small=true means
// the value is known to be off by at most one modulus (add/sub).
func (c *Ctx) wrap(r *Term, w int, signed bool, small bool) *Term {
	m := IntConst(pow2(w))
	if r.IsConst() {
		return c.mkInt(r.C, w, signed)
	}
	if signed {
		half := pow2(w - 1)
		lo := IntConst(new(big.Int).Neg(half))
		hi := IntConst(new(big.Int).Sub(half, big.NewInt(1)))
		if small {
			return Ite(ILt(hi, r), ISub(r, m), Ite(ILt(r, lo), IAdd(r, m), r))
		}
		return ISub(IMod(IAdd(r, IntConst(half)), m), IntConst(half))
	}
	if small {
		return Ite(ILe(m, r), ISub(r, m), Ite(ILt(r, IntConst64(0)), IAdd(r, m), r))
	}
	return IMod(r, m)
}

// ---------------------------------------------------------------------------
// Zero values

var bigIntStruct types.Type // set by Explorer from math/big

func (c *Ctx) isBigStruct(t types.Type) bool {
	if n, ok := t.(*types.Named); ok {
		o := n.Obj()
		if o.Pkg() != nil && o.Pkg().Path() == "math/big" && o.Name() == "Int" {
			return true
		}
		if o.Pkg() != nil && strings.HasSuffix(o.Pkg().Path(), "gpython/py") && o.Name() == "BigInt" {
			return true
		}
	}
	return false
}

func (c *Ctx) bigSort() Sort {
	if c.IntMode {
		return SInt
	}
	return SBV(c.BigW)
}

func (c *Ctx) bigConst(v *big.Int) *Term {
	if c.IntMode {
		return IntConst(v)
	}
	return BVConst(v, c.BigW)
}

func isBigFloat(t types.Type) bool {
	if n, ok := t.(*types.Named); ok {
		o := n.Obj()
		return o.Pkg() != nil && o.Pkg().Path() == "math/big" && o.Name() == "Float"
	}
	return false
}

func (c *Ctx) zero(t types.Type) Value {
	if c.isBigStruct(t) {
		return &BigVal{T: c.bigConst(big.NewInt(0))}
	}
	if isBigFloat(t) {
		return &BigFloatVal{FP: FPConst(0)}
	}
	switch u := t.Underlying().(type) {
	case *types.Basic:
		switch {
		case u.Info()&types.IsBoolean != 0:
			return False
		case u.Info()&types.IsInteger != 0:
			w, s, _ := intInfo(u)
			return c.mkInt64(0, w, s)
		case u.Info()&types.IsFloat != 0:
			return FPConst(0)
		case u.Info()&types.IsString != 0:
			return &StrVal{}
		case u.Kind() == types.UnsafePointer:
			return Ptr{}
		case u.Kind() == types.UntypedNil:
			return Ptr{}
		case u.Info()&types.IsComplex != 0:
			return &StructVal{F: []Value{FPConst(0), FPConst(0)}}
		}
	case *types.Pointer:
		return Ptr{}
	case *types.Slice:
		return SliceVal{Nil: true}
	case *types.Map:
		return (*MapVal)(nil)
	case *types.Interface:
		return Iface{}
	case *types.Signature:
		return (*FuncVal)(nil)
	case *types.Chan:
		return (*ChanVal)(nil)
	case *types.Struct:
		s := &StructVal{F: make([]Value, u.NumFields())}
		for i := 0; i < u.NumFields(); i++ {
			s.F[i] = c.zero(u.Field(i).Type())
		}
		return s
	case *types.Array:
		n := int(u.Len())
		a := &ArrayVal{E: make([]Value, n)}
		if n > 0 {
			z := c.zero(u.Elem())
			a.E[0] = z
			for i := 1; i < n; i++ {
				a.E[i] = copyVal(z)
			}
		}
		return a
	case *types.Tuple:
		tv := make(TupleVal, u.Len())
		for i := range tv {
			tv[i] = c.zero(u.At(i).Type())
		}
		return tv
	}
	c.unsupported("zero value of %s", t)
	return nil
}

// ---------------------------------------------------------------------------
// Constants

var constCache [2]sync.Map // per encoding: *ssa.Const -> Value (immutable scalars and strings only)

func (c *Ctx) constValue(k *ssa.Const) Value {
	mode := 0
	if c.IntMode {
		mode = 1
	}
	if v, ok := constCache[mode].Load(k); ok {
		return v
	}
	v := c.constValue1(k)
	switch v.(type) {
	case *Term, *StrVal:
		constCache[mode].Store(k, v)
	}
	return v
}

func (c *Ctx) constValue1(k *ssa.Const) Value {
	t := k.Type()
	if k.Value == nil {
		return c.zero(t)
	}
	switch u := t.Underlying().(type) {
	case *types.Basic:
		switch {
		case u.Info()&types.IsBoolean != 0:
			return BoolConst(constant.BoolVal(k.Value))
		case u.Info()&types.IsInteger != 0:
			w, s, _ := intInfo(u)
			v, ok := new(big.Int).SetString(constant.ToInt(k.Value).ExactString(), 10)
			if !ok {
				c.unsupported("integer constant %s", k.Value)
			}
			return c.mkInt(v, w, s)
		case u.Info()&types.IsFloat != 0:
			f, _ := constant.Float64Val(constant.ToFloat(k.Value))
			return FPConst(f)
		case u.Info()&types.IsString != 0:
			if k.Value.Kind() == constant.String {
				return c.str(constant.StringVal(k.Value))
			}
		case u.Info()&types.IsComplex != 0:
			re, _ := constant.Float64Val(constant.Real(k.Value))
			im, _ := constant.Float64Val(constant.Imag(k.Value))
			return &StructVal{F: []Value{FPConst(re), FPConst(im)}}
		}
	}
	c.unsupported("constant %s of type %s", k.Value, t)
	return nil
}

// ---------------------------------------------------------------------------
// Path condition and decisions

func (c *Ctx) addPC(t *Term) {
	if t.IsTrue() {
		return
	}
	c.pc = append(c.pc, t)
	if c.pcSet == nil {
		c.pcSet = map[string]bool{}
	}
	c.pcSet[t.Key()] = true
	if t.Op == "and" {
		for _, a := range t.Args {
			c.pcSet[a.Key()] = true
		}
	}
}

func (c *Ctx) evalModel(t *Term) (bool, bool) {
	if c.model == nil {
		return false, false
	}
	v := Eval(t, c.model, map[*Term]*Term{})
	if v == nil || !v.IsConst() {
		return false, false
	}
	return v.C.Sign() != 0, true
}

// feasible asks whether PC ∧ g is satisfiable. Unknown counts as feasible.
func (c *Ctx) feasible(g *Term) (bool, Model) {
	if g.IsTrue() {
		return true, c.model
	}
	if g.IsFalse() {
		return false, nil
	}
	if v, ok := c.evalModel(g); ok && v {
		return true, c.model
	}
	if c.pcSet[Not(g).Key()] {
		c.st.SyntacticPrunes++
		return false, nil
	}
	r, m, _ := c.S.CheckPC(c.pc, []*Term{g}, true)
	c.st.FeasQueries++
	switch r {
	case Unsat:
		return false, nil
	case Sat:
		return true, m
	}
	c.st.UnknownBranches++
	return true, nil
}

// choose picks one of n alternatives. guard(i) gives the condition of
// alternative i (nil = unconditional). Alternatives must be exhaustive.
func (c *Ctx) choose(n int, guard func(i int) *Term) int {
	g := func(i int) *Term {
		if guard == nil {
			return True
		}
		return guard(i)
	}
	if c.pos < len(c.prefix) {
		i := c.prefix[c.pos]
		c.pos++
		c.trace = append(c.trace, i)
		c.addPC(g(i))
		if c.pos == len(c.prefix) {
			c.model = c.itemModel
		}
		return i
	}
	c.decisions++
	if c.decisions > c.Ex.MaxDecisions {
		c.abort("unwind", "more than %d symbolic decisions on one path (unwinding bound)", c.Ex.MaxDecisions)
	}
	type alt struct {
		i int
		m Model
	}
	var feas []alt
	for i := 0; i < n; i++ {
		gi := g(i)
		if gi.IsFalse() {
			continue
		}
		// last candidate and nothing feasible so far: PC is feasible and guards exhaustive
		if i == n-1 && len(feas) == 0 {
			ok, m := true, Model(nil)
			if !gi.IsTrue() {
				// still need a model for shortcuts; ask lazily (nil model is fine)
				if v, ok2 := c.evalModel(gi); ok2 && v {
					m = c.model
				}
			} else {
				m = c.model
			}
			if ok {
				feas = append(feas, alt{i, m})
			}
			continue
		}
		ok, m := c.feasible(gi)
		if ok {
			feas = append(feas, alt{i, m})
		}
	}
	if len(feas) == 0 {
		c.abort("infeasible", "no feasible alternative")
	}
	for _, a := range feas[1:] {
		p := append(append([]int{}, c.trace...), a.i)
		c.Ex.push(p, a.m)
	}
	c.trace = append(c.trace, feas[0].i)
	c.addPC(g(feas[0].i))
	c.model = feas[0].m
	return feas[0].i
}

// decide branches on a boolean term.
func (c *Ctx) decide(cond *Term) bool {
	if cond.IsConst() {
		return cond.IsTrue()
	}
	// prefer the branch the current model takes first
	return c.choose(2, func(i int) *Term {
		if i == 0 {
			return cond
		}
		return Not(cond)
	}) == 0
}

// assume adds a constraint; aborts the path if it becomes infeasible.
func (c *Ctx) replaying() bool { return c.pos < len(c.prefix) }

func (c *Ctx) assume(cond *Term) {
	if cond.IsTrue() {
		return
	}
	if c.replaying() {
		c.addPC(cond)
		return
	}
	if cond.IsFalse() {
		c.abort("infeasible", "assumption false")
	}
	ok, m := c.feasible(cond)
	if !ok {
		c.abort("infeasible", "assumption infeasible")
	}
	c.addPC(cond)
	c.model = m
}

// concretize forks over the feasible values of an integer term within [lo,hi].
// A decision is recorded as (value - lo), so replay needs no enumeration.
func (c *Ctx) concretize(t *Term, signed bool, lo, hi int64, what string) int64 {
	if v, ok := c.constInt(t, signed); ok {
		return v
	}
	w := t.S.W
	eq := func(v int64) *Term {
		if c.IntMode {
			return Eq(t, IntConst64(v))
		}
		return Eq(t, BVConst64(v, w))
	}
	if c.pos < len(c.prefix) {
		i := c.prefix[c.pos]
		c.pos++
		c.trace = append(c.trace, i)
		c.addPC(eq(lo + int64(i)))
		if c.pos == len(c.prefix) {
			c.model = c.itemModel
		}
		return lo + int64(i)
	}
	if hi-lo <= 64 {
		n := int(hi-lo) + 1
		i := c.choose(n, func(i int) *Term { return eq(lo + int64(i)) })
		return lo + int64(i)
	}
	// large range: enumerate the feasible values with the solver (at most 64 of them)
	c.decisions++
	if c.decisions > c.Ex.MaxDecisions {
		c.abort("unwind", "more than %d symbolic decisions on one path (unwinding bound)", c.Ex.MaxDecisions)
	}
	type alt struct {
		v int64
		m Model
	}
	var feas []alt
	var inRange *Term
	if c.IntMode {
		inRange = And(ILe(IntConst64(lo), t), ILe(t, IntConst64(hi)))
	} else {
		inRange = And(BVSle(BVConst64(lo, w), t), BVSle(t, BVConst64(hi, w)))
	}
	excl := []*Term{inRange}
	for len(feas) <= 64 {
		r, m, _ := c.S.CheckPC(c.pc, excl, true)
		c.st.FeasQueries++
		if r != Sat || m == nil {
			if r == Unknown {
				c.unsupported("concretize %s: solver unknown while enumerating values", what)
			}
			break
		}
		val := Eval(t, m, map[*Term]*Term{})
		if val == nil || !val.IsConst() {
			c.unsupported("concretize %s: cannot evaluate the term under the model", what)
		}
		v, _ := c.constInt(val, signed)
		feas = append(feas, alt{v, m})
		excl = append(excl, Not(eq(v)))
	}
	if len(feas) == 0 {
		c.abort("infeasible", "no feasible value for %s", what)
	}
	if len(feas) > 64 {
		c.unsupported("concretize %s: more than 64 feasible values in [%d,%d]", what, lo, hi)
	}
	for _, a := range feas[1:] {
		p := append(append([]int{}, c.trace...), int(a.v-lo))
		c.Ex.push(p, a.m)
	}
	c.trace = append(c.trace, int(feas[0].v-lo))
	c.addPC(eq(feas[0].v))
	c.model = feas[0].m
	return feas[0].v
}

// ---------------------------------------------------------------------------
// Go panics

func (c *Ctx) goPanic(kind, msg string) {
	site := "?"
	if c.curFrame != nil {
		site = c.curFrame.fn.String()
	}
	// the panic value is an error (as runtime.Error is): recover()ing code may call .Error() on it
	var v Value = Iface{T: runtimeErrorType, V: &OpaqueVal{Tag: "runtime.Error:" + kind + ":" + msg}}
	if c.Prog.ImportedPackage("errors") != nil && !c.inGoPanic {
		c.inGoPanic = true
		v = c.mkError(c.str("runtime error: " + msg))
		c.inGoPanic = false
	}
	panic(&goPanic{V: v, Kind: kind, Site: site, Msg: msg})
}

var runtimeErrorType types.Type = types.NewNamed(types.NewTypeName(token.NoPos, nil, "runtime.Error", nil), types.NewStruct(nil, nil), nil)

// check that guard holds, else the path forks into a Go panic.
func (c *Ctx) panicUnless(guard *Term, kind, msg string) {
	if guard.IsTrue() {
		return
	}
	if !c.decide(guard) {
		c.goPanic(kind, msg)
	}
}

// ---------------------------------------------------------------------------
// Globals

func (c *Ctx) globalPtr(g *ssa.Global) Ptr {
	if cell, ok := c.globals[g]; ok {
		return Ptr{C: cell}
	}
	elem := g.Type().(*types.Pointer).Elem()
	cell := c.newCell(nil, g.String())
	c.globals[g] = cell
	cell.V = c.zero(elem)
	c.initGlobal(g, cell)
	return Ptr{C: cell}
}

// ---------------------------------------------------------------------------
// Frames

var funcValCache sync.Map // immutable FuncVal per plain function / builtin

func (c *Ctx) get(fr *frame, v ssa.Value) Value {
	switch v := v.(type) {
	case *ssa.Const:
		return c.constValue(v)
	case *ssa.Global:
		return c.globalPtr(v)
	case *ssa.Function:
		if f, ok := funcValCache.Load(v); ok {
			return f
		}
		f := &FuncVal{Fn: v}
		funcValCache.Store(v, f)
		return f
	case *ssa.Builtin:
		if f, ok := funcValCache.Load(v); ok {
			return f
		}
		f := &FuncVal{Bi: v}
		funcValCache.Store(v, f)
		return f
	}
	i, ok := fr.info.idx[v]
	if !ok {
		c.unsupported("unknown ssa value %T %s", v, v.Name())
	}
	if fr.envMap != nil && !fr.isInit {
		r := fr.envMap[i]
		if r == nil {
			panic(fmt.Sprintf("engine: unset register %s in %s", v.Name(), fr.fn))
		}
		return r
	}
	if fr.isInit {
		r := fr.envMap[i]
		if r == nil {
			c.initNeed(fr, v)
			r = fr.envMap[i]
		}
		if r == nil {
			panic(fmt.Sprintf("engine: unset init register %s in %s", v.Name(), fr.fn))
		}
		return r
	}
	r := fr.env[i]
	if r == nil {
		if r == nil {
			panic(fmt.Sprintf("engine: unset register %s in %s", v.Name(), fr.fn))
		}
	}
	return r
}

func (c *Ctx) set(fr *frame, v ssa.Value, x Value) {
	if fr.envMap != nil {
		fr.envMap[fr.info.idx[v]] = x
		return
	}
	fr.env[fr.info.idx[v]] = x
}

// CallFn calls an SSA function with arguments (and closure environment).
func (c *Ctx) CallFn(fn *ssa.Function, args []Value, env []Value) Value {
	if r, ok := c.callModel(fn, args); ok {
		return r
	}
	if fn.Blocks == nil {
		c.unsupported("external function without body or model: %s", fn.String())
	}
	c.depth++
	if c.depth > 400 {
		c.abort("budget", "call depth exceeded")
	}
	defer func() { c.depth-- }()
	info := infoOf(fn)
	c.funcs[info.name] = true
	fr := &frame{fn: fn, info: info, caller: c.curFrame}
	if info.sparse {
		fr.envMap = make(map[int]Value, 32)
	} else {
		// register files are recycled per function: allocation (and the GC work it causes) dominated the run time
		if p, ok := info.pool.Get().(*[]Value); ok {
			fr.env = *p
		} else {
			fr.env = make([]Value, info.n)
		}
		defer func() {
			env := fr.env
			for i := range env {
				env[i] = nil
			}
			info.pool.Put(&env)
		}()
	}
	for i, p := range fn.Params {
		c.set(fr, p, args[i])
	}
	for i, fv := range fn.FreeVars {
		c.set(fr, fv, env[i])
	}
	fr.block = fn.Blocks[0]
	saved := c.curFrame
	c.curFrame = fr
	defer func() { c.curFrame = saved }()
	for fr.block != nil {
		c.runFrame(fr)
	}
	return fr.result
}

// runFrame executes blocks until return; handles interpreted panics.
func (c *Ctx) runFrame(fr *frame) {
	defer func() {
		r := recover()
		if r == nil {
			return
		}
		gp, ok := r.(*goPanic)
		if !ok {
			panic(r)
		}
		c.curFrame = fr
		fr.panicking = gp
		fr.block = nil
		c.runDefers(fr)
		if fr.panicking != nil {
			panic(fr.panicking)
		}
		// recovered
		if fr.fn.Recover != nil {
			fr.block = fr.fn.Recover
			fr.prev = nil
		} else {
			fr.result = c.zeroResults(fr.fn)
			fr.block = nil
		}
	}()
	for fr.block != nil {
		b := fr.block
	instrs:
		for _, in := range b.Instrs {
			c.steps++
			if c.steps > c.Ex.MaxSteps {
				c.abort("budget", "step budget exceeded (%d)", c.Ex.MaxSteps)
			}
			if StepProfile != nil {
				StepProfile[fr.info.name]++
			}
			switch c.visit(fr, in) {
			case kReturn:
				fr.block = nil
				return
			case kJump:
				break instrs
			}
		}
	}
}

func (c *Ctx) zeroResults(fn *ssa.Function) Value {
	res := fn.Signature.Results()
	switch res.Len() {
	case 0:
		return nil
	case 1:
		return c.zero(res.At(0).Type())
	}
	return c.zero(res)
}

func (c *Ctx) runDefers(fr *frame) {
	for len(fr.defers) > 0 {
		d := fr.defers[len(fr.defers)-1]
		fr.defers = fr.defers[:len(fr.defers)-1]
		func() {
			// a panic inside a deferred call replaces the current one
			defer func() {
				if r := recover(); r != nil {
					if gp, ok := r.(*goPanic); ok {
						c.curFrame = fr
						fr.panicking = gp
						return
					}
					panic(r)
				}
			}()
			c.callValue(d.fn, d.args, d.call)
		}()
	}
}

type cont int

const (
	kNext cont = iota
	kReturn
	kJump
)

func (c *Ctx) visit(fr *frame, instr ssa.Instruction) cont {
	switch in := instr.(type) {
	case *ssa.DebugRef:
	case *ssa.UnOp:
		c.set(fr, in, c.unop(in, c.get(fr, in.X)))
	case *ssa.BinOp:
		y := c.get(fr, in.Y)
		if in.Op == token.SHL || in.Op == token.SHR {
			if _, ys, ok := intInfo(in.Y.Type()); ok && ys {
				yt := y.(*Term)
				if c.IntMode {
					c.panicUnless(ILe(IntConst64(0), yt), "shift", "negative shift amount")
				} else {
					c.panicUnless(BVSle(BVConst64(0, yt.S.W), yt), "shift", "negative shift amount")
				}
			}
		}
		c.set(fr, in, c.binop(in.Op, in.X.Type(), c.get(fr, in.X), y))
	case *ssa.Call:
		fn, args := c.prepareCall(fr, &in.Call)
		c.set(fr, in, c.callValue(fn, args, &in.Call))
	case *ssa.ChangeInterface:
		c.set(fr, in, c.get(fr, in.X))
	case *ssa.ChangeType:
		c.set(fr, in, c.get(fr, in.X))
	case *ssa.Convert:
		c.set(fr, in, c.convert(in.X.Type(), in.Type(), c.get(fr, in.X)))
	case *ssa.SliceToArrayPointer:
		s := c.get(fr, in.X).(SliceVal)
		n := int(in.Type().(*types.Pointer).Elem().Underlying().(*types.Array).Len())
		if s.Len < n {
			c.goPanic("slice-to-array", "slice too short")
		}
		if s.Off != 0 {
			c.unsupported("slice to array pointer at offset")
		}
		c.set(fr, in, s.Base)
	case *ssa.MakeInterface:
		c.set(fr, in, Iface{T: in.X.Type(), V: c.get(fr, in.X)})
	case *ssa.Extract:
		c.set(fr, in, c.get(fr, in.Tuple).(TupleVal)[in.Index])
	case *ssa.Slice:
		c.set(fr, in, c.sliceOp(fr, in))
	case *ssa.Return:
		switch len(in.Results) {
		case 0:
		case 1:
			fr.result = c.get(fr, in.Results[0])
		default:
			res := make(TupleVal, len(in.Results))
			for i, r := range in.Results {
				res[i] = c.get(fr, r)
			}
			fr.result = res
		}
		fr.block = nil
		return kReturn
	case *ssa.RunDefers:
		c.runDefers(fr)
		if fr.panicking != nil {
			panic(fr.panicking)
		}
	case *ssa.Panic:
		v := c.get(fr, in.X)
		panic(&goPanic{V: v, Kind: "explicit", Site: fr.fn.String(), Msg: describe(v)})
	case *ssa.Send:
		ch := c.get(fr, in.Chan).(*ChanVal)
		if ch == nil {
			c.unsupported("send on nil channel")
		}
		if ch.Closed {
			c.goPanic("chan", "send on closed channel")
		}
		ch.Buf = append(ch.Buf, c.get(fr, in.X))
	case *ssa.Store:
		if sp, ok := c.get(fr, in.Addr).(SymPtr); ok {
			arr := sp.Base.load().(*ArrayVal)
			nv := c.get(fr, in.Val).(*Term)
			for k := 0; k < sp.N; k++ {
				arr.E[sp.Off+k] = Ite(c.idxEq(sp.Idx, k), nv, arr.E[sp.Off+k].(*Term))
			}
			return kNext
		}
		p := c.get(fr, in.Addr).(Ptr)
		if p.IsNil() {
			c.goPanic("nil", "nil pointer dereference (store)")
		}
		if c.rec != nil && c.concStore(p, in.Val.Type(), c.get(fr, in.Val)) {
			return kNext
		}
		p.store(copyVal(c.get(fr, in.Val)))
	case *ssa.If:
		cond := c.get(fr, in.Cond).(*Term)
		succ := 1
		if c.decide(cond) {
			succ = 0
		}
		fr.prev, fr.block = fr.block, fr.block.Succs[succ]
		return kJump
	case *ssa.Jump:
		fr.prev, fr.block = fr.block, fr.block.Succs[0]
		return kJump
	case *ssa.Defer:
		fn, args := c.prepareCall(fr, &in.Call)
		fr.defers = append(fr.defers, deferred{fn: fn, args: args, call: &in.Call})
	case *ssa.Go:
		c.unsupported("go statement")
	case *ssa.MakeChan:
		c.cellID++
		c.set(fr, in, &ChanVal{id: c.cellID})
	case *ssa.Alloc:
		t := in.Type().(*types.Pointer).Elem()
		name := in.Comment
		if name == "" {
			name = "alloc"
		}
		c.set(fr, in, Ptr{C: c.newCell(c.zero(t), name)})
	case *ssa.MakeSlice:
		ln := c.get(fr, in.Len).(*Term)
		cp := c.get(fr, in.Cap).(*Term)
		n := c.sizeArg(ln, "make len")
		m := c.sizeArg(cp, "make cap")
		if n < 0 || m < n {
			c.goPanic("makeslice", "makeslice: len out of range")
		}
		c.set(fr, in, c.makeSlice(in.Type().Underlying().(*types.Slice).Elem(), n, m))
	case *ssa.MakeMap:
		c.cellID++
		c.set(fr, in, &MapVal{id: c.cellID})
	case *ssa.Range:
		c.set(fr, in, c.rangeIter(c.get(fr, in.X), in.X.Type()))
	case *ssa.Next:
		c.set(fr, in, c.get(fr, in.Iter).(*iterState).next(c, in))
	case *ssa.FieldAddr:
		p := c.get(fr, in.X).(Ptr)
		if p.IsNil() {
			c.goPanic("nil", "nil pointer dereference (field)")
		}
		c.set(fr, in, p.sub(in.Field))
	case *ssa.Field:
		c.set(fr, in, c.get(fr, in.X).(*StructVal).F[in.Field])
	case *ssa.IndexAddr:
		c.set(fr, in, c.indexAddr(fr, in))
	case *ssa.Index:
		c.set(fr, in, c.index(fr, in))
	case *ssa.Lookup:
		c.set(fr, in, c.lookup(fr, in))
	case *ssa.MapUpdate:
		m := c.get(fr, in.Map).(*MapVal)
		if m == nil {
			c.goPanic("nilmap", "assignment to entry in nil map")
		}
		c.mapSet(m, c.get(fr, in.Key), copyVal(c.get(fr, in.Value)))
	case *ssa.TypeAssert:
		c.set(fr, in, c.typeAssert(in, c.get(fr, in.X).(Iface)))
	case *ssa.MakeClosure:
		env := make([]Value, len(in.Bindings))
		for i, b := range in.Bindings {
			env[i] = c.get(fr, b)
		}
		c.set(fr, in, &FuncVal{Fn: in.Fn.(*ssa.Function), Env: env})
	case *ssa.Phi:
		for i, p := range in.Block().Preds {
			if p == fr.prev {
				c.set(fr, in, c.get(fr, in.Edges[i]))
				break
			}
		}
	case *ssa.Select:
		c.unsupported("select")
	default:
		c.unsupported("instruction %T", instr)
	}
	return kNext
}

func (c *Ctx) sizeArg(t *Term, what string) int {
	if v, ok := c.constInt(t, true); ok {
		if v > 1<<24 {
			c.abort("budget", "%s too large: %d", what, v)
		}
		return int(v)
	}
	// symbolic size: fork over small range, negative → panic path
	lim := int64(c.Ex.MaxSymLen)
	var neg, big_ *Term
	if c.IntMode {
		neg = ILt(t, IntConst64(0))
		big_ = ILt(IntConst64(lim), t)
	} else {
		neg = BVSlt(t, BVConst64(0, t.S.W))
		big_ = BVSlt(BVConst64(lim, t.S.W), t)
	}
	if c.decide(neg) {
		return -1
	}
	if c.decide(big_) {
		c.abort("bound", "%s symbolic and larger than %d", what, lim)
	}
	return int(c.concretize(t, true, 0, lim, what))
}

func (c *Ctx) makeSlice(elem types.Type, n, m int) SliceVal {
	a := &ArrayVal{E: make([]Value, m)}
	if m > 0 {
		z := c.zero(elem)
		a.E[0] = z
		for i := 1; i < m; i++ {
			a.E[i] = copyVal(z)
		}
	}
	return SliceVal{Base: Ptr{C: c.newCell(a, "makeslice")}, Off: 0, Len: n, Cap: m}
}

// ---------------------------------------------------------------------------
// Calls

func (c *Ctx) prepareCall(fr *frame, call *ssa.CallCommon) (Value, []Value) {
	var args []Value
	var fn Value
	if call.IsInvoke() {
		recv := c.get(fr, call.Value).(Iface)
		if recv.T == nil {
			c.goPanic("nil", "method call on nil interface ("+call.Method.Name()+")")
		}
		f := c.lookupMethod(recv.T, call.Method)
		fn = &FuncVal{Fn: f}
		args = append(args, recv.V)
	} else {
		fn = c.get(fr, call.Value)
	}
	for _, a := range call.Args {
		args = append(args, c.get(fr, a))
	}
	return fn, args
}

type methodKey struct {
	t types.Type
	m *types.Func
}

var methodCache sync.Map

func (c *Ctx) lookupMethod(t types.Type, m *types.Func) *ssa.Function {
	k := methodKey{t, m}
	if f, ok := methodCache.Load(k); ok {
		return f.(*ssa.Function)
	}
	f := c.lookupMethod1(t, m)
	methodCache.Store(k, f)
	return f
}

func (c *Ctx) lookupMethod1(t types.Type, m *types.Func) *ssa.Function {
	if _, ok := t.Underlying().(*types.Interface); ok {
		c.unsupported("method lookup on interface-typed dynamic type %s", t)
	}
	f := c.Prog.LookupMethod(t, m.Pkg(), m.Name())
	if f == nil {
		if t == runtimeErrorType {
			c.unsupported("method %s on runtime.Error", m.Name())
		}
		c.unsupported("no method %s on %s", m.Name(), t)
	}
	return f
}

func (c *Ctx) callValue(fn Value, args []Value, call *ssa.CallCommon) Value {
	f, ok := fn.(*FuncVal)
	if !ok || f == nil {
		c.goPanic("nil", "call of nil function")
	}
	if f.Bi != nil {
		return c.callBuiltin(f.Bi, args, call)
	}
	return c.CallFn(f.Fn, args, f.Env)
}

// ---------------------------------------------------------------------------
// Type assertions

type implKey struct {
	t  types.Type
	it *types.Interface
}

var implCache sync.Map // go/types method lookup takes a per-type mutex: cache the answers

func (c *Ctx) implements(t types.Type, it *types.Interface) bool {
	if t == runtimeErrorType {
		return it.NumMethods() == 0 || (it.NumMethods() == 1 && it.Method(0).Name() == "Error")
	}
	k := implKey{t, it}
	if v, ok := implCache.Load(k); ok {
		return v.(bool)
	}
	r := types.Implements(t, it)
	implCache.Store(k, r)
	return r
}

func (c *Ctx) typeAssert(in *ssa.TypeAssert, x Iface) Value {
	ok := false
	var res Value
	if it, isIface := in.AssertedType.Underlying().(*types.Interface); isIface {
		if x.T != nil && c.implements(x.T, it) {
			ok = true
			res = x
		}
	} else if x.T != nil && types.Identical(x.T, in.AssertedType) {
		ok = true
		res = x.V
	}
	if in.CommaOk {
		if !ok {
			res = c.zero(in.AssertedType)
		}
		return TupleVal{res, BoolConst(ok)}
	}
	if !ok {
		ts := "nil"
		if x.T != nil {
			ts = x.T.String()
		}
		c.goPanic("assert", fmt.Sprintf("interface conversion: %s is not %s", ts, in.AssertedType))
	}
	return res
}

// ---------------------------------------------------------------------------
// Indexing / slicing

func (c *Ctx) idxEq(i *Term, k int) *Term {
	if c.IntMode {
		return Eq(i, IntConst64(int64(k)))
	}
	return Eq(i, BVConst64(int64(k), i.S.W))
}

func (c *Ctx) idxCmp(i *Term, n int) (inRange *Term) {
	if c.IntMode {
		return And(ILe(IntConst64(0), i), ILt(i, IntConst64(int64(n))))
	}
	// unsigned compare covers negative values too
	return BVUlt(i, BVConst64(int64(n), i.S.W))
}

// concreteIndex resolves an index term against a length, forking on panic and on value.
func (c *Ctx) concreteIndex(i *Term, n int, what string) int {
	if v, ok := c.constInt(i, true); ok {
		if v < 0 || v >= int64(n) {
			c.goPanic("index", fmt.Sprintf("index out of range [%d] with length %d", v, n))
		}
		return int(v)
	}
	c.panicUnless(c.idxCmp(i, n), "index", fmt.Sprintf("index out of range [sym] with length %d", n))
	return int(c.concretize(i, true, 0, int64(n-1), what))
}

func (c *Ctx) indexAddr(fr *frame, in *ssa.IndexAddr) Value {
	x := c.get(fr, in.X)
	i := c.toInt64Term(c.get(fr, in.Index).(*Term), in.Index.Type())
	scalarElems := func(arr *ArrayVal, off, n int) bool {
		if n == 0 {
			return false
		}
		t0, ok := arr.E[off].(*Term)
		if !ok {
			return false
		}
		for k := 1; k < n; k++ {
			t, ok := arr.E[off+k].(*Term)
			if !ok || t.S != t0.S {
				return false
			}
		}
		return true
	}
	switch x := x.(type) {
	case SliceVal:
		if !i.IsConst() && x.Len > 1 {
			if arr, ok := x.Base.load().(*ArrayVal); ok && scalarElems(arr, x.Off, x.Len) {
				c.panicUnless(c.idxCmp(i, x.Len), "index", fmt.Sprintf("index out of range [sym] with length %d", x.Len))
				return SymPtr{Base: x.Base, Off: x.Off, N: x.Len, Idx: i}
			}
		}
		k := c.concreteIndex(i, x.Len, "slice index")
		return x.elemPtr(k)
	case Ptr: // *array
		if x.IsNil() {
			c.goPanic("nil", "nil pointer dereference (index)")
		}
		arr := x.load().(*ArrayVal)
		n := len(arr.E)
		if !i.IsConst() && n > 1 && scalarElems(arr, 0, n) {
			c.panicUnless(c.idxCmp(i, n), "index", fmt.Sprintf("index out of range [sym] with length %d", n))
			return SymPtr{Base: x, Off: 0, N: n, Idx: i}
		}
		k := c.concreteIndex(i, n, "array index")
		return x.sub(k)
	}
	c.unsupported("IndexAddr on %T", x)
	return nil
}

// toInt64Term widens any integer term to a 64-bit signed index term.
func (c *Ctx) toInt64Term(t *Term, typ types.Type) *Term {
	if c.IntMode {
		return t
	}
	_, s, _ := intInfo(typ)
	if t.S.W == 64 {
		return t // unsigned 64 indices >= 2^63 appear negative → out of range anyway
	}
	return Resize(t, 64, s)
}

// selectElem builds an ite-chain over scalar elements, or forks.
func (c *Ctx) selectElem(elems []Value, i *Term, what string) Value {
	n := len(elems)
	if v, ok := c.constInt(i, true); ok {
		if v < 0 || v >= int64(n) {
			c.goPanic("index", fmt.Sprintf("index out of range [%d] with length %d", v, n))
		}
		return elems[v]
	}
	c.panicUnless(c.idxCmp(i, n), "index", fmt.Sprintf("index out of range [sym] with length %d", n))
	allScalar := n > 0
	for _, e := range elems {
		if t, ok := e.(*Term); !ok || t.S != elems[0].(*Term).S {
			allScalar = false
			break
		}
	}
	if allScalar && n <= 4096 {
		r := elems[n-1].(*Term)
		for k := n - 2; k >= 0; k-- {
			var eq *Term
			if c.IntMode {
				eq = Eq(i, IntConst64(int64(k)))
			} else {
				eq = Eq(i, BVConst64(int64(k), i.S.W))
			}
			r = Ite(eq, elems[k].(*Term), r)
		}
		return r
	}
	k := c.concretize(i, true, 0, int64(n-1), what)
	return elems[k]
}

func (c *Ctx) index(fr *frame, in *ssa.Index) Value {
	x := c.get(fr, in.X)
	i := c.toInt64Term(c.get(fr, in.Index).(*Term), in.Index.Type())
	switch x := x.(type) {
	case *StrVal:
		if v, ok := c.constInt(i, true); ok && v >= 0 && v < int64(len(x.B)) {
			return x.B[v]
		}
		elems := make([]Value, len(x.B))
		for k, b := range x.B {
			elems[k] = b
		}
		return c.selectElem(elems, i, "string index")
	case *ArrayVal:
		return c.selectElem(x.E, i, "array index")
	}
	c.unsupported("Index on %T", x)
	return nil
}

func (c *Ctx) sliceBound(fr *frame, v ssa.Value, def int, max int, what string) int {
	if v == nil {
		return def
	}
	t := c.toInt64Term(c.get(fr, v).(*Term), v.Type())
	if k, ok := c.constInt(t, true); ok {
		if k < 0 || k > int64(max) {
			return -1
		}
		return int(k)
	}
	var inr *Term
	if c.IntMode {
		inr = And(ILe(IntConst64(0), t), ILe(t, IntConst64(int64(max))))
	} else {
		inr = BVUle(t, BVConst64(int64(max), 64))
	}
	if !c.decide(inr) {
		return -1
	}
	return int(c.concretize(t, true, 0, int64(max), what))
}

func (c *Ctx) sliceOp(fr *frame, in *ssa.Slice) Value {
	x := c.get(fr, in.X)
	switch x := x.(type) {
	case *StrVal:
		n := len(x.B)
		hi := c.sliceBound(fr, in.High, n, n, "string slice high")
		if hi < 0 {
			c.goPanic("slice", fmt.Sprintf("slice bounds out of range [:?] with length %d", n))
		}
		lo := c.sliceBound(fr, in.Low, 0, hi, "string slice low")
		if lo < 0 {
			c.goPanic("slice", fmt.Sprintf("slice bounds out of range [?:%d]", hi))
		}
		return &StrVal{B: x.B[lo:hi]}
	case SliceVal:
		mx := c.sliceBound(fr, in.Max, x.Cap, x.Cap, "slice max")
		if mx < 0 {
			c.goPanic("slice", "slice bounds out of range (max)")
		}
		hi := c.sliceBound(fr, in.High, x.Len, mx, "slice high")
		if hi < 0 {
			c.goPanic("slice", fmt.Sprintf("slice bounds out of range [:?] with capacity %d", mx))
		}
		lo := c.sliceBound(fr, in.Low, 0, hi, "slice low")
		if lo < 0 {
			c.goPanic("slice", fmt.Sprintf("slice bounds out of range [?:%d]", hi))
		}
		if x.Nil {
			return x
		}
		return SliceVal{Base: x.Base, Off: x.Off + lo, Len: hi - lo, Cap: mx - lo}
	case Ptr: // *array
		if x.IsNil() {
			c.goPanic("nil", "nil pointer dereference (slice)")
		}
		n := len(x.load().(*ArrayVal).E)
		mx := c.sliceBound(fr, in.Max, n, n, "slice max")
		if mx < 0 {
			c.goPanic("slice", "slice bounds out of range (max)")
		}
		hi := c.sliceBound(fr, in.High, n, mx, "slice high")
		if hi < 0 {
			c.goPanic("slice", "slice bounds out of range (high)")
		}
		lo := c.sliceBound(fr, in.Low, 0, hi, "slice low")
		if lo < 0 {
			c.goPanic("slice", "slice bounds out of range (low)")
		}
		return SliceVal{Base: x, Off: lo, Len: hi - lo, Cap: mx - lo}
	}
	c.unsupported("Slice on %T", x)
	return nil
}

// ---------------------------------------------------------------------------
// Equality of values (Go ==). Returns a Bool term. May raise a Go panic
// for uncomparable dynamic types.

func (c *Ctx) equal(t types.Type, a, b Value) *Term {
	switch x := a.(type) {
	case *Term:
		y := b.(*Term)
		if x.S.K == KFP {
			return FPEq(x, y)
		}
		return Eq(x, y)
	case *StrVal:
		y := b.(*StrVal)
		if len(x.B) != len(y.B) {
			return False
		}
		var cs []*Term
		for i := range x.B {
			cs = append(cs, Eq(x.B[i], y.B[i]))
		}
		return And(cs...)
	case Ptr:
		switch y := b.(type) {
		case Ptr:
			return BoolConst(ptrEq(x, y))
		}
		return False
	case Iface:
		y, ok := b.(Iface)
		if !ok {
			// comparison of interface with concrete (shouldn't happen in SSA)
			c.unsupported("iface == %T", b)
		}
		if x.T == nil || y.T == nil {
			return BoolConst(x.T == nil && y.T == nil)
		}
		if !types.Identical(x.T, y.T) {
			return False
		}
		if !types.Comparable(x.T) {
			c.goPanic("uncomparable", "runtime error: comparing uncomparable type "+x.T.String())
		}
		return c.equal(x.T, x.V, y.V)
	case *StructVal:
		y := b.(*StructVal)
		var cs []*Term
		var st *types.Struct
		if t != nil {
			st, _ = t.Underlying().(*types.Struct)
		}
		for i := range x.F {
			var ft types.Type
			if st != nil {
				ft = st.Field(i).Type()
			}
			cs = append(cs, c.equal(ft, x.F[i], y.F[i]))
		}
		return And(cs...)
	case *ArrayVal:
		y := b.(*ArrayVal)
		var cs []*Term
		var et types.Type
		if t != nil {
			if at, ok := t.Underlying().(*types.Array); ok {
				et = at.Elem()
			}
		}
		for i := range x.E {
			cs = append(cs, c.equal(et, x.E[i], y.E[i]))
		}
		return And(cs...)
	case *MapVal:
		y, _ := b.(*MapVal)
		return BoolConst(x == y) // only nil comparisons are legal
	case *FuncVal:
		y, _ := b.(*FuncVal)
		return BoolConst((x == nil) == (y == nil) && (x == nil || x == y))
	case SliceVal:
		y := b.(SliceVal)
		return BoolConst(x.Nil == y.Nil && (x.Nil || (ptrEq(x.Base, y.Base) && x.Off == y.Off && x.Len == y.Len)))
	case *ChanVal:
		y, _ := b.(*ChanVal)
		return BoolConst(x == y)
	case *BigVal:
		return Eq(x.T, b.(*BigVal).T)
	case *OpaqueVal:
		y, _ := b.(*OpaqueVal)
		return BoolConst(x == y)
	case nil:
		return BoolConst(b == nil)
	}
	c.unsupported("equality on %T", a)
	return nil
}

// ---------------------------------------------------------------------------
// Maps

func (c *Ctx) mapFind(m *MapVal, key Value) int {
	if m == nil {
		return -1
	}
	for i, k := range m.Keys {
		eq := c.equal(nil, k, key)
		if c.decide(eq) {
			return i
		}
	}
	return -1
}

func (c *Ctx) mapSet(m *MapVal, key, val Value) {
	if ik, ok := key.(Iface); ok && ik.T != nil && !types.Comparable(ik.T) {
		c.goPanic("unhashable", "runtime error: hash of unhashable type "+ik.T.String())
	}
	if i := c.mapFind(m, key); i >= 0 {
		m.Vals[i] = val
		return
	}
	m.Keys = append(m.Keys, key)
	m.Vals = append(m.Vals, val)
}

func (c *Ctx) mapDelete(m *MapVal, key Value) {
	if i := c.mapFind(m, key); i >= 0 {
		m.Keys = append(append([]Value{}, m.Keys[:i]...), m.Keys[i+1:]...)
		m.Vals = append(append([]Value{}, m.Vals[:i]...), m.Vals[i+1:]...)
	}
}

func (c *Ctx) lookup(fr *frame, in *ssa.Lookup) Value {
	x := c.get(fr, in.X)
	switch x := x.(type) {
	case *StrVal:
		i := c.toInt64Term(c.get(fr, in.Index).(*Term), in.Index.Type())
		if v, ok := c.constInt(i, true); ok && v >= 0 && v < int64(len(x.B)) {
			return x.B[v]
		}
		elems := make([]Value, len(x.B))
		for k, b := range x.B {
			elems[k] = b
		}
		return c.selectElem(elems, i, "string index")
	case *MapVal:
		key := c.get(fr, in.Index)
		if ik, ok := key.(Iface); ok && ik.T != nil && !types.Comparable(ik.T) {
			c.goPanic("unhashable", "runtime error: hash of unhashable type "+ik.T.String())
		}
		vt := in.X.Type().Underlying().(*types.Map).Elem()
		i := c.mapFind(x, key)
		var v Value
		if i >= 0 {
			v = copyVal(x.Vals[i])
		} else {
			v = c.zero(vt)
		}
		if in.CommaOk {
			return TupleVal{v, BoolConst(i >= 0)}
		}
		return v
	}
	c.unsupported("Lookup on %T", x)
	return nil
}

// ---------------------------------------------------------------------------
// Range iteration

type iterState struct {
	kind string
	str  *StrVal
	m    *MapVal
	keys []Value
	vals []Value
	pos  int
}

func (c *Ctx) rangeIter(x Value, t types.Type) Value {
	switch x := x.(type) {
	case *StrVal:
		return &iterState{kind: "string", str: x}
	case *MapVal:
		it := &iterState{kind: "map", m: x}
		if x != nil {
			it.keys = append([]Value{}, x.Keys...)
			it.vals = append([]Value{}, x.Vals...)
			if !c.Ex.MapOrder && c.mapPolicy != 0 && len(it.keys) > 1 {
				n := len(it.keys)
				switch c.mapPolicy {
				case 1: // reverse
					for i, j := 0, n-1; i < j; i, j = i+1, j-1 {
						it.keys[i], it.keys[j] = it.keys[j], it.keys[i]
						it.vals[i], it.vals[j] = it.vals[j], it.vals[i]
					}
				case 2: // rotate by one
					k0, v0 := it.keys[0], it.vals[0]
					copy(it.keys, it.keys[1:])
					copy(it.vals, it.vals[1:])
					it.keys[n-1], it.vals[n-1] = k0, v0
				case 3: // swap the first two
					it.keys[0], it.keys[1] = it.keys[1], it.keys[0]
					it.vals[0], it.vals[1] = it.vals[1], it.vals[0]
				case 4: // rotate by two
					for r := 0; r < 2; r++ {
						k0, v0 := it.keys[0], it.vals[0]
						copy(it.keys, it.keys[1:])
						copy(it.vals, it.vals[1:])
						it.keys[n-1], it.vals[n-1] = k0, v0
					}
				}
			}
			if c.Ex.MapOrder && len(it.keys) > 1 {
				// nondeterministic iteration order: choose a permutation by successive picks
				n := len(it.keys)
				for i := 0; i < n-1; i++ {
					j := i + c.choose(n-i, nil)
					it.keys[i], it.keys[j] = it.keys[j], it.keys[i]
					it.vals[i], it.vals[j] = it.vals[j], it.vals[i]
				}
			}
		}
		return it
	}
	c.unsupported("range over %T", x)
	return nil
}

func (it *iterState) next(c *Ctx, in *ssa.Next) Value {
	if it.kind == "string" {
		if it.pos >= len(it.str.B) {
			return TupleVal{False, c.goInt(0), c.mkInt64(0, 32, true)}
		}
		r, n := c.decodeRune(it.str.B[it.pos:])
		i := it.pos
		it.pos += n
		return TupleVal{True, c.goInt(int64(i)), r}
	}
	mt := in.Iter.(*ssa.Range).X.Type().Underlying().(*types.Map)
	for it.pos < len(it.keys) {
		k := it.keys[it.pos]
		it.pos++
		// skip entries deleted during iteration (by identity of key slot)
		live := false
		var v Value
		for j, kk := range it.m.Keys {
			if sameKeySlot(kk, k) {
				live = true
				v = it.m.Vals[j]
				break
			}
		}
		if live {
			return TupleVal{True, k, copyVal(v)}
		}
	}
	return TupleVal{False, c.zero(mt.Key()), c.zero(mt.Elem())}
}

func sameKeySlot(a, b Value) bool {
	switch x := a.(type) {
	case *StrVal:
		y, ok := b.(*StrVal)
		if !ok || len(x.B) != len(y.B) {
			return false
		}
		for i := range x.B {
			if x.B[i] != y.B[i] && !(x.B[i].IsConst() && y.B[i].IsConst() && constEq(x.B[i], y.B[i])) {
				return false
			}
		}
		return true
	case *Term:
		y, ok := b.(*Term)
		return ok && (x == y || (x.IsConst() && y.IsConst() && x.S == y.S && constEq(x, y)))
	case Iface:
		y, ok := b.(Iface)
		if !ok || (x.T == nil) != (y.T == nil) {
			return false
		}
		if x.T == nil {
			return true
		}
		return types.Identical(x.T, y.T) && sameKeySlot(x.V, y.V)
	case Ptr:
		y, ok := b.(Ptr)
		return ok && ptrEq(x, y)
	case *StructVal:
		y, ok := b.(*StructVal)
		if !ok || len(x.F) != len(y.F) {
			return false
		}
		for i := range x.F {
			if !sameKeySlot(x.F[i], y.F[i]) {
				return false
			}
		}
		return true
	case *ArrayVal:
		y, ok := b.(*ArrayVal)
		if !ok || len(x.E) != len(y.E) {
			return false
		}
		for i := range x.E {
			if !sameKeySlot(x.E[i], y.E[i]) {
				return false
			}
		}
		return true
	case *BigVal:
		y, ok := b.(*BigVal)
		return ok && sameKeySlot(x.T, y.T)
	case *OpaqueVal:
		y, ok := b.(*OpaqueVal)
		return ok && x == y
	case *ChanVal:
		y, ok := b.(*ChanVal)
		return ok && x == y
	}
	return false
}
