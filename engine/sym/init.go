package sym

import (
	"path/filepath"
	"strconv"
	"strings"
	"sync"

	"golang.org/x/tools/go/ssa"
)

// Lazy initialisation of package-level variables.
//
// go/ssa compiles all package-level initialisers into the synthetic function
// <pkg>.init, in dependency order. We cut that function into segments, one per
// global, where a segment is the run of instructions ending in the last store
// whose address is rooted at that global. Reading a global for the first time
// executes only its segment (recursively triggering the segments of globals it
// reads). Explicit `func init()` bodies (init#N) are not run unless requested.

type segment struct {
	startBlock *ssa.BasicBlock
	startIdx   int
	end        ssa.Instruction
}

type pkgInit struct {
	fn     *ssa.Function
	segOf  map[*ssa.Global]*segment
	defSeg map[ssa.Value]*segment
}

var (
	pkgInitMu    sync.Mutex
	pkgInitCache = map[*ssa.Package]*pkgInit{}
)

func rootGlobal(v ssa.Value) *ssa.Global {
	for {
		switch x := v.(type) {
		case *ssa.Global:
			return x
		case *ssa.FieldAddr:
			v = x.X
		case *ssa.IndexAddr:
			v = x.X
		default:
			return nil
		}
	}
}

var pkgInitFast sync.Map

func initInfo(p *ssa.Package) *pkgInit {
	if pi, ok := pkgInitFast.Load(p); ok {
		return pi.(*pkgInit)
	}
	pi := initInfo1(p)
	pkgInitFast.Store(p, pi)
	return pi
}

func initInfo1(p *ssa.Package) *pkgInit {
	pkgInitMu.Lock()
	defer pkgInitMu.Unlock()
	if pi, ok := pkgInitCache[p]; ok {
		return pi
	}
	pi := &pkgInit{segOf: map[*ssa.Global]*segment{}, defSeg: map[ssa.Value]*segment{}}
	pkgInitCache[p] = pi
	fn := p.Func("init")
	pi.fn = fn
	if fn == nil || fn.Blocks == nil {
		return pi
	}
	type pos struct {
		b *ssa.BasicBlock
		i int
	}
	var flat []pos
	for _, b := range fn.Blocks {
		for i := range b.Instrs {
			flat = append(flat, pos{b, i})
		}
	}
	start := 0
	var cur *ssa.Global
	lastStore := -1
	closeSeg := func() {
		if cur == nil {
			return
		}
		if _, dup := pi.segOf[cur]; !dup {
			seg := &segment{startBlock: flat[start].b, startIdx: flat[start].i, end: flat[lastStore].b.Instrs[flat[lastStore].i]}
			pi.segOf[cur] = seg
			for k := start; k <= lastStore; k++ {
				if v, ok := flat[k].b.Instrs[flat[k].i].(ssa.Value); ok {
					pi.defSeg[v] = seg
				}
			}
		}
		start = lastStore + 1
		cur = nil
	}
	for k, p := range flat {
		in := p.b.Instrs[p.i]
		switch x := in.(type) {
		case *ssa.Store:
			g := rootGlobal(x.Addr)
			if g == nil {
				continue
			}
			if g.Name() == "init$guard" {
				closeSeg()
				start = k + 1
				continue
			}
			if cur != nil && g != cur {
				closeSeg()
			}
			cur = g
			lastStore = k
		case *ssa.Call:
			if f, ok := x.Call.Value.(*ssa.Function); ok && len(x.Call.Args) == 0 &&
				(f.Name() == "init" || (len(f.Name()) > 5 && f.Name()[:5] == "init#")) && f.Signature.Recv() == nil {
				closeSeg()
				start = k + 1
			}
		case *ssa.If, *ssa.Jump, *ssa.Return:
			if cur == nil && start == k {
				start = k + 1
			}
		}
	}
	closeSeg()
	return pi
}

func (c *Ctx) initFrame(p *ssa.Package, pi *pkgInit) *frame {
	if fr, ok := c.initFr[p]; ok {
		return fr
	}
	info := infoOf(pi.fn)
	fr := &frame{fn: pi.fn, info: info, envMap: map[int]Value{}, isInit: true}
	c.initFr[p] = fr
	return fr
}

func (c *Ctx) initGlobal(g *ssa.Global, cell *Cell) {
	if g.Pkg == nil {
		return
	}
	pi := initInfo(g.Pkg)
	seg := pi.segOf[g]
	if seg == nil {
		return // zero value
	}
	if c.initing[g] {
		return
	}
	c.initing[g] = true
	c.runSegment(g.Pkg, pi, seg)
}

func (c *Ctx) runSegment(p *ssa.Package, pi *pkgInit, seg *segment) {
	fr := c.initFrame(p, pi)
	saved := c.curFrame
	savedBlock, savedPrev := fr.block, fr.prev
	c.curFrame = fr
	defer func() { c.curFrame = saved; fr.block, fr.prev = savedBlock, savedPrev }()
	b := seg.startBlock
	i := seg.startIdx
	fr.block = b
	for {
		if i >= len(b.Instrs) {
			c.unsupported("init segment ran off block")
		}
		in := b.Instrs[i]
		c.steps++
		if c.steps > c.Ex.MaxSteps {
			c.abort("budget", "step budget exceeded in init")
		}
		if StepProfile != nil {
			StepProfile["<init> "+p.Pkg.Path()]++
		}
		k := c.visit(fr, in)
		if in == seg.end {
			return
		}
		switch k {
		case kJump:
			b = fr.block
			i = 0
		case kReturn:
			c.unsupported("init segment returned")
		default:
			i++
		}
	}
}

// initNeed is called when an init-frame register is read before its segment ran.
func (c *Ctx) initNeed(fr *frame, v ssa.Value) {
	pi := initInfo(fr.fn.Pkg)
	seg := pi.defSeg[v]
	if seg == nil {
		c.unsupported("init value %s has no segment", v.Name())
	}
	c.runSegment(fr.fn.Pkg, pi, seg)
}

// RunInitFunc runs an explicit init body such as "init#1" of a package.
func (c *Ctx) RunInitFunc(p *ssa.Package, name string) {
	// "init@file.go:2" selects the 2nd explicit init function of that file
	if strings.HasPrefix(name, "init@") {
		spec := name[len("init@"):]
		file, nth := spec, 1
		if i := strings.LastIndex(spec, ":"); i >= 0 {
			file = spec[:i]
			nth, _ = strconv.Atoi(spec[i+1:])
		}
		var cands []*ssa.Function
		for k := 1; ; k++ {
			f := p.Func("init#" + strconv.Itoa(k))
			if f == nil {
				break
			}
			pos := c.Prog.Fset.Position(f.Pos())
			if filepath.Base(pos.Filename) == file {
				cands = append(cands, f)
			}
		}
		if nth < 1 || nth > len(cands) {
			c.unsupported("no init function %s in %s", name, p.Pkg.Path())
		}
		c.CallFn(cands[nth-1], nil, nil)
		return
	}
	f := p.Func(name)
	if f == nil {
		c.unsupported("no init function %s in %s", name, p.Pkg.Path())
	}
	c.CallFn(f, nil, nil)
}
