package sym

import (
	"os"
	"path/filepath"
	"bufio"
	"crypto/sha1"
	"fmt"
	"io"
	"math"
	"math/big"
	"os/exec"
	"strconv"
	"strings"
	"sync"
	"time"
)

type Result int

const (
	Unsat Result = iota
	Sat
	Unknown
)

func (r Result) String() string { return [...]string{"unsat", "sat", "unknown"}[r] }

// proc is one long-lived solver process driven over stdin/stdout.
type proc struct {
	name  string
	args  []string
	cmd   *exec.Cmd
	in    io.WriteCloser
	out   *bufio.Reader
	lines chan string
	dead  bool

	// incremental session state
	inc      bool
	stack    []string       // keys of asserted PC conjuncts, one push level each
	defs     map[string]int // defined symbol (by term key or var name) -> level
	names    map[string]string
	nameN    int
	declared map[string]int
}

func (p *proc) start() error {
	p.cmd = exec.Command(p.args[0], p.args[1:]...)
	var err error
	if p.in, err = p.cmd.StdinPipe(); err != nil {
		return err
	}
	so, err := p.cmd.StdoutPipe()
	if err != nil {
		return err
	}
	p.cmd.Stderr = p.cmd.Stdout
	if err = p.cmd.Start(); err != nil {
		return err
	}
	p.lines = make(chan string, 1024)
	p.dead = false
	p.inc = false
	p.stack = nil
	p.defs = map[string]int{}
	p.names = map[string]string{}
	p.declared = map[string]int{}
	rd := bufio.NewReaderSize(so, 1<<20)
	ch := p.lines
	go func() {
		for {
			l, err := rd.ReadString('\n')
			if l != "" {
				ch <- strings.TrimRight(l, "\n")
			}
			if err != nil {
				close(ch)
				return
			}
		}
	}()
	return nil
}

func (p *proc) kill() {
	if p.cmd != nil && p.cmd.Process != nil {
		p.cmd.Process.Kill()
		p.cmd.Wait()
	}
	p.dead = true
}

// readUntil reads lines until one equals marker, or timeout.
func (p *proc) readUntil(marker string, d time.Duration) ([]string, bool) {
	var out []string
	t := time.NewTimer(d)
	defer t.Stop()
	for {
		select {
		case l, ok := <-p.lines:
			if !ok {
				p.dead = true
				return out, false
			}
			if strings.Trim(l, "\"") == marker {
				return out, true
			}
			out = append(out, l)
		case <-t.C:
			return out, false
		}
	}
}

// Solver dispatches queries to a primary and a secondary SMT solver.
type Solver struct {
	procs    []*proc
	Timeout  time.Duration
	Both     bool // run every query on both solvers and compare
	NoInc    bool // disable the incremental session
	mu       sync.Mutex
	Stats    SolverStats
	cache    map[string]cacheEnt
	Disagree []string
}

type cacheEnt struct {
	r Result
	m Model
}

type SolverStats struct {
	Queries, Unsat, Sat, Unknown, CacheHits, Errors, IncFallbacks int
	Time                                                          time.Duration
	BySolver                                                      map[string]int
}

// NewSolver: order is e.g. ["z3","cvc5"] (first = primary).
func NewSolver(order []string, timeout time.Duration) *Solver {
	s := &Solver{Timeout: timeout, cache: map[string]cacheEnt{}}
	s.Stats.BySolver = map[string]int{}
	for _, n := range order {
		switch n {
		case "z3":
			s.procs = append(s.procs, &proc{name: "z3", args: []string{"z3-new", "-in"}})
		case "z3old":
			s.procs = append(s.procs, &proc{name: "z3old", args: []string{"/usr/bin/z3", "-in"}})
		case "cvc5":
			s.procs = append(s.procs, &proc{name: "cvc5", args: []string{"cvc5", "--incremental", "--produce-models", "--lang=smt2", "--fp-exp"}})
		}
	}
	return s
}

func (s *Solver) Close() {
	for _, p := range s.procs {
		if p.cmd != nil {
			p.kill()
		}
	}
}

func (s *Solver) runOn(p *proc, asserts []*Term, wantModel bool) (Result, Model, string) {
	if p.cmd == nil || p.dead {
		if err := p.start(); err != nil {
			return Unknown, nil, "start: " + err.Error()
		}
	}
	text, vars := Render(asserts, p.name == "cvc5")
	// the process is reset and the query asserted at its base level: an incremental session that
	// lived in this process is gone (checkInc starts a fresh one)
	p.inc = false
	p.stack = nil
	var sb strings.Builder
	ms := int(s.Timeout / time.Millisecond)
	if p.name == "cvc5" {
		sb.WriteString("(reset)\n(set-option :produce-models true)\n(set-logic ALL)\n")
		fmt.Fprintf(&sb, "(set-option :tlimit-per %d)\n", ms)
	} else {
		sb.WriteString("(reset)\n")
		fmt.Fprintf(&sb, "(set-option :timeout %d)\n", ms)
	}
	sb.WriteString(text)
	sb.WriteString("(check-sat)\n(echo \"!done\")\n")
	if _, err := io.WriteString(p.in, sb.String()); err != nil {
		p.kill()
		return Unknown, nil, "write: " + err.Error()
	}
	lines, ok := p.readUntil("!done", s.Timeout*2+5*time.Second)
	if !ok {
		p.kill()
		return Unknown, nil, "timeout/killed"
	}
	res := Unknown
	note := ""
	for _, l := range lines {
		l = strings.TrimSpace(l)
		switch {
		case l == "sat":
			res = Sat
		case l == "unsat":
			res = Unsat
		case l == "unknown":
			res = Unknown
		case strings.HasPrefix(l, "(error"):
			note = l
		}
	}
	if dumpDir != "" {
		fmt.Fprintf(os.Stderr, "TRACEQ runOn %s -> %v note=%q lines=%q\n", p.name, res, note, lines)
	}
	if note != "" {
		s.Stats.Errors++
		return Unknown, nil, note
	}
	if res != Sat || !wantModel {
		return res, nil, ""
	}
	// fetch model
	var names []string
	for n := range vars {
		names = append(names, n)
	}
	if len(names) == 0 {
		return Sat, Model{}, ""
	}
	io.WriteString(p.in, "(get-value ("+strings.Join(names, " ")+"))\n(echo \"!done\")\n")
	lines, ok = p.readUntil("!done", 20*time.Second)
	if !ok {
		p.kill()
		return Sat, nil, "model timeout"
	}
	m, err := parseModel(strings.Join(lines, " "), vars)
	if err != nil {
		return Sat, nil, "model parse: " + err.Error()
	}
	return Sat, m, ""
}

// Check decides satisfiability of the conjunction of asserts.
func (s *Solver) Check(asserts []*Term, wantModel bool) (Result, Model, string) {
	// trivial cases
	var as []*Term
	for _, a := range asserts {
		if a.IsFalse() {
			return Unsat, nil, ""
		}
		if !a.IsTrue() {
			as = append(as, a)
		}
	}
	if len(as) == 0 {
		return Sat, Model{}, ""
	}
	text, _ := Render(as, false)
	key := fmt.Sprintf("%x", sha1.Sum([]byte(text)))
	if e, ok := s.cache[key]; ok && (!wantModel || e.r != Sat || e.m != nil) {
		s.Stats.CacheHits++
		return e.r, e.m, ""
	}
	t0 := time.Now()
	s.Stats.Queries++
	res, model, note := Unknown, Model(nil), ""
	for i, p := range s.procs {
		r, m, n := s.runOn(p, as, wantModel)
		s.Stats.BySolver[p.name]++
		if i == 0 || res == Unknown {
			if r != Unknown {
				res, model, note = r, m, n
			} else if res == Unknown && note == "" {
				note = n
			}
		} else if s.Both && r != Unknown && r != res {
			s.Disagree = append(s.Disagree, fmt.Sprintf("%s says %v, earlier %v", p.name, r, res))
			res, model, note = Unknown, nil, "solver disagreement"
		}
		if res != Unknown && !s.Both {
			break
		}
	}
	s.Stats.Time += time.Since(t0)
	switch res {
	case Sat:
		s.Stats.Sat++
	case Unsat:
		s.Stats.Unsat++
	default:
		s.Stats.Unknown++
	}
	if res != Unknown {
		s.cache[key] = cacheEnt{res, model}
	}
	return res, model, note
}

// ---------------------------------------------------------------------------
// Model parsing: ((name value) (name value) ...)

type sexp struct {
	atom string
	list []*sexp
}

func parseSexp(s string, i int) (*sexp, int, error) {
	for i < len(s) && (s[i] == ' ' || s[i] == '\n' || s[i] == '\t' || s[i] == '\r') {
		i++
	}
	if i >= len(s) {
		return nil, i, fmt.Errorf("eof")
	}
	if s[i] == '(' {
		i++
		e := &sexp{list: []*sexp{}}
		for {
			for i < len(s) && (s[i] == ' ' || s[i] == '\n' || s[i] == '\t' || s[i] == '\r') {
				i++
			}
			if i >= len(s) {
				return nil, i, fmt.Errorf("eof in list")
			}
			if s[i] == ')' {
				return e, i + 1, nil
			}
			c, j, err := parseSexp(s, i)
			if err != nil {
				return nil, j, err
			}
			e.list = append(e.list, c)
			i = j
		}
	}
	j := i
	if s[i] == '|' {
		j = i + 1
		for j < len(s) && s[j] != '|' {
			j++
		}
		j++
	} else {
		for j < len(s) && s[j] != ' ' && s[j] != ')' && s[j] != '(' && s[j] != '\n' {
			j++
		}
	}
	return &sexp{atom: s[i:j]}, j, nil
}

func parseModel(s string, vars map[string]Sort) (Model, error) {
	e, _, err := parseSexp(s, 0)
	if err != nil {
		return nil, err
	}
	m := Model{}
	for _, p := range e.list {
		if len(p.list) != 2 || p.list[0].list != nil {
			continue
		}
		name := p.list[0].atom
		srt, ok := vars[name]
		if !ok {
			continue
		}
		v, err := parseValue(p.list[1], srt)
		if err != nil {
			return nil, fmt.Errorf("%s: %v", name, err)
		}
		m[name] = v
	}
	return m, nil
}

func parseBVLit(a string) (*big.Int, int, bool) {
	if strings.HasPrefix(a, "#x") {
		v, ok := new(big.Int).SetString(a[2:], 16)
		return v, 4 * (len(a) - 2), ok
	}
	if strings.HasPrefix(a, "#b") {
		v, ok := new(big.Int).SetString(a[2:], 2)
		return v, len(a) - 2, ok
	}
	return nil, 0, false
}

func parseValue(e *sexp, s Sort) (*Term, error) {
	switch s.K {
	case KBool:
		return BoolConst(e.atom == "true"), nil
	case KBV:
		if e.list == nil {
			if v, _, ok := parseBVLit(e.atom); ok {
				return BVConst(v, s.W), nil
			}
		} else if len(e.list) == 3 && e.list[0].atom == "_" && strings.HasPrefix(e.list[1].atom, "bv") {
			v, ok := new(big.Int).SetString(e.list[1].atom[2:], 10)
			if ok {
				return BVConst(v, s.W), nil
			}
		}
	case KInt:
		if e.list == nil {
			if v, ok := new(big.Int).SetString(e.atom, 10); ok {
				return IntConst(v), nil
			}
		} else if len(e.list) == 2 && e.list[0].atom == "-" {
			if v, ok := new(big.Int).SetString(e.list[1].atom, 10); ok {
				return IntConst(v.Neg(v)), nil
			}
		}
	case KFP:
		if e.list != nil && len(e.list) == 4 && e.list[0].atom == "fp" {
			sg, _, ok1 := parseBVLit(e.list[1].atom)
			ex, _, ok2 := parseBVLit(e.list[2].atom)
			mn, _, ok3 := parseBVLit(e.list[3].atom)
			if ok1 && ok2 && ok3 {
				bits := sg.Uint64()<<63 | ex.Uint64()<<52 | mn.Uint64()
				return FPConst(math.Float64frombits(bits)), nil
			}
		}
		if e.list != nil && len(e.list) == 4 && e.list[0].atom == "_" {
			switch e.list[1].atom {
			case "+zero":
				return FPConst(0), nil
			case "-zero":
				return FPConst(math.Copysign(0, -1)), nil
			case "+oo":
				return FPConst(math.Inf(1)), nil
			case "-oo":
				return FPConst(math.Inf(-1)), nil
			case "NaN":
				return FPConst(math.NaN()), nil
			}
		}
	}
	return nil, fmt.Errorf("cannot parse value %s for sort %s", sexpString(e), s.SMT())
}

func sexpString(e *sexp) string {
	if e.list == nil {
		return e.atom
	}
	var parts []string
	for _, c := range e.list {
		parts = append(parts, sexpString(c))
	}
	return "(" + strings.Join(parts, " ") + ")"
}

// ModelJSON renders a model as name -> string (decimal for ints, %v for floats).
func ModelJSON(m Model) map[string]string {
	out := map[string]string{}
	for k, v := range m {
		switch v.S.K {
		case KBool:
			out[k] = strconv.FormatBool(v.C.Sign() != 0)
		case KBV:
			out[k] = v.C.String() // unsigned
		case KInt:
			out[k] = v.C.String()
		case KFP:
			out[k] = "bits:" + strconv.FormatUint(math.Float64bits(v.F), 10)
		}
	}
	return out
}

// ---------------------------------------------------------------------------
// Incremental interface: the path condition is kept on the solver's assertion
// stack (one push level per conjunct, matched by structural key), so that the
// many queries along one path and along neighbouring paths share their prefix.

type incRenderer struct {
	p     *proc
	level int
	sb    *strings.Builder
	vars  map[string]Sort
}

func (r *incRenderer) ref(t *Term) string {
	switch t.Op {
	case "const":
		return constText(t)
	case "var":
		r.vars[t.Name] = t.S
		if _, ok := r.p.declared[t.Name]; !ok {
			r.p.declared[t.Name] = r.level
			fmt.Fprintf(r.sb, "(declare-const %s %s)\n", t.Name, t.S.SMT())
		}
		return t.Name
	}
	k := t.Key()
	if _, ok := r.p.defs[k]; ok {
		// still need the variables for get-value
		r.collectVars(t)
		return r.p.names[k]
	}
	var body string
	if t.Op == "raw" {
		for _, v := range t.Vars {
			r.ref(v)
		}
		body = t.Name
	} else {
		args := make([]string, len(t.Args))
		for i, a := range t.Args {
			args[i] = r.ref(a)
		}
		body = opText(t, args, r.p.name == "cvc5")
	}
	r.p.nameN++
	name := fmt.Sprintf("t!%d", r.p.nameN)
	fmt.Fprintf(r.sb, "(define-fun %s () %s %s)\n", name, t.S.SMT(), body)
	r.p.defs[k] = r.level
	r.p.names[k] = name
	return name
}

func (r *incRenderer) collectVars(t *Term) {
	seen := map[*Term]bool{}
	var walk func(x *Term)
	walk = func(x *Term) {
		if seen[x] {
			return
		}
		seen[x] = true
		if x.Op == "var" {
			r.vars[x.Name] = x.S
		}
		for _, a := range x.Args {
			walk(a)
		}
		for _, a := range x.Vars {
			walk(a)
		}
	}
	walk(t)
}

func (p *proc) purge(level int) {
	for k, l := range p.defs {
		if l > level {
			delete(p.defs, k)
			delete(p.names, k)
		}
	}
	for k, l := range p.declared {
		if l > level {
			delete(p.declared, k)
		}
	}
}

// checkInc runs PC ∧ extra on the incremental session of the primary solver.
// VERIF_DUMPSMT=<dir>: append everything sent to each incremental solver process to a file there (diagnostics)
var dumpDir = os.Getenv("VERIF_DUMPSMT")

func (s *Solver) checkInc(p *proc, pc []*Term, extra []*Term, wantModel bool) (Result, Model, string) {
	if p.cmd == nil || p.dead {
		if err := p.start(); err != nil {
			return Unknown, nil, "start: " + err.Error()
		}
	}
	var sb strings.Builder
	ms := int(s.Timeout / time.Millisecond)
	if !p.inc {
		if p.name == "cvc5" {
			sb.WriteString("(reset)\n(set-option :produce-models true)\n(set-logic ALL)\n")
			fmt.Fprintf(&sb, "(set-option :tlimit-per %d)\n", ms)
		} else {
			sb.WriteString("(reset)\n")
			fmt.Fprintf(&sb, "(set-option :timeout %d)\n", ms)
		}
		p.inc = true
		p.stack = nil
		p.defs = map[string]int{}
		p.names = map[string]string{}
		p.declared = map[string]int{}
	}
	// common prefix
	keys := make([]string, len(pc))
	for i, t := range pc {
		keys[i] = t.Key()
	}
	L := 0
	for L < len(p.stack) && L < len(keys) && p.stack[L] == keys[L] {
		L++
	}
	if k := len(p.stack) - L; k > 0 {
		fmt.Fprintf(&sb, "(pop %d)\n", k)
		p.stack = p.stack[:L]
		p.purge(L)
	}
	vars := map[string]Sort{}
	for i := L; i < len(pc); i++ {
		sb.WriteString("(push 1)\n")
		r := &incRenderer{p: p, level: i + 1, sb: &sb, vars: vars}
		n := r.ref(pc[i])
		fmt.Fprintf(&sb, "(assert %s)\n", n)
		p.stack = append(p.stack, keys[i])
	}
	// variables of the already asserted prefix are needed for models too
	if wantModel {
		r := &incRenderer{p: p, vars: vars}
		for i := 0; i < L; i++ {
			r.collectVars(pc[i])
		}
	}
	top := len(p.stack) + 1
	sb.WriteString("(push 1)\n")
	r := &incRenderer{p: p, level: top, sb: &sb, vars: vars}
	for _, e := range extra {
		n := r.ref(e)
		fmt.Fprintf(&sb, "(assert %s)\n", n)
	}
	sb.WriteString("(check-sat)\n(echo \"!done\")\n")
	fail := func(note string) (Result, Model, string) {
		p.kill()
		return Unknown, nil, note
	}
	if dumpDir != "" {
		if f, err := os.OpenFile(filepath.Join(dumpDir, fmt.Sprintf("session_%s_%p.smt2", p.name, p)), os.O_APPEND|os.O_CREATE|os.O_WRONLY, 0o644); err == nil {
			f.WriteString(sb.String())
			f.Close()
		}
	}
	if _, err := io.WriteString(p.in, sb.String()); err != nil {
		return fail("write: " + err.Error())
	}
	lines, ok := p.readUntil("!done", s.Timeout*2+5*time.Second)
	if !ok {
		return fail("timeout/killed")
	}
	res := Unknown
	note := ""
	for _, l := range lines {
		l = strings.TrimSpace(l)
		switch {
		case l == "sat":
			res = Sat
		case l == "unsat":
			res = Unsat
		case strings.HasPrefix(l, "(error"):
			note = l
		}
	}
	if note != "" {
		s.Stats.Errors++
		p.kill() // session state is unreliable after an error
		return Unknown, nil, note
	}
	var model Model
	if res == Sat && wantModel {
		var names []string
		for n := range vars {
			names = append(names, n)
		}
		if len(names) == 0 {
			model = Model{}
		} else {
			io.WriteString(p.in, "(get-value ("+strings.Join(names, " ")+"))\n(echo \"!done\")\n")
			lines, ok = p.readUntil("!done", 20*time.Second)
			if !ok {
				return fail("model timeout")
			}
			m, err := parseModel(strings.Join(lines, " "), vars)
			if err != nil {
				note = "model parse: " + err.Error()
			} else {
				model = m
			}
		}
	}
	io.WriteString(p.in, "(pop 1)\n")
	if dumpDir != "" {
		if f, err := os.OpenFile(filepath.Join(dumpDir, fmt.Sprintf("session_%s_%p.smt2", p.name, p)), os.O_APPEND|os.O_CREATE|os.O_WRONLY, 0o644); err == nil {
			f.WriteString("(pop 1)\n")
			f.Close()
		}
	}
	p.purge(top - 1)
	return res, model, note
}

// CheckPC decides PC ∧ extra, using the incremental session first and the
// stateless portfolio as fall-back.
func (s *Solver) CheckPC(pc []*Term, extra []*Term, wantModel bool) (Result, Model, string) {
	all := append(append([]*Term{}, pc...), extra...)
	var as []*Term
	for _, a := range all {
		if a.IsFalse() {
			return Unsat, nil, ""
		}
		if !a.IsTrue() {
			as = append(as, a)
		}
	}
	if len(as) == 0 {
		return Sat, Model{}, ""
	}
	if s.NoInc || len(s.procs) == 0 {
		return s.Check(all, wantModel)
	}
	var kb strings.Builder
	for _, a := range as {
		kb.WriteString(a.Key())
	}
	key := "k" + kb.String()
	if e, ok := s.cache[key]; ok && (!wantModel || e.r != Sat || e.m != nil) {
		s.Stats.CacheHits++
		return e.r, e.m, ""
	}
	var pcs []*Term
	for _, a := range pc {
		if !a.IsTrue() {
			pcs = append(pcs, a)
		}
	}
	var ex []*Term
	for _, a := range extra {
		if !a.IsTrue() {
			ex = append(ex, a)
		}
	}
	t0 := time.Now()
	r, m, note := s.checkInc(s.procs[0], pcs, ex, wantModel)
	s.Stats.BySolver[s.procs[0].name+"-inc"]++
	if r != Unknown && !(s.Both && len(s.procs) > 1) && (r != Sat || !wantModel || m != nil) {
		s.Stats.Queries++
		s.Stats.Time += time.Since(t0)
		if r == Sat {
			s.Stats.Sat++
		} else {
			s.Stats.Unsat++
		}
		s.cache[key] = cacheEnt{r, m}
		if dumpDir != "" {
			fmt.Fprintf(os.Stderr, "TRACEQ inc -> %v\n", r)
		}
		return r, m, note
	}
	s.Stats.Time += time.Since(t0)
	if r != Unknown && s.Both && len(s.procs) > 1 {
		// cross-check on the second solver (stateless)
		t1 := time.Now()
		r2, m2, _ := s.runOn(s.procs[1], as, wantModel && m == nil)
		s.Stats.BySolver[s.procs[1].name]++
		s.Stats.Queries++
		s.Stats.Time += time.Since(t1)
		if r2 != Unknown && r2 != r {
			s.Disagree = append(s.Disagree, fmt.Sprintf("%s-inc says %v, %s says %v", s.procs[0].name, r, s.procs[1].name, r2))
			s.Stats.Unknown++
			return Unknown, nil, "solver disagreement"
		}
		if m == nil {
			m = m2
		}
		if r == Sat {
			s.Stats.Sat++
		} else {
			s.Stats.Unsat++
		}
		s.cache[key] = cacheEnt{r, m}
		return r, m, note
	}
	s.Stats.IncFallbacks++
	rr, mm, nn := s.Check(all, wantModel)
	if dumpDir != "" {
		fmt.Fprintf(os.Stderr, "TRACEQ fallback after inc=%v note=%q -> %v note=%q\n", r, note, rr, nn)
	}
	return rr, mm, nn
}
