// Package sym is a symbolic executor for Go SSA (golang.org/x/tools/go/ssa)
// that renders path conditions and assertions into SMT-LIB2.
package sym

import (
	"crypto/sha1"
	"fmt"
	"math"
	"math/big"
	"sort"
	"strings"
)

// ---------------------------------------------------------------------------
// Sorts and terms

type Kind uint8

const (
	KBool Kind = iota
	KBV
	KInt
	KFP // float64 only
)

type Sort struct {
	K Kind
	W int
}

var (
	SBool = Sort{KBool, 0}
	SInt  = Sort{KInt, 0}
	SFP   = Sort{KFP, 64}
)

func SBV(w int) Sort { return Sort{KBV, w} }

func (s Sort) SMT() string {
	switch s.K {
	case KBool:
		return "Bool"
	case KBV:
		return fmt.Sprintf("(_ BitVec %d)", s.W)
	case KInt:
		return "Int"
	case KFP:
		return "(_ FloatingPoint 11 53)"
	}
	return "?"
}

// Term is an immutable SMT term. Sharing is by pointer.
type Term struct {
	S    Sort
	Op   string // "const", "var", "raw" or an SMT operator
	Args []*Term
	C    *big.Int // const: BV unsigned value, Int value, Bool 0/1
	F    float64  // const FP
	P    []int    // indexed-operator parameters
	Name string   // var name / raw text
	Vars []*Term  // raw: variables mentioned
	n    int      // node count estimate
	key  string   // structural hash (memoised)
}

// Key returns a structural hash of the term (equal structure => equal key).
func (t *Term) Key() string {
	if t.key != "" {
		return t.key
	}
	h := sha1.New()
	switch t.Op {
	case "const":
		fmt.Fprintf(h, "c|%d|%d|", t.S.K, t.S.W)
		if t.S.K == KFP {
			fmt.Fprintf(h, "%x", math.Float64bits(t.F))
		} else {
			h.Write(t.C.Bytes())
			fmt.Fprintf(h, "|%d", t.C.Sign())
		}
	case "var":
		fmt.Fprintf(h, "v|%s|%d|%d", t.Name, t.S.K, t.S.W)
	case "raw":
		fmt.Fprintf(h, "r|%s", t.Name)
	default:
		fmt.Fprintf(h, "o|%s|%s|%v|%d|%d", t.Op, t.Name, t.P, t.S.K, t.S.W)
		for _, a := range t.Args {
			h.Write([]byte(a.Key()))
		}
	}
	t.key = string(h.Sum(nil))
	return t.key
}

func (t *Term) IsConst() bool { return t.Op == "const" }

var (
	True  = &Term{S: SBool, Op: "const", C: big.NewInt(1)}
	False = &Term{S: SBool, Op: "const", C: big.NewInt(0)}
)

func BoolConst(b bool) *Term {
	if b {
		return True
	}
	return False
}

func (t *Term) IsTrue() bool  { return t.Op == "const" && t.S.K == KBool && t.C.Sign() != 0 }
func (t *Term) IsFalse() bool { return t.Op == "const" && t.S.K == KBool && t.C.Sign() == 0 }

func pow2(w int) *big.Int { return new(big.Int).Lsh(big.NewInt(1), uint(w)) }

func normBV(v *big.Int, w int) *big.Int {
	m := pow2(w)
	r := new(big.Int).Mod(v, m)
	if r.Sign() < 0 {
		r.Add(r, m)
	}
	return r
}

// BVConst makes a bit-vector constant from any integer (wrapped mod 2^w).
func BVConst(v *big.Int, w int) *Term {
	if w <= 64 && v.IsInt64() {
		return BVConst64(v.Int64(), w)
	}
	return &Term{S: SBV(w), Op: "const", C: normBV(v, w)}
}

const smallLo, smallHi = -256, 1280

var smallBV [65][]*Term // per width: constants smallLo..smallHi-1, built at init

func init() {
	for _, w := range []int{1, 8, 16, 32, 64} {
		tab := make([]*Term, smallHi-smallLo)
		for v := smallLo; v < smallHi; v++ {
			tab[v-smallLo] = &Term{S: SBV(w), Op: "const", C: normBV(big.NewInt(int64(v)), w)}
		}
		smallBV[w] = tab
	}
}

func BVConst64(v int64, w int) *Term {
	if w <= 64 && v >= smallLo && v < smallHi {
		if tab := smallBV[w]; tab != nil {
			if w < 64 {
				// values must be canonical: reduce modulo 2^w first for narrow widths
				m := int64(1) << uint(w)
				u := ((v % m) + m) % m
				if u < smallHi {
					return tab[u-smallLo]
				}
				if u-m >= smallLo {
					return tab[u-m-smallLo]
				}
			} else {
				return tab[v-smallLo]
			}
		}
	}
	return &Term{S: SBV(w), Op: "const", C: normBV(big.NewInt(v), w)}
}

// bvConstU makes a constant of width w <= 64 from the low w bits of u.
func bvConstU(u uint64, w int) *Term {
	if w < 64 {
		u &= (uint64(1) << uint(w)) - 1
		// sign-interpret for the cache lookup
		s := int64(u)
		if u>>(uint(w)-1) == 1 {
			s = int64(u) - (int64(1) << uint(w))
		}
		return BVConst64(s, w)
	}
	return BVConst64(int64(u), 64)
}

// u64 returns the value of a constant of width <= 64 as uint64 and int64.
func (t *Term) u64() (uint64, int64) {
	u := t.C.Uint64()
	w := t.S.W
	if w < 64 {
		if u>>(uint(w)-1) == 1 {
			return u, int64(u) - (int64(1) << uint(w))
		}
		return u, int64(u)
	}
	return u, int64(u)
}
func IntConst(v *big.Int) *Term { return &Term{S: SInt, Op: "const", C: new(big.Int).Set(v)} }
func IntConst64(v int64) *Term  { return IntConst(big.NewInt(v)) }
func FPConst(f float64) *Term   { return &Term{S: SFP, Op: "const", F: f} }

func Var(name string, s Sort) *Term { return &Term{S: s, Op: "var", Name: name} }

// Raw wraps SMT-LIB text of sort Bool that mentions the given variables.
func Raw(text string, vars []*Term) *Term {
	return &Term{S: SBool, Op: "raw", Name: text, Vars: vars}
}

// Signed value of a BV constant.
func (t *Term) SignedVal() *big.Int {
	if t.S.K != KBV {
		return t.C
	}
	if t.C.Bit(t.S.W-1) == 1 {
		return new(big.Int).Sub(t.C, pow2(t.S.W))
	}
	return t.C
}

func mk(s Sort, op string, args ...*Term) *Term {
	n := 1
	for _, a := range args {
		n += a.n
	}
	return &Term{S: s, Op: op, Args: args, n: n}
}

func mkP(s Sort, op string, p []int, args ...*Term) *Term {
	t := mk(s, op, args...)
	t.P = p
	return t
}

func allConst(ts ...*Term) bool {
	for _, t := range ts {
		if !t.IsConst() {
			return false
		}
	}
	return true
}

// ---------------------------------------------------------------------------
// Boolean

func Not(a *Term) *Term {
	if a.IsConst() {
		return BoolConst(a.C.Sign() == 0)
	}
	if a.Op == "not" {
		return a.Args[0]
	}
	return mk(SBool, "not", a)
}

func And(ts ...*Term) *Term {
	var out []*Term
	for _, t := range ts {
		if t.IsFalse() {
			return False
		}
		if t.IsTrue() {
			continue
		}
		out = append(out, t)
	}
	switch len(out) {
	case 0:
		return True
	case 1:
		return out[0]
	}
	return mk(SBool, "and", out...)
}

func Or(ts ...*Term) *Term {
	var out []*Term
	for _, t := range ts {
		if t.IsTrue() {
			return True
		}
		if t.IsFalse() {
			continue
		}
		out = append(out, t)
	}
	switch len(out) {
	case 0:
		return False
	case 1:
		return out[0]
	}
	return mk(SBool, "or", out...)
}

func Implies(a, b *Term) *Term { return Or(Not(a), b) }

func Ite(c, a, b *Term) *Term {
	if c.IsTrue() {
		return a
	}
	if c.IsFalse() {
		return b
	}
	if a == b {
		return a
	}
	if a.S != b.S {
		panic(fmt.Sprintf("ite sort mismatch %v %v", a.S, b.S))
	}
	if a.S.K == KBool {
		if a.IsTrue() && b.IsFalse() {
			return c
		}
		if a.IsFalse() && b.IsTrue() {
			return Not(c)
		}
	}
	if a.IsConst() && b.IsConst() && constEq(a, b) {
		return a
	}
	return mk(a.S, "ite", c, a, b)
}

func constEq(a, b *Term) bool {
	if a.S.K == KFP {
		return math.Float64bits(a.F) == math.Float64bits(b.F)
	}
	return a.C.Cmp(b.C) == 0
}

// Eq is SMT equality (for FP: IEEE fp.eq is FPEq; this is structural =).
func Eq(a, b *Term) *Term {
	if a.S != b.S {
		panic(fmt.Sprintf("eq sort mismatch %v %v (%s / %s)", a.S, b.S, a.Op, b.Op))
	}
	if a == b {
		return True
	}
	if a.IsConst() && b.IsConst() {
		return BoolConst(constEq(a, b))
	}
	if a.S.K == KBool {
		if a.IsConst() {
			a, b = b, a
		}
		if b.IsTrue() {
			return a
		}
		if b.IsFalse() {
			return Not(a)
		}
	}
	return mk(SBool, "=", a, b)
}

// ---------------------------------------------------------------------------
// Bit-vectors

func bvBin(op string, a, b *Term, f func(x, y *big.Int, w int) *big.Int) *Term {
	if a.S != b.S || a.S.K != KBV {
		panic(fmt.Sprintf("%s: sort mismatch %v %v", op, a.S, b.S))
	}
	if a.IsConst() && b.IsConst() && a.S.W <= 64 {
		// native fast path (no big.Int allocation)
		w := a.S.W
		xu, xs := a.u64()
		yu, ys := b.u64()
		switch op {
		case "bvadd":
			return bvConstU(xu+yu, w)
		case "bvsub":
			return bvConstU(xu-yu, w)
		case "bvmul":
			return bvConstU(xu*yu, w)
		case "bvand":
			return bvConstU(xu&yu, w)
		case "bvor":
			return bvConstU(xu|yu, w)
		case "bvxor":
			return bvConstU(xu^yu, w)
		case "bvshl":
			if yu >= uint64(w) {
				return bvConstU(0, w)
			}
			return bvConstU(xu<<yu, w)
		case "bvlshr":
			if yu >= uint64(w) {
				return bvConstU(0, w)
			}
			return bvConstU(xu>>yu, w)
		case "bvashr":
			if yu >= uint64(w) {
				if xs < 0 {
					return bvConstU(^uint64(0), w)
				}
				return bvConstU(0, w)
			}
			return bvConstU(uint64(xs>>yu), w)
		case "bvudiv":
			if yu != 0 {
				return bvConstU(xu/yu, w)
			}
		case "bvurem":
			if yu != 0 {
				return bvConstU(xu%yu, w)
			}
		case "bvsdiv":
			if ys != 0 && !(ys == -1 && xs == -1<<63) {
				return bvConstU(uint64(xs/ys), w)
			}
		case "bvsrem":
			if ys != 0 && !(ys == -1 && xs == -1<<63) {
				return bvConstU(uint64(xs%ys), w)
			}
		}
	}
	if a.IsConst() && b.IsConst() {
		if r := f(a.C, b.C, a.S.W); r != nil {
			return BVConst(r, a.S.W)
		}
	}
	return mk(a.S, op, a, b)
}

func isZero(t *Term) bool { return t.IsConst() && t.C.Sign() == 0 }

func toSigned(v *big.Int, w int) *big.Int {
	if v.Bit(w-1) == 1 {
		return new(big.Int).Sub(v, pow2(w))
	}
	return v
}

func BVAdd(a, b *Term) *Term {
	if isZero(a) {
		return b
	}
	if isZero(b) {
		return a
	}
	return bvBin("bvadd", a, b, func(x, y *big.Int, w int) *big.Int { return new(big.Int).Add(x, y) })
}
func BVSub(a, b *Term) *Term {
	if isZero(b) {
		return a
	}
	return bvBin("bvsub", a, b, func(x, y *big.Int, w int) *big.Int { return new(big.Int).Sub(x, y) })
}
func BVMul(a, b *Term) *Term {
	return bvBin("bvmul", a, b, func(x, y *big.Int, w int) *big.Int { return new(big.Int).Mul(x, y) })
}
func BVAnd(a, b *Term) *Term {
	return bvBin("bvand", a, b, func(x, y *big.Int, w int) *big.Int { return new(big.Int).And(x, y) })
}
func BVOr(a, b *Term) *Term {
	return bvBin("bvor", a, b, func(x, y *big.Int, w int) *big.Int { return new(big.Int).Or(x, y) })
}
func BVXor(a, b *Term) *Term {
	return bvBin("bvxor", a, b, func(x, y *big.Int, w int) *big.Int { return new(big.Int).Xor(x, y) })
}
func BVUDiv(a, b *Term) *Term {
	return bvBin("bvudiv", a, b, func(x, y *big.Int, w int) *big.Int {
		if y.Sign() == 0 {
			return nil
		}
		return new(big.Int).Quo(x, y)
	})
}
func BVURem(a, b *Term) *Term {
	return bvBin("bvurem", a, b, func(x, y *big.Int, w int) *big.Int {
		if y.Sign() == 0 {
			return nil
		}
		return new(big.Int).Rem(x, y)
	})
}
func BVSDiv(a, b *Term) *Term {
	return bvBin("bvsdiv", a, b, func(x, y *big.Int, w int) *big.Int {
		if y.Sign() == 0 {
			return nil
		}
		return new(big.Int).Quo(toSigned(x, w), toSigned(y, w))
	})
}
func BVSRem(a, b *Term) *Term {
	return bvBin("bvsrem", a, b, func(x, y *big.Int, w int) *big.Int {
		if y.Sign() == 0 {
			return nil
		}
		return new(big.Int).Rem(toSigned(x, w), toSigned(y, w))
	})
}
func BVShl(a, b *Term) *Term {
	return bvBin("bvshl", a, b, func(x, y *big.Int, w int) *big.Int {
		if y.Cmp(big.NewInt(int64(w))) >= 0 {
			return big.NewInt(0)
		}
		return new(big.Int).Lsh(x, uint(y.Int64()))
	})
}
func BVLshr(a, b *Term) *Term {
	return bvBin("bvlshr", a, b, func(x, y *big.Int, w int) *big.Int {
		if y.Cmp(big.NewInt(int64(w))) >= 0 {
			return big.NewInt(0)
		}
		return new(big.Int).Rsh(x, uint(y.Int64()))
	})
}
func BVAshr(a, b *Term) *Term {
	return bvBin("bvashr", a, b, func(x, y *big.Int, w int) *big.Int {
		s := toSigned(x, w)
		if y.Cmp(big.NewInt(int64(w))) >= 0 {
			if s.Sign() < 0 {
				return big.NewInt(-1)
			}
			return big.NewInt(0)
		}
		return new(big.Int).Rsh(s, uint(y.Int64()))
	})
}
func BVNot(a *Term) *Term {
	if a.IsConst() {
		return BVConst(new(big.Int).Not(a.C), a.S.W)
	}
	return mk(a.S, "bvnot", a)
}
func BVNeg(a *Term) *Term {
	if a.IsConst() {
		return BVConst(new(big.Int).Neg(a.C), a.S.W)
	}
	return mk(a.S, "bvneg", a)
}

func bvCmp(op string, a, b *Term, f func(x, y *big.Int, w int) bool) *Term {
	if a.S != b.S || a.S.K != KBV {
		panic(fmt.Sprintf("%s: sort mismatch %v %v", op, a.S, b.S))
	}
	if a.IsConst() && b.IsConst() && a.S.W <= 64 {
		xu, xs := a.u64()
		yu, ys := b.u64()
		switch op {
		case "bvult":
			return BoolConst(xu < yu)
		case "bvule":
			return BoolConst(xu <= yu)
		case "bvslt":
			return BoolConst(xs < ys)
		case "bvsle":
			return BoolConst(xs <= ys)
		}
	}
	if a.IsConst() && b.IsConst() {
		return BoolConst(f(a.C, b.C, a.S.W))
	}
	return mk(SBool, op, a, b)
}
func BVUlt(a, b *Term) *Term {
	return bvCmp("bvult", a, b, func(x, y *big.Int, w int) bool { return x.Cmp(y) < 0 })
}
func BVUle(a, b *Term) *Term {
	return bvCmp("bvule", a, b, func(x, y *big.Int, w int) bool { return x.Cmp(y) <= 0 })
}
func BVSlt(a, b *Term) *Term {
	return bvCmp("bvslt", a, b, func(x, y *big.Int, w int) bool { return toSigned(x, w).Cmp(toSigned(y, w)) < 0 })
}
func BVSle(a, b *Term) *Term {
	return bvCmp("bvsle", a, b, func(x, y *big.Int, w int) bool { return toSigned(x, w).Cmp(toSigned(y, w)) <= 0 })
}

func Extract(hi, lo int, a *Term) *Term {
	if lo == 0 && hi == a.S.W-1 {
		return a
	}
	if a.IsConst() && a.S.W <= 64 {
		u, _ := a.u64()
		return bvConstU(u>>uint(lo), hi-lo+1)
	}
	if a.IsConst() {
		v := new(big.Int).Rsh(a.C, uint(lo))
		return BVConst(v, hi-lo+1)
	}
	return mkP(SBV(hi-lo+1), "extract", []int{hi, lo}, a)
}
func ZeroExt(n int, a *Term) *Term {
	if n == 0 {
		return a
	}
	if a.IsConst() && a.S.W+n <= 64 {
		u, _ := a.u64()
		return bvConstU(u, a.S.W+n)
	}
	if a.IsConst() {
		return BVConst(a.C, a.S.W+n)
	}
	return mkP(SBV(a.S.W+n), "zero_extend", []int{n}, a)
}
func SignExt(n int, a *Term) *Term {
	if n == 0 {
		return a
	}
	if a.IsConst() && a.S.W+n <= 64 {
		_, sv := a.u64()
		return bvConstU(uint64(sv), a.S.W+n)
	}
	if a.IsConst() {
		return BVConst(toSigned(a.C, a.S.W), a.S.W+n)
	}
	return mkP(SBV(a.S.W+n), "sign_extend", []int{n}, a)
}
func Concat(a, b *Term) *Term {
	if a.IsConst() && b.IsConst() {
		v := new(big.Int).Lsh(a.C, uint(b.S.W))
		v.Or(v, b.C)
		return BVConst(v, a.S.W+b.S.W)
	}
	return mk(SBV(a.S.W+b.S.W), "concat", a, b)
}

// Resize converts a BV to width w, sign- or zero-extending or truncating.
func Resize(a *Term, w int, signed bool) *Term {
	switch {
	case w == a.S.W:
		return a
	case w < a.S.W:
		return Extract(w-1, 0, a)
	case signed:
		return SignExt(w-a.S.W, a)
	default:
		return ZeroExt(w-a.S.W, a)
	}
}

// ---------------------------------------------------------------------------
// Integers (mathematical)

func intBin(op string, a, b *Term, f func(x, y *big.Int) *big.Int) *Term {
	if a.S.K != KInt || b.S.K != KInt {
		panic(op + ": not Int")
	}
	if a.IsConst() && b.IsConst() {
		if r := f(a.C, b.C); r != nil {
			return IntConst(r)
		}
	}
	return mk(SInt, op, a, b)
}
func IAdd(a, b *Term) *Term {
	if isZero(a) {
		return b
	}
	if isZero(b) {
		return a
	}
	return intBin("+", a, b, func(x, y *big.Int) *big.Int { return new(big.Int).Add(x, y) })
}
func ISub(a, b *Term) *Term {
	if isZero(b) {
		return a
	}
	return intBin("-", a, b, func(x, y *big.Int) *big.Int { return new(big.Int).Sub(x, y) })
}
func IMul(a, b *Term) *Term {
	return intBin("*", a, b, func(x, y *big.Int) *big.Int { return new(big.Int).Mul(x, y) })
}

// IDiv / IMod are SMT-LIB's Euclidean-style div/mod (mod result is non-negative).
func IDiv(a, b *Term) *Term {
	return intBin("div", a, b, func(x, y *big.Int) *big.Int {
		if y.Sign() == 0 {
			return nil
		}
		q, _ := new(big.Int).DivMod(x, y, new(big.Int))
		return q
	})
}
func IMod(a, b *Term) *Term {
	return intBin("mod", a, b, func(x, y *big.Int) *big.Int {
		if y.Sign() == 0 {
			return nil
		}
		_, m := new(big.Int).DivMod(x, y, new(big.Int))
		return m
	})
}
func INeg(a *Term) *Term {
	if a.IsConst() {
		return IntConst(new(big.Int).Neg(a.C))
	}
	return mk(SInt, "-", a)
}
func intCmp(op string, a, b *Term, f func(c int) bool) *Term {
	if a.S.K != KInt || b.S.K != KInt {
		panic(op + ": not Int")
	}
	if a.IsConst() && b.IsConst() {
		return BoolConst(f(a.C.Cmp(b.C)))
	}
	return mk(SBool, op, a, b)
}
func ILt(a, b *Term) *Term { return intCmp("<", a, b, func(c int) bool { return c < 0 }) }
func ILe(a, b *Term) *Term { return intCmp("<=", a, b, func(c int) bool { return c <= 0 }) }

// ---------------------------------------------------------------------------
// Floating point (binary64, RNE unless stated)

func fpBin(op string, a, b *Term, f func(x, y float64) float64) *Term {
	if a.IsConst() && b.IsConst() {
		return FPConst(f(a.F, b.F))
	}
	t := mk(SFP, op, a, b)
	t.Name = "RNE"
	return t
}
func FPAdd(a, b *Term) *Term {
	return fpBin("fp.add", a, b, func(x, y float64) float64 { return x + y })
}
func FPSub(a, b *Term) *Term {
	return fpBin("fp.sub", a, b, func(x, y float64) float64 { return x - y })
}
func FPMul(a, b *Term) *Term {
	return fpBin("fp.mul", a, b, func(x, y float64) float64 { return x * y })
}
func FPDiv(a, b *Term) *Term {
	return fpBin("fp.div", a, b, func(x, y float64) float64 { return x / y })
}
func FPNeg(a *Term) *Term {
	if a.IsConst() {
		return FPConst(-a.F)
	}
	return mk(SFP, "fp.neg", a)
}
func FPAbs(a *Term) *Term {
	if a.IsConst() {
		return FPConst(math.Abs(a.F))
	}
	return mk(SFP, "fp.abs", a)
}
func fpCmp(op string, a, b *Term, f func(x, y float64) bool) *Term {
	if a.IsConst() && b.IsConst() {
		return BoolConst(f(a.F, b.F))
	}
	return mk(SBool, op, a, b)
}
func FPEq(a, b *Term) *Term { return fpCmp("fp.eq", a, b, func(x, y float64) bool { return x == y }) }
func FPLt(a, b *Term) *Term { return fpCmp("fp.lt", a, b, func(x, y float64) bool { return x < y }) }
func FPLe(a, b *Term) *Term { return fpCmp("fp.leq", a, b, func(x, y float64) bool { return x <= y }) }
func FPIsNaN(a *Term) *Term {
	if a.IsConst() {
		return BoolConst(math.IsNaN(a.F))
	}
	return mk(SBool, "fp.isNaN", a)
}
func FPIsInf(a *Term) *Term {
	if a.IsConst() {
		return BoolConst(math.IsInf(a.F, 0))
	}
	return mk(SBool, "fp.isInfinite", a)
}
func FPIsNeg(a *Term) *Term {
	if a.IsConst() {
		return BoolConst(math.Signbit(a.F) && !math.IsNaN(a.F))
	}
	return mk(SBool, "fp.isNegative", a)
}

// FPRound: mode is one of RNE RTZ RTP RTN RNA
func FPRound(mode string, a *Term) *Term {
	if a.IsConst() {
		switch mode {
		case "RNE":
			return FPConst(math.RoundToEven(a.F))
		case "RTZ":
			return FPConst(math.Trunc(a.F))
		case "RTP":
			return FPConst(math.Ceil(a.F))
		case "RTN":
			return FPConst(math.Floor(a.F))
		case "RNA":
			return FPConst(math.Round(a.F))
		}
	}
	t := mk(SFP, "fp.roundToIntegral", a)
	t.Name = mode
	return t
}

// FPFromBV converts a signed/unsigned BV to float64 (RNE).
func FPFromBV(a *Term, signed bool) *Term {
	if a.IsConst() {
		v := a.C
		if signed {
			v = toSigned(a.C, a.S.W)
		}
		f, _ := new(big.Float).SetInt(v).Float64() // big.Float.Float64 rounds to nearest even
		return FPConst(f)
	}
	op := "to_fp_unsigned"
	if signed {
		op = "to_fp_signed"
	}
	return mk(SFP, op, a)
}

// FPToBV converts float64 to BV of width w rounding toward zero.
// Unspecified for NaN/out of range (callers must guard).
func FPToBV(a *Term, w int, signed bool) *Term {
	if a.IsConst() && !math.IsNaN(a.F) && !math.IsInf(a.F, 0) {
		bf := new(big.Float).SetFloat64(math.Trunc(a.F))
		v, _ := bf.Int(nil)
		return BVConst(v, w)
	}
	op := "fp.to_ubv"
	if signed {
		op = "fp.to_sbv"
	}
	return mkP(SBV(w), op, []int{w}, a)
}

// FPFromBits reinterprets a BV64 as float64.
func FPFromBits(a *Term) *Term {
	if a.IsConst() {
		return FPConst(math.Float64frombits(a.C.Uint64()))
	}
	return mk(SFP, "to_fp_bits", a)
}

// FPFromInt converts an Int term to float64 (RNE) via to_real.
func FPFromInt(a *Term) *Term {
	if a.IsConst() {
		f, _ := new(big.Float).SetInt(a.C).Float64()
		return FPConst(f)
	}
	return mk(SFP, "to_fp_int", a)
}

// ---------------------------------------------------------------------------
// Int <-> BV bridges

func Int2BV(a *Term, w int) *Term {
	if a.IsConst() {
		return BVConst(a.C, w)
	}
	return mkP(SBV(w), "int2bv", []int{w}, a)
}

// BV2Int interprets a as unsigned (signed=false) or two's complement.
func BV2Int(a *Term, signed bool) *Term {
	if a.IsConst() {
		if signed {
			return IntConst(toSigned(a.C, a.S.W))
		}
		return IntConst(a.C)
	}
	u := mk(SInt, "bv2nat", a)
	if !signed {
		return u
	}
	return Ite(BVSlt(a, BVConst64(0, a.S.W)), ISub(u, IntConst(pow2(a.S.W))), u)
}

// ---------------------------------------------------------------------------
// Rendering

type renderer struct {
	sb    strings.Builder
	names map[*Term]string
	vars  map[string]Sort
	order []string
	defs  strings.Builder
	n     int
	cvc5  bool
}

func constText(t *Term) string {
	switch t.S.K {
	case KBool:
		if t.C.Sign() != 0 {
			return "true"
		}
		return "false"
	case KBV:
		return fmt.Sprintf("(_ bv%s %d)", t.C.String(), t.S.W)
	case KInt:
		if t.C.Sign() < 0 {
			return "(- " + new(big.Int).Neg(t.C).String() + ")"
		}
		return t.C.String()
	case KFP:
		b := math.Float64bits(t.F)
		if math.IsNaN(t.F) {
			return "(_ NaN 11 53)"
		}
		return fmt.Sprintf("(fp #b%01b #b%011b #b%052b)", b>>63, (b>>52)&0x7ff, b&((1<<52)-1))
	}
	return "?"
}

func (r *renderer) ref(t *Term) string {
	switch t.Op {
	case "const":
		return constText(t)
	case "var":
		if _, ok := r.vars[t.Name]; !ok {
			r.vars[t.Name] = t.S
			r.order = append(r.order, t.Name)
		}
		return t.Name
	}
	if n, ok := r.names[t]; ok {
		return n
	}
	if t.Op == "raw" {
		for _, v := range t.Vars {
			r.ref(v)
		}
		r.n++
		name := fmt.Sprintf("t!%d", r.n)
		fmt.Fprintf(&r.defs, "(define-fun %s () Bool %s)\n", name, t.Name)
		r.names[t] = name
		return name
	}
	args := make([]string, len(t.Args))
	for i, a := range t.Args {
		args[i] = r.ref(a)
	}
	body := opText(t, args, r.cvc5)
	r.n++
	name := fmt.Sprintf("t!%d", r.n)
	fmt.Fprintf(&r.defs, "(define-fun %s () %s %s)\n", name, t.S.SMT(), body)
	r.names[t] = name
	return name
}

func opText(t *Term, args []string, cvc5 bool) string {
	var body string
	switch t.Op {
	case "extract":
		body = fmt.Sprintf("((_ extract %d %d) %s)", t.P[0], t.P[1], args[0])
	case "zero_extend", "sign_extend":
		body = fmt.Sprintf("((_ %s %d) %s)", t.Op, t.P[0], args[0])
	case "int2bv":
		body = fmt.Sprintf("((_ int2bv %d) %s)", t.P[0], args[0])
	case "bv2nat":
		if cvc5 {
			body = fmt.Sprintf("(bv2nat %s)", args[0])
		} else {
			body = fmt.Sprintf("(bv2int %s)", args[0])
		}
	case "fp.add", "fp.sub", "fp.mul", "fp.div":
		body = fmt.Sprintf("(%s RNE %s %s)", t.Op, args[0], args[1])
	case "fp.roundToIntegral":
		body = fmt.Sprintf("(fp.roundToIntegral %s %s)", t.Name, args[0])
	case "to_fp_signed":
		body = fmt.Sprintf("((_ to_fp 11 53) RNE %s)", args[0])
	case "to_fp_unsigned":
		body = fmt.Sprintf("((_ to_fp_unsigned 11 53) RNE %s)", args[0])
	case "to_fp_bits":
		body = fmt.Sprintf("((_ to_fp 11 53) %s)", args[0])
	case "to_fp_int":
		body = fmt.Sprintf("((_ to_fp 11 53) RNE (to_real %s))", args[0])
	case "fp.to_sbv", "fp.to_ubv":
		body = fmt.Sprintf("((_ %s %d) RTZ %s)", t.Op, t.P[0], args[0])
	default:
		body = "(" + t.Op + " " + strings.Join(args, " ") + ")"
	}
	return body
}

// Render produces the declarations, definitions and assertions for a query.
// It returns the text and the sorted list of variables declared.
func Render(asserts []*Term, cvc5 bool) (string, map[string]Sort) {
	r := &renderer{names: map[*Term]string{}, vars: map[string]Sort{}, cvc5: cvc5}
	var as []string
	for _, a := range asserts {
		as = append(as, r.ref(a))
	}
	var sb strings.Builder
	names := append([]string(nil), r.order...)
	sort.Strings(names)
	for _, n := range names {
		fmt.Fprintf(&sb, "(declare-const %s %s)\n", n, r.vars[n].SMT())
	}
	sb.WriteString(r.defs.String())
	for _, a := range as {
		fmt.Fprintf(&sb, "(assert %s)\n", a)
	}
	return sb.String(), r.vars
}

// ---------------------------------------------------------------------------
// Evaluation under a model (constant folding by substitution)

type Model map[string]*Term // var name -> const term

// Eval evaluates t under m; unknown variables default to zero values.
func Eval(t *Term, m Model, cache map[*Term]*Term) *Term {
	switch t.Op {
	case "const":
		return t
	case "var":
		if v, ok := m[t.Name]; ok {
			return v
		}
		return zeroOf(t.S)
	case "raw":
		return nil
	}
	if v, ok := cache[t]; ok {
		return v
	}
	args := make([]*Term, len(t.Args))
	for i, a := range t.Args {
		args[i] = Eval(a, m, cache)
		if args[i] == nil {
			cache[t] = nil
			return nil
		}
	}
	r := rebuild(t, args)
	if r != nil && !r.IsConst() {
		r = nil
	}
	cache[t] = r
	return r
}

func zeroOf(s Sort) *Term {
	switch s.K {
	case KBool:
		return False
	case KBV:
		return BVConst64(0, s.W)
	case KInt:
		return IntConst64(0)
	}
	return FPConst(0)
}

func rebuild(t *Term, a []*Term) *Term {
	switch t.Op {
	case "not":
		return Not(a[0])
	case "and":
		return And(a...)
	case "or":
		return Or(a...)
	case "ite":
		return Ite(a[0], a[1], a[2])
	case "=":
		return Eq(a[0], a[1])
	case "bvadd":
		return BVAdd(a[0], a[1])
	case "bvsub":
		return BVSub(a[0], a[1])
	case "bvmul":
		return BVMul(a[0], a[1])
	case "bvand":
		return BVAnd(a[0], a[1])
	case "bvor":
		return BVOr(a[0], a[1])
	case "bvxor":
		return BVXor(a[0], a[1])
	case "bvudiv":
		return BVUDiv(a[0], a[1])
	case "bvurem":
		return BVURem(a[0], a[1])
	case "bvsdiv":
		return BVSDiv(a[0], a[1])
	case "bvsrem":
		return BVSRem(a[0], a[1])
	case "bvshl":
		return BVShl(a[0], a[1])
	case "bvlshr":
		return BVLshr(a[0], a[1])
	case "bvashr":
		return BVAshr(a[0], a[1])
	case "bvnot":
		return BVNot(a[0])
	case "bvneg":
		return BVNeg(a[0])
	case "bvult":
		return BVUlt(a[0], a[1])
	case "bvule":
		return BVUle(a[0], a[1])
	case "bvslt":
		return BVSlt(a[0], a[1])
	case "bvsle":
		return BVSle(a[0], a[1])
	case "extract":
		return Extract(t.P[0], t.P[1], a[0])
	case "zero_extend":
		return ZeroExt(t.P[0], a[0])
	case "sign_extend":
		return SignExt(t.P[0], a[0])
	case "concat":
		return Concat(a[0], a[1])
	case "+":
		return IAdd(a[0], a[1])
	case "-":
		if len(a) == 1 {
			return INeg(a[0])
		}
		return ISub(a[0], a[1])
	case "*":
		return IMul(a[0], a[1])
	case "div":
		return IDiv(a[0], a[1])
	case "mod":
		return IMod(a[0], a[1])
	case "<":
		return ILt(a[0], a[1])
	case "<=":
		return ILe(a[0], a[1])
	case "fp.add":
		return FPAdd(a[0], a[1])
	case "fp.sub":
		return FPSub(a[0], a[1])
	case "fp.mul":
		return FPMul(a[0], a[1])
	case "fp.div":
		return FPDiv(a[0], a[1])
	case "fp.neg":
		return FPNeg(a[0])
	case "fp.abs":
		return FPAbs(a[0])
	case "fp.eq":
		return FPEq(a[0], a[1])
	case "fp.lt":
		return FPLt(a[0], a[1])
	case "fp.leq":
		return FPLe(a[0], a[1])
	case "fp.isNaN":
		return FPIsNaN(a[0])
	case "fp.isInfinite":
		return FPIsInf(a[0])
	case "fp.isNegative":
		return FPIsNeg(a[0])
	case "fp.roundToIntegral":
		return FPRound(t.Name, a[0])
	case "to_fp_signed":
		return FPFromBV(a[0], true)
	case "to_fp_unsigned":
		return FPFromBV(a[0], false)
	case "to_fp_bits":
		return FPFromBits(a[0])
	case "to_fp_int":
		return FPFromInt(a[0])
	case "fp.to_sbv":
		return FPToBV(a[0], t.P[0], true)
	case "fp.to_ubv":
		return FPToBV(a[0], t.P[0], false)
	case "int2bv":
		return Int2BV(a[0], t.P[0])
	case "bv2nat":
		return BV2Int(a[0], false)
	}
	return nil
}
