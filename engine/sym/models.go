package sym

import (
	"fmt"
	"go/token"
	"go/types"
	"math"
	"math/big"
	"strconv"
	"strings"

	"golang.org/x/tools/go/ssa"
)

type modelFn func(c *Ctx, fn *ssa.Function, args []Value) Value

var models map[string]modelFn

func init() {
	models = map[string]modelFn{}
	registerBigModels()
	registerLibModels()
}

// callModel dispatches intrinsics (verif*) and library models.
func (c *Ctx) callModel(fn *ssa.Function, args []Value) (Value, bool) {
	name := fn.Name()
	if strings.HasPrefix(name, "verif") && fn.Signature.Recv() == nil {
		if r, ok := c.intrinsic(fn, name, args); ok {
			return r, true
		}
	}
	if c.skipModelFor == fn {
		// a model declined: interpret the real body this once
		c.skipModelFor = nil
		return nil, false
	}
	full := infoOf(fn).model
	if m, ok := models[full]; ok {
		c.Ex.noteModel(full)
		return m(c, fn, args), true
	}
	if c.Ex.Havoc[full] {
		c.Ex.noteModel("havoc:" + full)
		return c.havocResult(fn), true
	}
	return nil, false
}

func (c *Ctx) strArg(v Value) string {
	s, ok := v.(*StrVal).concrete()
	if !ok {
		c.unsupported("intrinsic name must be a concrete string")
	}
	return s
}

func (c *Ctx) newInput(name string, s Sort, w int, signed bool) *Term {
	if _, dup := c.inputs[name]; dup {
		c.unsupported("duplicate symbolic input name %q", name)
	}
	v := Var(name, s)
	c.inputs[name] = v
	c.inputOrder = append(c.inputOrder, name)
	if s.K == KInt {
		c.addPC(c.rangeOf(v, w, signed))
	}
	return v
}

func (c *Ctx) intrinsic(fn *ssa.Function, name string, args []Value) (Value, bool) {
	switch name {
	case "verifInt64", "verifInt":
		return c.newInput(c.strArg(args[0]), c.intSort(64), 64, true), true
	case "verifUint64":
		return c.newInput(c.strArg(args[0]), c.intSort(64), 64, false), true
	case "verifInt32":
		return c.newInput(c.strArg(args[0]), c.intSort(32), 32, true), true
	case "verifByte":
		return c.newInput(c.strArg(args[0]), c.intSort(8), 8, false), true
	case "verifBool":
		return c.newInput(c.strArg(args[0]), SBool, 0, false), true
	case "verifFloat64":
		return c.newInput(c.strArg(args[0]), SFP, 0, false), true
	case "verifBigInt":
		// verifBigInt(name string, bits int) *big.Int : |v| < 2^bits
		nm := c.strArg(args[0])
		bits, _ := c.constInt(args[1].(*Term), true)
		v := Var(nm, c.bigSort())
		if _, dup := c.inputs[nm]; dup {
			c.unsupported("duplicate symbolic input name %q", nm)
		}
		c.inputs[nm] = v
		c.inputOrder = append(c.inputOrder, nm)
		c.bigInputs[nm] = true
		lim := pow2(int(bits))
		if c.IntMode {
			c.addPC(And(ILt(IntConst(new(big.Int).Neg(lim)), v), ILt(v, IntConst(lim))))
		} else {
			if int(bits)+2 > c.BigW {
				c.unsupported("verifBigInt bits %d exceed model width %d", bits, c.BigW)
			}
			c.addPC(And(BVSlt(BVConst(new(big.Int).Neg(lim), c.BigW), v), BVSlt(v, BVConst(lim, c.BigW))))
		}
		return Ptr{C: c.newCell(&BigVal{T: v}, "big:"+nm)}, true
	case "verifAssume":
		c.assume(args[0].(*Term))
		return nil, true
	case "verifAssert":
		c.assert(args[0].(*Term), c.strArg(args[1]))
		return nil, true
	case "verifReach":
		c.reached[c.strArg(args[0])] = true
		return nil, true
	case "verifShared":
		// verifShared(p): p points to the object whose scalar fields are shared between threads
		if c.rec != nil {
			v := args[0]
			if i, ok := v.(Iface); ok {
				v = i.V
			}
			if p, ok := v.(Ptr); ok {
				c.rec.shared = p.C
			}
		}
		return nil, true
	case "verifEvent":
		if c.rec != nil {
			c.concEvent(ConcEvent{Kind: "mark", Tag: c.strArg(args[0])})
		}
		return nil, true
	case "verifYield":
		if c.rec != nil {
			c.rec.yielded = true
		}
		return nil, true
	case "verifHavocBool":
		if c.rec != nil {
			v, _ := c.concSym("hv", "Bool")
			return v, true
		}
		return Var(c.freshName("hvb"), SBool), true
	case "verifChoice":
		nm := c.strArg(args[0])
		n, _ := c.constInt(args[1].(*Term), true)
		i := c.choose(int(n), nil)
		c.choices[nm] = i
		c.inputOrder = append(c.inputOrder, nm)
		return c.goInt(int64(i)), true
	case "verifBigToFloat":
		x := c.bigOf(args[0])
		if c.IntMode {
			return FPFromInt(x), true
		}
		return FPFromBV(x, true), true
	case "verifFloatToBig":
		f := args[0].(*Term)
		if c.IntMode {
			c.unsupported("verifFloatToBig in int mode")
		}
		return c.newBig(FPToBV(f, c.BigW, true)), true
	case "verifParseDigits":
		// verifParseDigits(s string, base int) (*big.Int, bool): value of a non-empty run of digits valid in base
		str := args[0].(*StrVal)
		base, _ := c.constInt(args[1].(*Term), true)
		v, valid := c.parseDigitsSym(str.B, int(base))
		return TupleVal{c.newBig(v), valid}, true
	case "verifString":
		// verifString(name string, n int) string: n symbolic bytes
		nm := c.strArg(args[0])
		n, _ := c.constInt(args[1].(*Term), true)
		bs := make([]*Term, n)
		for i := range bs {
			bs[i] = c.newInput(fmt.Sprintf("%s_%d", nm, i), c.intSort(8), 8, false)
		}
		return &StrVal{B: bs}, true
	case "verifShortest":
		// verifShortest(f float64) (neg bool, digits string, exp int): the abstract shortest decimal of f
		sd := c.shortestDecimal(args[0].(*Term))
		return TupleVal{sd.neg, &StrVal{B: sd.digits}, sd.exp}, true
	case "verifAnd":
		// verifAnd(a, b bool) bool: conjunction as a term (no fork, unlike &&)
		return And(args[0].(*Term), args[1].(*Term)), true
	case "verifTruthOf":
		nm := c.strArg(args[0])
		if v, ok := c.inputs[nm]; ok {
			return v, true
		}
		return False, true // never asked on this path (the native side reads an absent entry as false too)
	case "verifChoiceOf":
		nm := c.strArg(args[0])
		if v, ok := c.choices[nm]; ok {
			return c.goInt(int64(v)), true
		}
		return c.goInt(-1), true
	case "verifMapPolicy":
		// verifMapPolicy(k): iteration order used for every map range from now on
		// (0 insertion order, 1 reversed, 2 rotated by one, 3 first two swapped, 4 rotated by two)
		k, _ := c.constInt(args[0].(*Term), true)
		c.mapPolicy = int(k)
		return nil, true
	case "verifBound":
		// verifBound(quick, thorough int) int
		return args[c.Ex.Tier], true
	case "verifLog":
		c.log = append(c.log, describe(args[0]))
		return nil, true
	case "verifSymbolic":
		return True, true
	case "verifIsConcrete":
		if t, ok := args[0].(*Term); ok {
			return BoolConst(t.IsConst()), true
		}
		return True, true
	}
	return nil, false
}

// ---------------------------------------------------------------------------
// Assertions

func (c *Ctx) assert(cond *Term, msg string) {
	ex := c.Ex
	if c.replaying() {
		c.addPC(cond)
		return
	}
	c.st.Obligations++
	if cond.IsTrue() {
		c.st.Discharged++
		ex.noteObligation(c, msg, "trivially-true")
		return
	}
	neg := Not(cond)
	regions := ex.regionsFor(c, "assert:"+msg)
	q := []*Term{neg}
	for _, r := range regions {
		q = append(q, Not(r.term))
	}
	var res Result
	var m Model
	var note string
	if len(regions) == 0 {
		if v, ok := c.evalModel(neg); ok && v {
			res, m = Sat, c.model
		}
	}
	if m == nil {
		res, m, note = c.S.CheckPC(c.pc, q, true)
		c.st.AssertQueries++
	}
	switch res {
	case Unsat:
		c.st.Discharged++
		ex.noteObligation(c, msg, "unsat")
		if len(regions) > 0 {
			// is the known region still violating here?
			for _, r := range regions {
				r2, m2, _ := c.S.CheckPC(c.pc, []*Term{neg, r.term}, true)
				if r2 == Sat {
					ex.noteKnown(r.kf, c, m2)
				}
			}
		}
	case Sat:
		ex.noteObligation(c, msg, "sat")
		ex.noteViolation(c, "assert:"+msg, msg, m)
	default:
		c.st.Inconclusive++
		ex.noteInconclusive(fmt.Sprintf("assert %q: solver unknown %s", msg, note))
	}
	// continue under the assumption that the assertion held
	if cond.IsFalse() {
		c.abort("asserted", "assertion is false on this whole path")
	}
	ok, m2 := c.feasible(cond)
	if !ok {
		c.abort("asserted", "assertion fails for every input of this path")
	}
	c.addPC(cond)
	c.model = m2
}

// ---------------------------------------------------------------------------
// Havoc

// fewValues reports whether integer term t has at most n feasible values within +-2^31 on this path.
func (c *Ctx) fewValues(t *Term, n int) bool {
	var excl []*Term
	w := t.S.W
	if c.IntMode {
		excl = append(excl, ILe(IntConst64(-1<<31), t), ILe(t, IntConst64(1<<31)))
	} else {
		excl = append(excl, BVSle(BVConst64(-1<<31, w), t), BVSle(t, BVConst64(1<<31, w)))
		// and nothing outside that range
		if r, _, _ := c.S.CheckPC(c.pc, []*Term{Not(And(excl...))}, false); r != Unsat {
			return false
		}
	}
	for i := 0; i <= n; i++ {
		r, m, _ := c.S.CheckPC(c.pc, excl, true)
		c.st.FeasQueries++
		if r == Unsat {
			return true
		}
		if r != Sat || m == nil {
			return false
		}
		val := Eval(t, m, map[*Term]*Term{})
		if val == nil || !val.IsConst() {
			return false
		}
		excl = append(excl, Not(Eq(t, val)))
	}
	return false
}

func (c *Ctx) havocType(t types.Type, tag string) Value {
	switch u := t.Underlying().(type) {
	case *types.Basic:
		switch {
		case u.Info()&types.IsBoolean != 0:
			return Var(c.freshName(tag), SBool)
		case u.Info()&types.IsInteger != 0:
			w, s, _ := intInfo(u)
			v := Var(c.freshName(tag), c.intSort(w))
			c.addPC(c.rangeOf(v, w, s))
			return v
		case u.Info()&types.IsFloat != 0:
			return Var(c.freshName(tag), SFP)
		case u.Info()&types.IsComplex != 0:
			return &StructVal{F: []Value{Var(c.freshName(tag), SFP), Var(c.freshName(tag), SFP)}}
		case u.Info()&types.IsString != 0:
			return c.str("<havoc>")
		}
	case *types.Interface:
		return Iface{}
	case *types.Tuple:
		tv := make(TupleVal, u.Len())
		for i := range tv {
			tv[i] = c.havocType(u.At(i).Type(), tag)
		}
		return tv
	}
	return c.zero(t)
}

func (c *Ctx) havocResult(fn *ssa.Function) Value {
	res := fn.Signature.Results()
	switch res.Len() {
	case 0:
		return nil
	case 1:
		return c.havocType(res.At(0).Type(), "hv")
	}
	return c.havocType(res, "hv")
}

// ---------------------------------------------------------------------------
// math/big

func (c *Ctx) bigOf(v Value) *Term {
	p, ok := v.(Ptr)
	if !ok {
		c.unsupported("big.Int operand is %T", v)
	}
	if p.IsNil() {
		c.goPanic("nil", "nil *big.Int dereference")
	}
	b, ok := p.load().(*BigVal)
	if !ok {
		c.unsupported("big.Int cell holds %T", p.load())
	}
	return b.T
}

func (c *Ctx) bigSet(z Value, t *Term) Value {
	p := z.(Ptr)
	if p.IsNil() {
		c.goPanic("nil", "nil *big.Int dereference")
	}
	p.store(&BigVal{T: t})
	return z
}

func (c *Ctx) bigFromInt(t *Term, w int, signed bool) *Term {
	if c.IntMode {
		return t
	}
	return Resize(t, c.BigW, signed)
}

func (c *Ctx) newBig(t *Term) Value { return Ptr{C: c.newCell(&BigVal{T: t}, "big")} }

func (c *Ctx) bigSign(x *Term) (neg, zero *Term) {
	if c.IntMode {
		return ILt(x, IntConst64(0)), Eq(x, IntConst64(0))
	}
	z := BVConst64(0, c.BigW)
	return BVSlt(x, z), Eq(x, z)
}

func (c *Ctx) bigLt(x, y *Term) *Term {
	if c.IntMode {
		return ILt(x, y)
	}
	return BVSlt(x, y)
}

func (c *Ctx) bigNeg(x *Term) *Term {
	if c.IntMode {
		return INeg(x)
	}
	return BVNeg(x)
}

// truncated quotient and remainder (Go's big.Int.QuoRem), divisor assumed nonzero
func (c *Ctx) bigQuoRem(x, y *Term) (*Term, *Term) {
	if c.IntMode {
		zero := IntConst64(0)
		q := Ite(ILe(zero, x), IDiv(x, y), INeg(IDiv(INeg(x), y)))
		r := Ite(ILe(zero, x), IMod(x, y), INeg(IMod(INeg(x), y)))
		return q, r
	}
	return BVSDiv(x, y), BVSRem(x, y)
}

// Euclidean division (big.Int.DivMod / Div / Mod): remainder always >= 0
func (c *Ctx) bigDivMod(x, y *Term) (*Term, *Term) {
	if c.IntMode {
		return IDiv(x, y), IMod(x, y)
	}
	q, r := BVSDiv(x, y), BVSRem(x, y)
	z := BVConst64(0, c.BigW)
	one := BVConst64(1, c.BigW)
	rneg := BVSlt(r, z)
	ypos := BVSlt(z, y)
	q2 := Ite(rneg, Ite(ypos, BVSub(q, one), BVAdd(q, one)), q)
	r2 := Ite(rneg, Ite(ypos, BVAdd(r, y), BVSub(r, y)), r)
	return q2, r2
}

// bigText: the text of the big-sorted integer x in the given base (2..36), as
// math/big and strconv spell it: '-' for negatives, no prefix, no leading
// zeros, lower-case (or upper-case) letters. A symbolic x forks on its sign and
// on its number of digits; each digit is then a term of x. Values of more than
// bigTextMaxDigits digits are outside the model.
const bigTextMaxBits = 200

func (c *Ctx) bigText(x *Term, base int, upper bool) *StrVal {
	if x.IsConst() {
		v := x.C
		if x.S.K == KBV {
			v = x.SignedVal()
		}
		t := v.Text(base)
		if upper {
			t = strings.ToUpper(t)
		}
		return c.str(t)
	}
	if !c.Ex.Havoc["int:text"] && !c.forceIntText {
		// symbolic text is opt-in (//verif:havoc int:text): it forks on the sign and on the number of
		// digits, which only the harnesses about the text of integers want; elsewhere the text of a
		// symbolic integer is an opaque placeholder
		return c.str("<int>")
	}
	neg, _ := c.bigSign(x)
	isNeg := c.decide(neg)
	ax := x
	if isNeg {
		ax = c.bigNeg(x)
	}
	bits := bigTextMaxBits
	if !c.IntMode && c.BigW-1 < bits {
		bits = c.BigW - 1
	}
	limit := pow2(bits)
	b := big.NewInt(int64(base))
	pw := big.NewInt(int64(base)) // base^n
	n := 1
	for {
		if pw.Cmp(limit) >= 0 {
			// every value of the model width has at most n digits
			break
		}
		if c.decide(c.bigLt(ax, c.bigConst(pw))) {
			break
		}
		n++
		pw = new(big.Int).Mul(pw, b)
	}
	if c.IntMode && pw.Cmp(limit) >= 0 {
		c.modelGuard(c.bigLt(ax, c.bigConst(pw)), "integer text of more than 200 bits is outside the model")
	}
	var out []*Term
	if isNeg {
		out = append(out, c.byteT('-'))
	}
	letter := byte('a')
	if upper {
		letter = 'A'
	}
	// digits from the least significant one by repeated division by the base
	// (chained div/mod by one small constant keeps the queries linear and easy)
	digits := make([]*Term, n)
	q := ax
	for i := n - 1; i >= 0; i-- {
		var d *Term
		q, d = c.bigDivMod(q, c.bigConst(b))
		digits[i] = d
	}
	for i := 0; i < n; i++ {
		d := digits[i]
		var ch *Term
		if c.IntMode {
			ch = IAdd(d, IntConst64('0'))
			if base > 10 {
				ch = Ite(ILt(d, IntConst64(10)), ch, IAdd(d, IntConst64(int64(letter)-10)))
			}
		} else {
			d8 := Extract(7, 0, d)
			ch = BVAdd(d8, BVConst64('0', 8))
			if base > 10 {
				ch = Ite(BVUlt(d8, BVConst64(10, 8)), ch, BVAdd(d8, BVConst64(int64(letter)-10, 8)))
			}
		}
		if c.digitChars == nil {
			c.digitChars = map[*Term]*Term{}
		}
		c.digitChars[ch] = d
		out = append(out, ch)
	}
	return &StrVal{B: out}
}

// shortDec: the shortest decimal that converts back to a finite non-zero double, as an abstract
// object: sign, 1..17 digit characters d0 d1 ... (value d0.d1d2... * 10^exp), decimal exponent.
type shortDec struct {
	neg    *Term
	digits []*Term
	exp    *Term // 64-bit integer term, -324..308
}

func (c *Ctx) shortestDecimal(f *Term) *shortDec {
	if c.IntMode {
		c.unsupported("shortest decimal of a float in int mode")
	}
	key := "short|" + f.Key()
	if c.shortCache == nil {
		c.shortCache = map[string]*shortDec{}
	}
	if sd, ok := c.shortCache[key]; ok {
		return sd
	}
	n := 1 + c.choose(17, nil)
	name := c.freshName("short")
	sd := &shortDec{neg: FPIsNeg(f)}
	for i := 0; i < n; i++ {
		d := Var(fmt.Sprintf("%s_d%d", name, i), SBV(8))
		lo := int('0')
		if i == 0 || i == n-1 {
			lo = '1' // no leading zero; no trailing zero (it would not be the shortest)
		}
		c.assume(c.byteIn(d, lo, '9'))
		sd.digits = append(sd.digits, d)
	}
	x := Var(name+"_exp", SBV(64))
	c.assume(And(BVSle(BVConst64(-324, 64), x), BVSle(x, BVConst64(308, 64))))
	sd.exp = x
	// tie the exponent to the magnitude of f where the layout decisions live (10^exp <= |f| < 10^(exp+1),
	// with a relative slack of 2^-50 because the powers of ten are doubles): a counterexample's f then lies
	// in the decade its abstract exponent says, so that its native replay takes the same layout decisions
	af := FPAbs(f)
	p10 := func(k int) float64 { return math.Pow(10, float64(k)) }
	const loK, hiK = -6, 18
	var ties []*Term
	for k := loK; k <= hiK; k++ {
		is := Eq(x, BVConst64(int64(k), 64))
		ties = append(ties, Or(Not(is), And(FPLe(FPConst(p10(k)*(1-math.Ldexp(1, -50))), af), FPLt(af, FPConst(p10(k+1)*(1+math.Ldexp(1, -50)))))))
	}
	ties = append(ties, Or(Not(BVSlt(x, BVConst64(loK, 64))), FPLt(af, FPConst(p10(loK)*(1+math.Ldexp(1, -50))))))
	ties = append(ties, Or(Not(BVSlt(BVConst64(hiK, 64), x)), FPLe(FPConst(p10(hiK+1)*(1-math.Ldexp(1, -50))), af)))
	c.assume(And(ties...))
	c.shortCache[key] = sd
	return sd
}

// renderShortest lays the abstract shortest decimal out as strconv.FormatFloat(f, 'e' | 'f', -1, 64) does.
func (c *Ctx) renderShortest(sd *shortDec, fm byte) *StrVal {
	var out []*Term
	if c.decide(sd.neg) {
		out = append(out, c.byteT('-'))
	}
	n := len(sd.digits)
	if fm == 'e' {
		out = append(out, sd.digits[0])
		if n > 1 {
			out = append(out, c.byteT('.'))
			out = append(out, sd.digits[1:]...)
		}
		out = append(out, c.byteT('e'))
		ax := sd.exp
		if c.decide(BVSlt(sd.exp, BVConst64(0, 64))) {
			out = append(out, c.byteT('-'))
			ax = BVNeg(sd.exp)
		} else {
			out = append(out, c.byteT('+'))
		}
		// |exp| <= 324: two digits at least, three from 100 on; 16-bit arithmetic
		ax16 := Extract(15, 0, ax)
		ten := BVConst64(10, 16)
		q1 := BVUDiv(ax16, ten)
		ds := []*Term{BVUDiv(q1, ten), BVURem(q1, ten), BVURem(ax16, ten)}
		if !c.decide(BVUle(BVConst64(100, 16), ax16)) {
			ds = ds[1:]
		}
		var chars []*Term
		for _, d := range ds {
			chars = append(chars, BVAdd(Extract(7, 0, d), BVConst64('0', 8)))
		}
		// reading these characters back as a number gives |exp| (parseDigitsSym)
		if c.numberTexts == nil {
			c.numberTexts = map[*Term]numberText{}
		}
		c.numberTexts[chars[0]] = numberText{chars: chars, val: c.bigFromInt(ax, 64, true)}
		out = append(out, chars...)
		return &StrVal{B: out}
	}
	// 'f': the layout depends on the exponent: fork over its feasible values
	x := int(c.concretize(sd.exp, true, -324, 308, "decimal exponent of a float's text"))
	if x < 0 {
		out = append(out, c.byteT('0'), c.byteT('.'))
		for i := 0; i < -x-1; i++ {
			out = append(out, c.byteT('0'))
		}
		out = append(out, sd.digits...)
		return &StrVal{B: out}
	}
	for i := 0; i <= x; i++ {
		if i < n {
			out = append(out, sd.digits[i])
		} else {
			out = append(out, c.byteT('0'))
		}
	}
	if n > x+1 {
		out = append(out, c.byteT('.'))
		out = append(out, sd.digits[x+1:]...)
	}
	return &StrVal{B: out}
}

func (c *Ctx) bigDivZero(y *Term) {
	_, z := c.bigSign(y)
	c.panicUnless(Not(z), "divide", "division by zero (math/big)")
}

func (c *Ctx) uintArg(v Value) *Term { return v.(*Term) }

func registerBigModels() {
	bin := func(f func(c *Ctx, x, y *Term) *Term) modelFn {
		return func(c *Ctx, fn *ssa.Function, a []Value) Value {
			return c.bigSet(a[0], f(c, c.bigOf(a[1]), c.bigOf(a[2])))
		}
	}
	m := models
	m["math/big.NewInt"] = func(c *Ctx, fn *ssa.Function, a []Value) Value {
		return c.newBig(c.bigFromInt(a[0].(*Term), 64, true))
	}
	m["(*math/big.Int).SetInt64"] = func(c *Ctx, fn *ssa.Function, a []Value) Value {
		return c.bigSet(a[0], c.bigFromInt(a[1].(*Term), 64, true))
	}
	m["(*math/big.Int).SetUint64"] = func(c *Ctx, fn *ssa.Function, a []Value) Value {
		return c.bigSet(a[0], c.bigFromInt(a[1].(*Term), 64, false))
	}
	m["(*math/big.Int).Set"] = func(c *Ctx, fn *ssa.Function, a []Value) Value {
		return c.bigSet(a[0], c.bigOf(a[1]))
	}
	m["(*math/big.Int).Add"] = bin(func(c *Ctx, x, y *Term) *Term {
		if c.IntMode {
			return IAdd(x, y)
		}
		return BVAdd(x, y)
	})
	m["(*math/big.Int).Sub"] = bin(func(c *Ctx, x, y *Term) *Term {
		if c.IntMode {
			return ISub(x, y)
		}
		return BVSub(x, y)
	})
	m["(*math/big.Int).Mul"] = bin(func(c *Ctx, x, y *Term) *Term {
		if c.IntMode {
			return IMul(x, y)
		}
		c.Ex.noteAssumption("big.Int.Mul modelled in " + fmt.Sprint(c.BigW) + "-bit two's complement (operands must keep the product in range)")
		return BVMul(x, y)
	})
	m["(*math/big.Int).And"] = bin(func(c *Ctx, x, y *Term) *Term {
		if c.IntMode {
			c.unsupported("big.Int.And in int mode")
		}
		return BVAnd(x, y)
	})
	m["(*math/big.Int).Or"] = bin(func(c *Ctx, x, y *Term) *Term {
		if c.IntMode {
			c.unsupported("big.Int.Or in int mode")
		}
		return BVOr(x, y)
	})
	m["(*math/big.Int).Xor"] = bin(func(c *Ctx, x, y *Term) *Term {
		if c.IntMode {
			c.unsupported("big.Int.Xor in int mode")
		}
		return BVXor(x, y)
	})
	m["(*math/big.Int).AndNot"] = bin(func(c *Ctx, x, y *Term) *Term {
		if c.IntMode {
			c.unsupported("big.Int.AndNot in int mode")
		}
		return BVAnd(x, BVNot(y))
	})
	m["(*math/big.Int).Neg"] = func(c *Ctx, fn *ssa.Function, a []Value) Value {
		return c.bigSet(a[0], c.bigNeg(c.bigOf(a[1])))
	}
	m["(*math/big.Int).Abs"] = func(c *Ctx, fn *ssa.Function, a []Value) Value {
		x := c.bigOf(a[1])
		neg, _ := c.bigSign(x)
		return c.bigSet(a[0], Ite(neg, c.bigNeg(x), x))
	}
	m["(*math/big.Int).Not"] = func(c *Ctx, fn *ssa.Function, a []Value) Value {
		x := c.bigOf(a[1])
		if c.IntMode {
			return c.bigSet(a[0], ISub(INeg(x), IntConst64(1)))
		}
		return c.bigSet(a[0], BVNot(x))
	}
	m["(*math/big.Int).Sign"] = func(c *Ctx, fn *ssa.Function, a []Value) Value {
		neg, zero := c.bigSign(c.bigOf(a[0]))
		return Ite(neg, c.goInt(-1), Ite(zero, c.goInt(0), c.goInt(1)))
	}
	m["(*math/big.Int).Cmp"] = func(c *Ctx, fn *ssa.Function, a []Value) Value {
		x, y := c.bigOf(a[0]), c.bigOf(a[1])
		return Ite(c.bigLt(x, y), c.goInt(-1), Ite(Eq(x, y), c.goInt(0), c.goInt(1)))
	}
	m["(*math/big.Int).CmpAbs"] = func(c *Ctx, fn *ssa.Function, a []Value) Value {
		x, y := c.bigOf(a[0]), c.bigOf(a[1])
		nx, _ := c.bigSign(x)
		ny, _ := c.bigSign(y)
		x = Ite(nx, c.bigNeg(x), x)
		y = Ite(ny, c.bigNeg(y), y)
		return Ite(c.bigLt(x, y), c.goInt(-1), Ite(Eq(x, y), c.goInt(0), c.goInt(1)))
	}
	m["(*math/big.Int).IsInt64"] = func(c *Ctx, fn *ssa.Function, a []Value) Value {
		x := c.bigOf(a[0])
		if c.IntMode {
			lo := IntConst(new(big.Int).Neg(pow2(63)))
			hi := IntConst(new(big.Int).Sub(pow2(63), big.NewInt(1)))
			return And(ILe(lo, x), ILe(x, hi))
		}
		return Eq(SignExt(c.BigW-64, Extract(63, 0, x)), x)
	}
	m["(*math/big.Int).IsUint64"] = func(c *Ctx, fn *ssa.Function, a []Value) Value {
		x := c.bigOf(a[0])
		if c.IntMode {
			hi := IntConst(new(big.Int).Sub(pow2(64), big.NewInt(1)))
			return And(ILe(IntConst64(0), x), ILe(x, hi))
		}
		return Eq(ZeroExt(c.BigW-64, Extract(63, 0, x)), x)
	}
	m["(*math/big.Int).Int64"] = func(c *Ctx, fn *ssa.Function, a []Value) Value {
		x := c.bigOf(a[0])
		if c.IntMode {
			return c.wrap(x, 64, true, false)
		}
		return Extract(63, 0, x)
	}
	m["(*math/big.Int).Uint64"] = func(c *Ctx, fn *ssa.Function, a []Value) Value {
		x := c.bigOf(a[0])
		if c.IntMode {
			return c.wrap(x, 64, false, false)
		}
		return Extract(63, 0, x)
	}
	m["(*math/big.Int).Lsh"] = func(c *Ctx, fn *ssa.Function, a []Value) Value {
		x := c.bigOf(a[1])
		n := a[2].(*Term)
		if c.IntMode {
			k, ok := c.constInt(n, false)
			if !ok {
				c.unsupported("big.Int.Lsh by symbolic count in int mode")
			}
			return c.bigSet(a[0], IMul(x, IntConst(pow2(int(k)))))
		}
		cnt := ZeroExt(c.BigW-64, n)
		r := BVShl(x, cnt)
		// model overflow guard: shifting back must give x and count < W
		ok := And(BVUlt(cnt, BVConst64(int64(c.BigW), c.BigW)), Eq(BVAshr(r, cnt), x))
		c.modelGuard(ok, "big.Int.Lsh result exceeds the model width")
		return c.bigSet(a[0], r)
	}
	m["(*math/big.Int).Rsh"] = func(c *Ctx, fn *ssa.Function, a []Value) Value {
		x := c.bigOf(a[1])
		n := a[2].(*Term)
		if c.IntMode {
			k, ok := c.constInt(n, false)
			if !ok {
				c.unsupported("big.Int.Rsh by symbolic count in int mode")
			}
			return c.bigSet(a[0], IDiv(x, IntConst(pow2(int(k)))))
		}
		return c.bigSet(a[0], BVAshr(x, ZeroExt(c.BigW-64, n)))
	}
	m["(*math/big.Int).Quo"] = func(c *Ctx, fn *ssa.Function, a []Value) Value {
		x, y := c.bigOf(a[1]), c.bigOf(a[2])
		c.bigDivZero(y)
		q, _ := c.bigQuoRem(x, y)
		return c.bigSet(a[0], q)
	}
	m["(*math/big.Int).Rem"] = func(c *Ctx, fn *ssa.Function, a []Value) Value {
		x, y := c.bigOf(a[1]), c.bigOf(a[2])
		c.bigDivZero(y)
		_, r := c.bigQuoRem(x, y)
		return c.bigSet(a[0], r)
	}
	m["(*math/big.Int).QuoRem"] = func(c *Ctx, fn *ssa.Function, a []Value) Value {
		x, y := c.bigOf(a[1]), c.bigOf(a[2])
		c.bigDivZero(y)
		q, r := c.bigQuoRem(x, y)
		c.bigSet(a[3], r)
		c.bigSet(a[0], q)
		return TupleVal{a[0], a[3]}
	}
	m["(*math/big.Int).Div"] = func(c *Ctx, fn *ssa.Function, a []Value) Value {
		x, y := c.bigOf(a[1]), c.bigOf(a[2])
		c.bigDivZero(y)
		q, _ := c.bigDivMod(x, y)
		return c.bigSet(a[0], q)
	}
	m["(*math/big.Int).Mod"] = func(c *Ctx, fn *ssa.Function, a []Value) Value {
		x, y := c.bigOf(a[1]), c.bigOf(a[2])
		c.bigDivZero(y)
		_, r := c.bigDivMod(x, y)
		return c.bigSet(a[0], r)
	}
	m["(*math/big.Int).DivMod"] = func(c *Ctx, fn *ssa.Function, a []Value) Value {
		x, y := c.bigOf(a[1]), c.bigOf(a[2])
		c.bigDivZero(y)
		q, r := c.bigDivMod(x, y)
		c.bigSet(a[3], r)
		c.bigSet(a[0], q)
		return TupleVal{a[0], a[3]}
	}
	m["(*math/big.Int).Exp"] = func(c *Ctx, fn *ssa.Function, a []Value) Value {
		// z = x**y mod |m| (m nil or 0: no modulus); y <= 0 gives 1 (unless modular inverse)
		x, y := c.bigOf(a[1]), c.bigOf(a[2])
		var mod *Term
		if mp := a[3].(Ptr); !mp.IsNil() {
			mod = c.bigOf(a[3])
		}
		one := c.bigConst(big.NewInt(1))
		yneg, _ := c.bigSign(y)
		mul := func(p, q *Term) *Term {
			if c.IntMode {
				return IMul(p, q)
			}
			return BVMul(p, q)
		}
		// concretise the exponent over [..0], 1, 2, 3; larger is outside the model
		res := one
		k := 0
		if c.decide(yneg) {
			if mod != nil {
				_, mz := c.bigSign(mod)
				if !c.decide(mz) {
					c.unsupported("big.Int.Exp with negative exponent and modulus (modular inverse)")
				}
			}
			return c.bigSet(a[0], one)
		}
		for ; k <= 3; k++ {
			if c.decide(Eq(y, c.bigConst(big.NewInt(int64(k))))) {
				break
			}
			res = mul(res, x)
		}
		if k > 3 {
			c.abort("bound", "big.Int.Exp exponent > 3 is outside the model")
		}
		if mod != nil {
			_, mz := c.bigSign(mod)
			if !c.decide(mz) {
				mneg, _ := c.bigSign(mod)
				am := Ite(mneg, c.bigNeg(mod), mod)
				_, r := c.bigDivMod(res, am)
				res = r
			}
		}
		return c.bigSet(a[0], res)
	}
	m["(*math/big.Int).BitLen"] = func(c *Ctx, fn *ssa.Function, a []Value) Value {
		x := c.bigOf(a[0])
		if x.IsConst() {
			v := x.C
			if x.S.K == KBV {
				v = x.SignedVal()
			}
			return c.goInt(int64(v.BitLen()))
		}
		if c.IntMode {
			c.unsupported("big.Int.BitLen symbolic in int mode")
		}
		neg, _ := c.bigSign(x)
		ax := Ite(neg, BVNeg(x), x)
		r := c.goInt(0)
		for k := 0; k < c.BigW-1; k++ {
			bit := Eq(Extract(k, k, ax), BVConst64(1, 1))
			r = Ite(bit, c.goInt(int64(k+1)), r)
		}
		return r
	}
	m["(*math/big.Int).String"] = func(c *Ctx, fn *ssa.Function, a []Value) Value {
		return c.bigText(c.bigOf(a[0]), 10, false)
	}
	m["(*math/big.Int).Text"] = func(c *Ctx, fn *ssa.Function, a []Value) Value {
		base, ok := c.constInt(a[1].(*Term), true)
		if !ok {
			base = c.concretize(a[1].(*Term), true, -1<<31, 1<<31, "big.Int.Text base")
		}
		if base < 2 || base > big.MaxBase {
			c.goPanic("big", fmt.Sprintf("invalid base %d", base))
		}
		if base > 36 {
			c.unsupported("big.Int.Text base > 36")
		}
		return c.bigText(c.bigOf(a[0]), int(base), false)
	}
	m["strconv.FormatInt"] = func(c *Ctx, fn *ssa.Function, a []Value) Value {
		base, ok := c.constInt(a[1].(*Term), true)
		if !ok {
			base = c.concretize(a[1].(*Term), true, -1<<31, 1<<31, "strconv.FormatInt base")
		}
		if base < 2 || base > 36 {
			c.goPanic("strconv", "strconv: illegal AppendInt/FormatInt base")
		}
		return c.bigText(c.bigFromInt(a[0].(*Term), 64, true), int(base), false)
	}
	m["strconv.FormatUint"] = func(c *Ctx, fn *ssa.Function, a []Value) Value {
		base, ok := c.constInt(a[1].(*Term), true)
		if !ok {
			base = c.concretize(a[1].(*Term), true, -1<<31, 1<<31, "strconv.FormatUint base")
		}
		if base < 2 || base > 36 {
			c.goPanic("strconv", "strconv: illegal AppendInt/FormatInt base")
		}
		return c.bigText(c.bigFromInt(a[0].(*Term), 64, false), int(base), false)
	}
	m["strconv.Itoa"] = func(c *Ctx, fn *ssa.Function, a []Value) Value {
		return c.bigText(c.bigFromInt(a[0].(*Term), 64, true), 10, false)
	}
	m["(*math/big.Int).SetString"] = func(c *Ctx, fn *ssa.Function, a []Value) Value {
		s := a[1].(*StrVal)
		base, okb := c.constInt(a[2].(*Term), true)
		if !okb {
			base = c.concretize(a[2].(*Term), true, -1<<31, 1<<31, "big.Int.SetString base")
		}
		if base != 0 && (base < 2 || base > big.MaxBase) {
			c.goPanic("big", fmt.Sprintf("invalid number base %d", base)) // math/big/natconv.go: nat.scan
		}
		if cs, ok := s.concrete(); ok {
			v, good := new(big.Int).SetString(cs, int(base))
			if !good {
				return TupleVal{Ptr{}, False}
			}
			c.bigSet(a[0], c.bigConst(v))
			return TupleVal{a[0], True}
		}
		return c.bigSetStringSym(a[0], s, int(base))
	}
	m["(*math/big.Int).Float64"] = func(c *Ctx, fn *ssa.Function, a []Value) Value {
		c.unsupported("big.Int.Float64")
		return nil
	}
}

func (c *Ctx) bigFloatOf(v Value) *BigFloatVal {
	p := v.(Ptr)
	if p.IsNil() {
		c.goPanic("nil", "nil *big.Float dereference")
	}
	b, ok := p.load().(*BigFloatVal)
	if !ok {
		c.unsupported("big.Float cell holds %T", p.load())
	}
	return b
}

// cmpFloatInt: exact three-way comparison of a non-NaN double with an integer.
func (c *Ctx) cmpFloatInt(f, n *Term) *Term {
	if c.IntMode {
		c.unsupported("big.Float comparison in int mode")
	}
	W := c.BigW
	lim := FPConst(math.Ldexp(1, W-2))
	nlim := FPConst(-math.Ldexp(1, W-2))
	// the integer must be small enough for the sign of a huge double to decide
	nl := BVConst(pow2(W-2), W)
	c.modelGuard(And(BVSlt(BVNeg(nl), n), BVSlt(n, nl)), "big.Float.Cmp: integer magnitude exceeds the model width")
	fl := FPToBV(FPRound("RTN", f), W, true)
	ce := FPToBV(FPRound("RTP", f), W, true)
	m1, z, p1 := c.goInt(-1), c.goInt(0), c.goInt(1)
	return Ite(FPLe(lim, f), p1, Ite(FPLe(f, nlim), m1, Ite(BVSlt(fl, n), m1, Ite(BVSlt(n, ce), p1, z))))
}

func init() {
	m := models
	m["(*math/big.Float).SetInt"] = func(c *Ctx, fn *ssa.Function, a []Value) Value {
		a[0].(Ptr).store(&BigFloatVal{Int: c.bigOf(a[1])})
		return a[0]
	}
	m["(*math/big.Float).SetFloat64"] = func(c *Ctx, fn *ssa.Function, a []Value) Value {
		f := a[1].(*Term)
		c.panicUnless(Not(FPIsNaN(f)), "bigfloat", "big.Float.SetFloat64(NaN) panics with ErrNaN")
		a[0].(Ptr).store(&BigFloatVal{FP: f})
		return a[0]
	}
	m["(*math/big.Float).Float64"] = func(c *Ctx, fn *ssa.Function, a []Value) Value {
		x := c.bigFloatOf(a[0])
		acc := c.mkInt64(0, 8, true)
		if x.FP != nil {
			return TupleVal{x.FP, acc}
		}
		if c.IntMode {
			return TupleVal{FPFromInt(x.Int), acc}
		}
		return TupleVal{FPFromBV(x.Int, true), acc}
	}
	m["(*math/big.Float).Cmp"] = func(c *Ctx, fn *ssa.Function, a []Value) Value {
		x, y := c.bigFloatOf(a[0]), c.bigFloatOf(a[1])
		m1, z, p1 := c.goInt(-1), c.goInt(0), c.goInt(1)
		switch {
		case x.FP != nil && y.FP != nil:
			return Ite(FPLt(x.FP, y.FP), m1, Ite(FPLt(y.FP, x.FP), p1, z))
		case x.Int != nil && y.Int != nil:
			return Ite(c.bigLt(x.Int, y.Int), m1, Ite(Eq(x.Int, y.Int), z, p1))
		case x.FP != nil:
			return c.cmpFloatInt(x.FP, y.Int)
		default:
			r := c.cmpFloatInt(y.FP, x.Int)
			return Ite(Eq(r, m1), p1, Ite(Eq(r, p1), m1, z))
		}
	}
}

// modelGuard: condition under which a library model is exact. If it can fail
// the path is outside the model: reported as inconclusive, path continues under the guard.
func (c *Ctx) modelGuard(ok *Term, what string) {
	if ok.IsTrue() {
		return
	}
	if !c.decide(ok) {
		c.abort("bound", "%s", what)
	}
}

// parseDigitsSym: value and validity of a digit string as formulas (no forking).
func (c *Ctx) parseDigitsSym(b []*Term, base int) (*Term, *Term) {
	if len(b) > 0 && base == 10 {
		// exactly the decimal text a model wrote for a known value
		if nt, ok := c.numberTexts[b[0]]; ok && len(nt.chars) == len(b) {
			same := true
			for i := range b {
				if b[i] != nt.chars[i] {
					same = false
				}
			}
			if same {
				return nt.val, True
			}
		}
	}
	acc := c.bigConst(big.NewInt(0))
	bb := c.bigConst(big.NewInt(int64(base)))
	valid := BoolConst(len(b) > 0)
	for _, ch := range b {
		d, ok := c.digitVal(ch, base)
		valid = And(valid, ok)
		if c.IntMode {
			acc = IAdd(IMul(acc, bb), d)
		} else {
			acc = BVAdd(BVMul(acc, bb), d)
		}
	}
	return acc, valid
}

// bigSetStringSym: digits symbolic; one fork for the sign, one for validity.
func (c *Ctx) bigSetStringSym(z Value, s *StrVal, base int) Value {
	if base < 2 || base > 36 {
		c.unsupported("big.Int.SetString symbolic digits with base %d", base)
	}
	b := s.B
	if len(b) == 0 {
		return TupleVal{Ptr{}, False}
	}
	neg := false
	if c.decide(c.byteIn(b[0], '-', '-')) {
		neg = true
		b = b[1:]
	} else if c.decide(c.byteIn(b[0], '+', '+')) {
		b = b[1:]
	}
	v, valid := c.parseDigitsSym(b, base)
	if !c.decide(valid) {
		return TupleVal{Ptr{}, False}
	}
	if neg {
		v = c.bigNeg(v)
	}
	c.bigSet(z, v)
	return TupleVal{z, True}
}

// parseIntModel models strconv.ParseInt(s, base, 64) for base != 0 on symbolic digits.
func (c *Ctx) parseIntModel(s *StrVal, base int, bits int) Value {
	fail := func(msg string) Value {
		return TupleVal{c.goInt(0), c.mkError(c.str("strconv.ParseInt: " + msg))}
	}
	b := s.B
	if len(b) == 0 {
		return fail("invalid syntax")
	}
	neg := false
	if c.decide(c.byteIn(b[0], '-', '-')) {
		neg = true
		b = b[1:]
	} else if c.decide(c.byteIn(b[0], '+', '+')) {
		b = b[1:]
	}
	v, valid := c.parseDigitsSym(b, base)
	if !c.decide(valid) {
		return fail("invalid syntax")
	}
	if neg {
		v = c.bigNeg(v)
	}
	var fits *Term
	lo := c.bigConst(new(big.Int).Neg(pow2(bits - 1)))
	hi := c.bigConst(new(big.Int).Sub(pow2(bits-1), big.NewInt(1)))
	if c.IntMode {
		fits = And(ILe(lo, v), ILe(v, hi))
	} else {
		fits = And(BVSle(lo, v), BVSle(v, hi))
	}
	if !c.decide(fits) {
		return fail("value out of range")
	}
	if c.IntMode {
		return TupleVal{v, Iface{}}
	}
	return TupleVal{Extract(63, 0, v), Iface{}}
}

// digitVal gives the numeric value of an ASCII digit byte as a big-sorted term and its validity.
func (c *Ctx) digitVal(ch *Term, base int) (*Term, *Term) {
	toBig := func(t *Term) *Term {
		if c.IntMode {
			return t
		}
		return ZeroExt(c.BigW-8, t)
	}
	sub := func(t *Term, k int64) *Term {
		if c.IntMode {
			return ISub(t, IntConst64(k))
		}
		return BVSub(t, BVConst64(k, 8))
	}
	if d, known := c.digitChars[ch]; known {
		// ch was produced by bigText from the digit value d (0 <= d < 36):
		// reading it back gives d (either letter case is accepted)
		return d, c.bigLt(d, c.bigConst(big.NewInt(int64(base))))
	}
	isDec := c.byteIn(ch, '0', '9')
	isLo := c.byteIn(ch, 'a', 'z')
	isUp := c.byteIn(ch, 'A', 'Z')
	v := Ite(isDec, toBig(sub(ch, '0')), Ite(isLo, toBig(sub(ch, 'a'-10)), toBig(sub(ch, 'A'-10))))
	valid := And(Or(isDec, isLo, isUp), c.bigLt(v, c.bigConst(big.NewInt(int64(base)))))
	return v, valid
}

// ---------------------------------------------------------------------------
// Other library models

func (c *Ctx) mkError(msg *StrVal) Value {
	ep := c.Prog.ImportedPackage("errors")
	if ep == nil {
		c.unsupported("package errors not loaded")
	}
	return c.CallFn(ep.Func("New"), []Value{msg}, nil)
}

// goValue converts a concrete interpreter value to a Go value fmt can print; ok=false if symbolic/unsupported
func (c *Ctx) goValue(v Value) (interface{}, bool) {
	switch x := v.(type) {
	case Iface:
		if x.T == nil {
			return nil, true
		}
		if p, isPtr := x.V.(Ptr); isPtr && !p.IsNil() {
			if b, isBig := p.load().(*BigVal); isBig && b.T.IsConst() {
				if b.T.S.K == KBV {
					return b.T.SignedVal(), true
				}
				return b.T.C, true
			}
		}
		_, signed, isInt := intInfo(x.T)
		if t, isT := x.V.(*Term); isT && t.IsConst() {
			switch {
			case t.S.K == KBool:
				return t.C.Sign() != 0, true
			case t.S.K == KFP:
				return t.F, true
			case isInt && signed:
				if t.S.K == KBV {
					return t.SignedVal().Int64(), true
				}
				return t.C.Int64(), true
			case isInt:
				return t.C.Uint64(), true
			}
		}
		if sv, isS := x.V.(*StrVal); isS {
			if cs, ok := sv.concrete(); ok {
				return cs, true
			}
		}
		return nil, false
	}
	return nil, false
}

// fmtResult models fmt.Sprintf: exact when the format and every argument are concrete scalars / strings
// (verbs are then interpreted by the real fmt), otherwise the format string itself stands for the result.
func (c *Ctx) fmtResult(a []Value, fmtIdx int) *StrVal {
	if fmtIdx >= len(a) {
		return c.str("<fmt>")
	}
	fs, ok := a[fmtIdx].(*StrVal)
	if !ok {
		return c.str("<fmt>")
	}
	format, conc := fs.concrete()
	if !conc || fmtIdx+1 >= len(a) {
		return fs
	}
	args, isSlice := a[fmtIdx+1].(SliceVal)
	if !isSlice {
		return fs
	}
	var gargs []interface{}
	for i := 0; i < args.Len; i++ {
		gv, ok := c.goValue(args.get(i))
		if !ok {
			if r := c.fmtSymbolic(format, args); r != nil {
				return r
			}
			return fs
		}
		gargs = append(gargs, gv)
	}
	return c.str(fmt.Sprintf(format, gargs...))
}

// fmtSymbolic formats when some operand is a symbolic integer (a Go integer
// or a *big.Int) under one of the plain verbs %d %x %X %o %b; every verb of
// the format must be a plain one-letter verb and every other operand concrete.
// Returns nil when the format is outside that fragment.
func (c *Ctx) fmtSymbolic(format string, args SliceVal) *StrVal {
	var out []*Term
	ai := 0
	for i := 0; i < len(format); i++ {
		ch := format[i]
		if ch != '%' {
			out = append(out, c.byteT(ch))
			continue
		}
		i++
		if i >= len(format) {
			return nil
		}
		verb := format[i]
		if verb == '%' {
			out = append(out, c.byteT('%'))
			continue
		}
		if !(verb >= 'a' && verb <= 'z' || verb >= 'A' && verb <= 'Z') || ai >= args.Len {
			return nil
		}
		arg := args.get(ai)
		ai++
		if gv, ok := c.goValue(arg); ok {
			out = append(out, c.str(fmt.Sprintf("%"+string(verb), gv)).B...)
			continue
		}
		base := 0
		switch verb {
		case 'd':
			base = 10
		case 'x', 'X':
			base = 16
		case 'o':
			base = 8
		case 'b':
			base = 2
		default:
			return nil
		}
		ifc, ok := arg.(Iface)
		if !ok || ifc.T == nil {
			return nil
		}
		var x *Term
		if p, isPtr := ifc.V.(Ptr); isPtr && !p.IsNil() {
			b, isBig := p.load().(*BigVal)
			if !isBig {
				return nil
			}
			x = b.T
		} else if t, isT := ifc.V.(*Term); isT {
			w, signed, isInt := intInfo(ifc.T)
			if !isInt {
				return nil
			}
			x = c.bigFromInt(t, w, signed)
		} else {
			return nil
		}
		out = append(out, c.bigText(x, base, verb == 'X').B...)
	}
	if ai != args.Len {
		return nil
	}
	return &StrVal{B: out}
}

func registerLibModels() {
	m := models
	m["fmt.Sprintf"] = func(c *Ctx, fn *ssa.Function, a []Value) Value { return c.fmtResult(a, 0) }
	m["fmt.Sprint"] = func(c *Ctx, fn *ssa.Function, a []Value) Value {
		// exact when every operand is concrete (goValue), a placeholder otherwise
		if args, ok := a[0].(SliceVal); ok {
			var gargs []interface{}
			for i := 0; i < args.Len; i++ {
				gv, ok := c.goValue(args.get(i))
				if !ok {
					return c.str("<fmt.Sprint>")
				}
				gargs = append(gargs, gv)
			}
			return c.str(fmt.Sprint(gargs...))
		}
		return c.str("<fmt.Sprint>")
	}
	m["fmt.Sprintln"] = func(c *Ctx, fn *ssa.Function, a []Value) Value { return c.str("<fmt.Sprintln>\n") }
	m["fmt.Errorf"] = func(c *Ctx, fn *ssa.Function, a []Value) Value { return c.mkError(c.fmtResult(a, 0)) }
	zeroErr := func(c *Ctx, fn *ssa.Function, a []Value) Value { return TupleVal{c.goInt(0), Iface{}} }
	m["fmt.Fprintf"] = func(c *Ctx, fn *ssa.Function, a []Value) Value {
		// format (exactly when everything is concrete, see fmtResult) and hand the bytes to the writer's Write
		w, ok := a[0].(Iface)
		if !ok || w.T == nil {
			return TupleVal{c.goInt(0), Iface{}}
		}
		str := c.fmtResult(a, 1)
		wm := c.Prog.LookupMethod(w.T, nil, "Write")
		if wm == nil {
			return TupleVal{c.goInt(int64(len(str.B))), Iface{}}
		}
		arr := &ArrayVal{E: make([]Value, len(str.B))}
		for i, b := range str.B {
			arr.E[i] = b
		}
		buf := SliceVal{Base: Ptr{C: c.newCell(arr, "fprintf")}, Len: len(str.B), Cap: len(str.B)}
		return c.CallFn(wm, []Value{w.V, buf}, nil)
	}
	m["fmt.Fprintln"] = zeroErr
	m["fmt.Fprint"] = zeroErr
	m["fmt.Printf"] = zeroErr
	m["fmt.Println"] = zeroErr
	m["fmt.Print"] = zeroErr
	nop := func(c *Ctx, fn *ssa.Function, a []Value) Value { return nil }
	m["log.Printf"] = nop
	m["log.Println"] = nop
	m["log.Print"] = nop
	m["log.Fatalf"] = func(c *Ctx, fn *ssa.Function, a []Value) Value {
		c.abort("exit", "log.Fatalf")
		return nil
	}
	m["os.Exit"] = func(c *Ctx, fn *ssa.Function, a []Value) Value {
		c.abort("exit", "os.Exit")
		return nil
	}
	m["(*sync.Mutex).Lock"] = func(c *Ctx, fn *ssa.Function, a []Value) Value {
		if c.rec != nil {
			c.concEvent(ConcEvent{Kind: "mu_lock", Field: c.concObj(a[0].(Ptr))})
		}
		return nil
	}
	m["(*sync.Mutex).Unlock"] = func(c *Ctx, fn *ssa.Function, a []Value) Value {
		if c.rec != nil {
			c.concEvent(ConcEvent{Kind: "mu_unlock", Field: c.concObj(a[0].(Ptr))})
		}
		return nil
	}
	m["(*sync.RWMutex).Lock"] = nop
	m["(*sync.RWMutex).Unlock"] = nop
	m["(*sync.RWMutex).RLock"] = nop
	m["(*sync.RWMutex).RUnlock"] = nop
	m["(*sync.Once).Do"] = func(c *Ctx, fn *ssa.Function, a []Value) Value {
		p := a[0].(Ptr)
		if c.rec != nil {
			// the thread may or may not be the first caller: fork on a fresh symbol
			first, name := c.concSym("once", "Bool")
			c.concEvent(ConcEvent{Kind: "once_begin", Field: c.concObj(p), Sym: name})
			if c.decide(first) {
				c.callValue(a[1], nil, nil)
				c.concEvent(ConcEvent{Kind: "once_end", Field: c.concObj(p)})
			}
			return nil
		}
		if c.onceDone[p.C] {
			return nil
		}
		c.onceDone[p.C] = true
		c.callValue(a[1], nil, nil)
		return nil
	}
	// sync.Pool: a per-path LIFO of the values put (the documented contract allows any of them, or a New one)
	m["(*sync.Pool).Put"] = func(c *Ctx, fn *ssa.Function, a []Value) Value {
		p := a[0].(Ptr)
		if c.pools == nil {
			c.pools = map[*Cell][]Value{}
		}
		c.pools[p.C] = append(c.pools[p.C], a[1])
		return nil
	}
	m["(*sync.Pool).Get"] = func(c *Ctx, fn *ssa.Function, a []Value) Value {
		p := a[0].(Ptr)
		if l := c.pools[p.C]; len(l) > 0 {
			v := l[len(l)-1]
			c.pools[p.C] = l[:len(l)-1]
			return v
		}
		// field "New func() any" is the last field of sync.Pool
		st := p.load().(*StructVal)
		if nf, ok := st.F[len(st.F)-1].(*FuncVal); ok && nf != nil {
			return c.callValue(nf, nil, nil)
		}
		return Iface{}
	}
	// sync.WaitGroup: a concrete counter per WaitGroup object. Without goroutines a Wait on a
	// positive counter never returns (reported as a deadlock); a negative counter panics as in sync.
	wgAdd := func(c *Ctx, p Ptr, d int64) {
		if c.wgs == nil {
			c.wgs = map[string]int64{}
		}
		k := c.ptrKey(p)
		c.wgs[k] += d
		if c.wgs[k] < 0 {
			c.goPanic("waitgroup", "sync: negative WaitGroup counter")
		}
	}
	m["(*sync.WaitGroup).Add"] = func(c *Ctx, fn *ssa.Function, a []Value) Value {
		d, ok := c.constInt(a[1].(*Term), true)
		if !ok {
			c.unsupported("sync.WaitGroup.Add of a symbolic delta")
		}
		if c.rec != nil {
			c.concEvent(ConcEvent{Kind: "wg_add", Field: c.concObj(a[0].(Ptr)), N: d})
			return nil
		}
		wgAdd(c, a[0].(Ptr), d)
		return nil
	}
	m["(*sync.WaitGroup).Done"] = func(c *Ctx, fn *ssa.Function, a []Value) Value {
		if c.rec != nil {
			c.concEvent(ConcEvent{Kind: "wg_add", Field: c.concObj(a[0].(Ptr)), N: -1})
			return nil
		}
		wgAdd(c, a[0].(Ptr), -1)
		return nil
	}
	m["(*sync.WaitGroup).Wait"] = func(c *Ctx, fn *ssa.Function, a []Value) Value {
		if c.rec != nil {
			c.concEvent(ConcEvent{Kind: "wg_wait", Field: c.concObj(a[0].(Ptr))})
			return nil
		}
		if c.wgs[c.ptrKey(a[0].(Ptr))] > 0 {
			c.abort("deadlock", "sync.WaitGroup.Wait with a positive counter and nobody left to call Done")
		}
		return nil
	}
	m["runtime.Gosched"] = nop

	// math
	f1 := func(f func(x *Term) *Term) modelFn {
		return func(c *Ctx, fn *ssa.Function, a []Value) Value { return f(a[0].(*Term)) }
	}
	m["math.Floor"] = f1(func(x *Term) *Term { return FPRound("RTN", x) })
	m["math.Ceil"] = f1(func(x *Term) *Term { return FPRound("RTP", x) })
	m["math.Trunc"] = f1(func(x *Term) *Term { return FPRound("RTZ", x) })
	m["math.RoundToEven"] = f1(func(x *Term) *Term { return FPRound("RNE", x) })
	m["math.Round"] = f1(func(x *Term) *Term { return FPRound("RNA", x) })
	m["math.Abs"] = f1(FPAbs)
	m["math.Copysign"] = func(c *Ctx, fn *ssa.Function, a []Value) Value {
		f, sign := a[0].(*Term), a[1].(*Term)
		if f.IsConst() && sign.IsConst() {
			return FPConst(math.Copysign(f.F, sign.F))
		}
		// (the sign bit of a NaN sign operand is outside the model: SMT-LIB has one NaN)
		return Ite(FPIsNeg(sign), FPNeg(FPAbs(f)), FPAbs(f))
	}
	m["strings.Clone"] = func(c *Ctx, fn *ssa.Function, a []Value) Value { return a[0] }
	m["internal/stringslite.Clone"] = m["strings.Clone"]
	m["math.Hypot"] = func(c *Ctx, fn *ssa.Function, a []Value) Value {
		// the portable implementation behind the assembly stub
		return c.CallFn(fn.Pkg.Func("hypot"), a, nil)
	}
	m["math.IsNaN"] = f1(FPIsNaN)
	m["math.Signbit"] = func(c *Ctx, fn *ssa.Function, a []Value) Value {
		x := a[0].(*Term)
		if x.IsConst() {
			return BoolConst(math.Signbit(x.F))
		}
		// sign bit including NaN sign is unobservable in SMT; treat NaN as positive
		return FPIsNeg(x)
	}
	m["math.IsInf"] = func(c *Ctx, fn *ssa.Function, a []Value) Value {
		x := a[0].(*Term)
		sgn := a[1].(*Term)
		pos := And(FPIsInf(x), Not(FPIsNeg(x)))
		neg := And(FPIsInf(x), FPIsNeg(x))
		var sPos, sNeg *Term
		if c.IntMode {
			sPos, sNeg = ILt(IntConst64(0), sgn), ILt(sgn, IntConst64(0))
		} else {
			z := BVConst64(0, 64)
			sPos, sNeg = BVSlt(z, sgn), BVSlt(sgn, z)
		}
		return Or(And(sPos, pos), And(sNeg, neg), And(Not(sPos), Not(sNeg), FPIsInf(x)))
	}
	m["math.Inf"] = func(c *Ctx, fn *ssa.Function, a []Value) Value {
		sgn := a[0].(*Term)
		var nonneg *Term
		if c.IntMode {
			nonneg = ILe(IntConst64(0), sgn)
		} else {
			nonneg = BVSle(BVConst64(0, 64), sgn)
		}
		return Ite(nonneg, FPConst(math.Inf(1)), FPConst(math.Inf(-1)))
	}
	m["math.NaN"] = func(c *Ctx, fn *ssa.Function, a []Value) Value { return FPConst(math.NaN()) }
	m["math.Float64frombits"] = func(c *Ctx, fn *ssa.Function, a []Value) Value {
		if c.IntMode {
			c.unsupported("Float64frombits in int mode")
		}
		return FPFromBits(a[0].(*Term))
	}
	m["math.Float64bits"] = func(c *Ctx, fn *ssa.Function, a []Value) Value {
		x := a[0].(*Term)
		if x.IsConst() {
			return c.mkInt(new(big.Int).SetUint64(math.Float64bits(x.F)), 64, false)
		}
		if c.IntMode {
			c.unsupported("Float64bits in int mode")
		}
		b := Var(c.freshName("fbits"), SBV(64))
		// NaN has many encodings; the canonical one is assumed
		c.assume(Eq(FPFromBits(b), x))
		return b
	}
	m["math.Ldexp"] = func(c *Ctx, fn *ssa.Function, a []Value) Value {
		frac, exp := a[0].(*Term), a[1].(*Term)
		if frac.IsConst() && exp.IsConst() {
			return FPConst(math.Ldexp(frac.F, int(exp.SignedVal().Int64())))
		}
		if c.IntMode {
			c.unsupported("math.Ldexp in int mode")
		}
		// exact power of two as a double: exponent field = exp + 1023, valid for -1022 <= exp <= 1023
		inRange := And(BVSle(BVConst64(-1022, 64), exp), BVSle(exp, BVConst64(1023, 64)))
		c.modelGuard(inRange, "math.Ldexp exponent outside [-1022,1023] is outside the model")
		e11 := Extract(10, 0, BVAdd(exp, BVConst64(1023, 64)))
		bits := Concat(Concat(BVConst64(0, 1), e11), BVConst64(0, 52))
		return FPMul(frac, FPFromBits(bits))
	}
	m["math.Frexp"] = func(c *Ctx, fn *ssa.Function, a []Value) Value {
		f := a[0].(*Term)
		if f.IsConst() {
			fr, ex := math.Frexp(f.F)
			return TupleVal{FPConst(fr), c.goInt(int64(ex))}
		}
		if c.IntMode {
			c.unsupported("math.Frexp in int mode")
		}
		special := Or(FPIsNaN(f), FPIsInf(f), FPEq(f, FPConst(0)))
		if c.decide(special) {
			return TupleVal{f, c.goInt(0)}
		}
		b := Var(c.freshName("fbits"), SBV(64))
		c.assume(Eq(FPFromBits(b), f))
		e := Extract(62, 52, b)
		c.modelGuard(Not(Eq(e, BVConst64(0, 11))), "math.Frexp of a subnormal is outside the model")
		fbits := Concat(Concat(Extract(63, 63, b), BVConst64(1022, 11)), Extract(51, 0, b))
		return TupleVal{FPFromBits(fbits), BVSub(ZeroExt(53, e), BVConst64(1022, 64))}
	}
	m["math.Mod"] = func(c *Ctx, fn *ssa.Function, a []Value) Value {
		x, y := a[0].(*Term), a[1].(*Term)
		if x.IsConst() && y.IsConst() {
			return FPConst(math.Mod(x.F, y.F))
		}
		if c.Ex.Havoc["math.Mod:contract"] {
			// C fmod has no usable SMT counterpart (fp.rem: unknown at 60 s in z3 5.1 and cvc5 1.0), so the
			// result is a fresh value constrained by fmod's contract only: NaN for a NaN/infinite x or a
			// NaN/zero y; x itself for an infinite y; otherwise finite, |m| < |y|, |m| <= |x| and the sign of x.
			// Everything proved under the contract holds for the real function.
			c.Ex.noteModel("math.Mod: fresh result constrained by fmod's contract (sign of x, |m| < |y|, |m| <= |x|, special values)")
			// the same operands give the same result (fmod is a function)
			fkey := x.Key() + "|" + y.Key()
			if c.fmodCache == nil {
				c.fmodCache = map[string]*Term{}
			}
			if prev, ok := c.fmodCache[fkey]; ok {
				return prev
			}
			m := Var(c.freshName("fmod"), SFP)
			c.fmodCache[fkey] = m
			special := Or(FPIsNaN(x), FPIsNaN(y), FPIsInf(x), FPEq(y, FPConst(0)))
			yInf := And(Not(special), FPIsInf(y))
			normal := And(Not(special), Not(FPIsInf(y)))
			c.assume(And(
				Or(Not(special), FPIsNaN(m)),
				Or(Not(yInf), And(Not(FPIsNaN(m)), Eq(m, x))),
				Or(Not(normal), And(Not(FPIsNaN(m)), Not(FPIsInf(m)), FPLt(FPAbs(m), FPAbs(y)), FPLe(FPAbs(m), FPAbs(x)), Eq(FPIsNeg(m), FPIsNeg(x))))))
			return m
		}
		if c.Ex.Havoc["math.Mod"] {
			c.Ex.noteModel("havoc:math.Mod (any float64 result)")
			return c.havocResult(fn)
		}
		c.unsupported("math.Mod on symbolic operands (C fmod has no SMT-LIB counterpart)")
		return nil
	}
	// strconv.FormatFloat / ParseFloat. Concrete operands: computed. Symbolic: shortest/correctly
	// rounded decimal conversion has no SMT counterpart; under "strconv.FormatFloat:contract" the pair
	// ParseFloat(FormatFloat(f, 'f', prec, 64), 64) - f rounded to prec decimal places - is a fresh value
	// constrained by what correct rounding implies (below); otherwise havoc if asked for.
	m["strconv.FormatFloat"] = func(c *Ctx, fn *ssa.Function, a []Value) Value {
		f := a[0].(*Term)
		fm, ok1 := c.constInt(a[1].(*Term), false)
		prec, ok2 := c.constInt(a[2].(*Term), true)
		bits, ok3 := c.constInt(a[3].(*Term), true)
		if f.IsConst() && ok1 && ok2 && ok3 {
			return c.str(strconv.FormatFloat(f.F, byte(fm), int(prec), int(bits)))
		}
		if c.Ex.Havoc["strconv.FormatFloat:contract"] && ok1 && fm == 'f' && ok2 && prec >= 0 && ok3 && bits == 64 {
			c.Ex.noteModel("strconv.FormatFloat(f,'f',prec,64) -> ParseFloat: fresh result constrained by correct rounding to prec places (sign kept, |f| < 0.4*10^-prec gives zero, |f| > 0.6*10^-prec does not, |r-f| <= 0.51*10^-prec + |f|*2^-52, integral f unchanged)")
			return &StrVal{B: c.str("<float-text>").B, FF: &floatText{F: f, Prec: int(prec)}}
		}
		if c.Ex.Havoc["strconv.FormatFloat:shortest"] && ok1 && (fm == 'e' || fm == 'f') && ok2 && prec == -1 && ok3 && bits == 64 {
			c.Ex.noteModel("strconv.FormatFloat(f, 'e'|'f', -1, 64): the shortest decimal of f is abstract (1..17 digits, no leading or trailing zero digit, exponent -324..308, the same for every call on the same f); the layout of the text from it is exact")
			if c.decide(FPEq(f, FPConst(0))) {
				z := "0"
				if fm == 'e' {
					z = "0e+00"
				}
				if c.decide(FPIsNeg(f)) {
					z = "-" + z
				}
				return c.str(z)
			}
			return c.renderShortest(c.shortestDecimal(f), byte(fm))
		}
		if c.Ex.Havoc["strconv.FormatFloat"] {
			c.Ex.noteModel("havoc:strconv.FormatFloat")
			return c.havocResult(fn)
		}
		if fn.Blocks != nil {
			c.skipModelFor = fn
			return c.CallFn(fn, a, nil)
		}
		c.unsupported("strconv.FormatFloat on a symbolic float")
		return nil
	}
	m["strconv.Atoi"] = func(c *Ctx, fn *ssa.Function, a []Value) Value {
		s := a[0].(*StrVal)
		if cs, ok := s.concrete(); ok {
			v, err := strconv.Atoi(cs)
			if err != nil {
				return TupleVal{c.goInt(int64(v)), c.mkError(c.str(err.Error()))}
			}
			return TupleVal{c.goInt(int64(v)), Iface{}}
		}
		return c.parseIntModel(s, 10, 64)
	}
	m["strconv.ParseFloat"] = func(c *Ctx, fn *ssa.Function, a []Value) Value {
		s := a[0].(*StrVal)
		if s.FF != nil {
			f, prec := s.FF.F, s.FF.Prec
			key := f.Key() + "|" + strconv.Itoa(prec)
			if c.fmodCache == nil {
				c.fmodCache = map[string]*Term{}
			}
			r, seen := c.fmodCache["ff|"+key]
			if !seen {
				r = Var(c.freshName("rounded"), SFP)
				c.fmodCache["ff|"+key] = r
				u := math.Pow(10, float64(-prec)) // 0 when 10^-prec underflows: then every f is "large"
				af, ar := FPAbs(f), FPAbs(r)
				finite := And(Not(FPIsNaN(f)), Not(FPIsInf(f)))
				zero := FPEq(r, FPConst(0))
				diff := FPAbs(FPSub(r, f))
				bound := FPAdd(FPConst(0.51*u), FPMul(af, FPConst(math.Ldexp(1, -52))))
				integral := FPEq(FPRound("RTZ", f), f)
				c.assume(And(Or(Not(finite), And(
					Not(FPIsNaN(r)), Not(FPIsInf(r)),
					Eq(FPIsNeg(r), FPIsNeg(f)),
					Or(Not(FPLt(af, FPConst(0.4*u))), zero),
					Or(Not(FPLt(FPConst(0.6*u), af)), Not(zero)),
					FPLe(diff, bound),
					Or(Not(integral), FPEq(r, f)),
					FPLe(ar, FPAdd(af, FPConst(u))),
				)),
					// NaN and infinities print as text that parses back to themselves
					Or(finite, Or(And(FPIsNaN(f), FPIsNaN(r)), Eq(r, f)))))

			}
			return TupleVal{r, Iface{}}
		}
		if cs, ok := s.concrete(); ok {
			bits, okb := c.constInt(a[1].(*Term), true)
			if okb {
				v, err := strconv.ParseFloat(cs, int(bits))
				if err != nil {
					return TupleVal{FPConst(v), c.mkError(c.str(err.Error()))}
				}
				return TupleVal{FPConst(v), Iface{}}
			}
		}
		if c.Ex.Havoc["strconv.ParseFloat"] {
			c.Ex.noteModel("havoc:strconv.ParseFloat")
			return c.havocResult(fn)
		}
		// symbolic text that no model wrote (e.g. source bytes): interpret strconv's own code
		if fn.Blocks != nil {
			c.skipModelFor = fn
			return c.CallFn(fn, a, nil)
		}
		c.unsupported("strconv.ParseFloat on symbolic text")
		return nil
	}
	m["math.Pow"] = func(c *Ctx, fn *ssa.Function, a []Value) Value {
		x, y := a[0].(*Term), a[1].(*Term)
		if x.IsConst() && y.IsConst() {
			return FPConst(math.Pow(x.F, y.F))
		}
		// constant base, exponent converted from an integer the path condition confines to
		// a few values (10 ** float64(-ndigits)): case split on the integer
		if x.IsConst() && (y.Op == "to_fp_signed" || y.Op == "to_fp_int") && c.fewValues(y.Args[0], 40) {
			v := c.concretize(y.Args[0], true, -1<<31, 1<<31, "math.Pow exponent")
			return FPConst(math.Pow(x.F, float64(v)))
		}
		if c.Ex.Havoc["math.Pow"] {
			c.Ex.noteModel("havoc:math.Pow (any float64 result)")
			return c.havocResult(fn)
		}
		c.unsupported("math.Pow on symbolic operands")
		return nil
	}
	m["math.Sqrt"] = func(c *Ctx, fn *ssa.Function, a []Value) Value {
		x := a[0].(*Term)
		if x.IsConst() {
			return FPConst(math.Sqrt(x.F))
		}
		t := mk(SFP, "fp.sqrt", x)
		return t
	}

	// strings / bytes helpers that bottom out in assembly
	m["strings.IndexByte"] = func(c *Ctx, fn *ssa.Function, a []Value) Value {
		return c.indexByte(a[0].(*StrVal).B, a[1].(*Term))
	}
	m["internal/bytealg.IndexByteString"] = m["strings.IndexByte"]
	m["internal/bytealg.IndexByte"] = func(c *Ctx, fn *ssa.Function, a []Value) Value {
		return c.indexByte(c.sliceBytes(a[0].(SliceVal)), a[1].(*Term))
	}
	m["bytes.IndexByte"] = m["internal/bytealg.IndexByte"]
	m["internal/bytealg.Compare"] = func(c *Ctx, fn *ssa.Function, a []Value) Value {
		x := &StrVal{B: c.sliceBytes(a[0].(SliceVal))}
		y := &StrVal{B: c.sliceBytes(a[1].(SliceVal))}
		return Ite(c.strLess(x, y, false), c.goInt(-1), Ite(c.strLess(y, x, false), c.goInt(1), c.goInt(0)))
	}
	m["bytes.Compare"] = m["internal/bytealg.Compare"]
	m["strings.Index"] = func(c *Ctx, fn *ssa.Function, a []Value) Value {
		return c.indexStr(a[0].(*StrVal).B, a[1].(*StrVal).B)
	}
	m["strings.Contains"] = func(c *Ctx, fn *ssa.Function, a []Value) Value {
		i := c.indexStr(a[0].(*StrVal).B, a[1].(*StrVal).B)
		return Not(Eq(i, c.goInt(-1)))
	}
	m["strings.Count"] = func(c *Ctx, fn *ssa.Function, a []Value) Value {
		return c.countStr(a[0].(*StrVal), a[1].(*StrVal))
	}
	m["internal/bytealg.CountString"] = func(c *Ctx, fn *ssa.Function, a []Value) Value {
		s := a[0].(*StrVal)
		n := c.goInt(0)
		for _, b := range s.B {
			n = Ite(Eq(b, a[1].(*Term)), c.intBinop(token.ADD, n, c.goInt(1), 64, true).(*Term), n)
		}
		return n
	}
	m["unicode/utf8.RuneCountInString"] = func(c *Ctx, fn *ssa.Function, a []Value) Value {
		s := a[0].(*StrVal)
		n := 0
		for i := 0; i < len(s.B); {
			_, k := c.decodeRune(s.B[i:])
			i += k
			n++
		}
		return c.goInt(int64(n))
	}
	m["unicode/utf8.DecodeRuneInString"] = func(c *Ctx, fn *ssa.Function, a []Value) Value {
		r, n := c.decodeRune(a[0].(*StrVal).B)
		return TupleVal{r, c.goInt(int64(n))}
	}
	m["unicode/utf8.DecodeRune"] = func(c *Ctx, fn *ssa.Function, a []Value) Value {
		r, n := c.decodeRune(c.sliceBytes(a[0].(SliceVal)))
		return TupleVal{r, c.goInt(int64(n))}
	}
	m["(*strings.asciiSet).contains"] = func(c *Ctx, fn *ssa.Function, a []Value) Value {
		// the set is a concrete [8]uint32 bitmap; membership of a (possibly symbolic) byte as a disjunction
		arr := a[0].(Ptr).load().(*ArrayVal)
		ch := a[1].(*Term)
		var alts []*Term
		for w := 0; w < 8; w++ {
			word, ok := c.constInt(arr.E[w].(*Term), false)
			if !ok {
				c.unsupported("symbolic asciiSet")
			}
			for b := 0; b < 32; b++ {
				if word>>uint(b)&1 == 1 {
					alts = append(alts, Eq(ch, c.byteT(byte(w*32+b))))
				}
			}
		}
		return Or(alts...)
	}
	m["strings.Join"] = func(c *Ctx, fn *ssa.Function, a []Value) Value {
		sl := a[0].(SliceVal)
		sep := a[1].(*StrVal)
		var out []*Term
		for i := 0; i < sl.Len; i++ {
			if i > 0 {
				out = append(out, sep.B...)
			}
			out = append(out, sl.get(i).(*StrVal).B...)
		}
		return &StrVal{B: out}
	}
	m["strings.Repeat"] = func(c *Ctx, fn *ssa.Function, a []Value) Value {
		s := a[0].(*StrVal)
		n := c.sizeArg(a[1].(*Term), "strings.Repeat count")
		if n < 0 {
			c.goPanic("repeat", "strings: negative Repeat count")
		}
		var out []*Term
		for i := 0; i < n; i++ {
			out = append(out, s.B...)
		}
		return &StrVal{B: out}
	}
	// strings.Builder: the buffer is field 1 ("buf []byte") of the struct
	sbAppend := func(c *Ctx, recv Value, bs []*Term) {
		p := recv.(Ptr)
		if p.IsNil() {
			c.goPanic("nil", "nil *strings.Builder")
		}
		bp := p.sub(1)
		cur := bp.load().(SliceVal)
		elems := make([]Value, len(bs))
		for i, b := range bs {
			elems[i] = b
		}
		if len(elems) > 0 {
			bp.store(c.appendSlice(cur, elems, nil))
		}
	}
	m["(*strings.Builder).WriteString"] = func(c *Ctx, fn *ssa.Function, a []Value) Value {
		s := a[1].(*StrVal)
		sbAppend(c, a[0], s.B)
		return TupleVal{c.goInt(int64(len(s.B))), Iface{}}
	}
	m["(*strings.Builder).WriteByte"] = func(c *Ctx, fn *ssa.Function, a []Value) Value {
		sbAppend(c, a[0], []*Term{a[1].(*Term)})
		return Iface{}
	}
	m["(*strings.Builder).WriteRune"] = func(c *Ctx, fn *ssa.Function, a []Value) Value {
		bs := c.encodeRune(a[1].(*Term))
		sbAppend(c, a[0], bs)
		return TupleVal{c.goInt(int64(len(bs))), Iface{}}
	}
	m["(*strings.Builder).Write"] = func(c *Ctx, fn *ssa.Function, a []Value) Value {
		bs := c.sliceBytes(a[1].(SliceVal))
		sbAppend(c, a[0], bs)
		return TupleVal{c.goInt(int64(len(bs))), Iface{}}
	}
	m["(*strings.Builder).String"] = func(c *Ctx, fn *ssa.Function, a []Value) Value {
		cur := a[0].(Ptr).sub(1).load().(SliceVal)
		return &StrVal{B: c.sliceBytes(cur)}
	}
	m["(*strings.Builder).Len"] = func(c *Ctx, fn *ssa.Function, a []Value) Value {
		cur := a[0].(Ptr).sub(1).load().(SliceVal)
		return c.goInt(int64(cur.Len))
	}
	m["(*strings.Builder).Grow"] = func(c *Ctx, fn *ssa.Function, a []Value) Value { return nil }
	m["(*strings.Builder).Reset"] = func(c *Ctx, fn *ssa.Function, a []Value) Value {
		a[0].(Ptr).sub(1).store(SliceVal{Nil: true})
		return nil
	}
	m["reflect.ValueOf"] = func(c *Ctx, fn *ssa.Function, a []Value) Value {
		return &OpaqueVal{Tag: "reflect.Value", X: a[0]}
	}
	m["(reflect.Value).Pointer"] = func(c *Ctx, fn *ssa.Function, a []Value) Value {
		ov, ok := a[0].(*OpaqueVal)
		if !ok {
			c.unsupported("reflect.Value.Pointer on %T", a[0])
		}
		v := ov.X
		if i, isI := v.(Iface); isI {
			v = i.V
		}
		switch x := v.(type) {
		case *MapVal:
			if x == nil {
				return c.mkInt64(0, 64, false)
			}
			return c.mkInt64(int64(x.id)*4096, 64, false)
		case SliceVal:
			if x.Nil {
				return c.mkInt64(0, 64, false)
			}
			return c.mkInt64(int64(x.Base.C.id)*4096+int64(x.Off), 64, false)
		case Ptr:
			if x.IsNil() {
				return c.mkInt64(0, 64, false)
			}
			return c.mkInt64(int64(x.C.id)*4096, 64, false)
		}
		c.unsupported("reflect.Value.Pointer on %T", v)
		return nil
	}
	m["strconv.ParseInt"] = func(c *Ctx, fn *ssa.Function, a []Value) Value {
		s := a[0].(*StrVal)
		base, okb := c.constInt(a[1].(*Term), true)
		if !okb {
			// symbolic base: case split over the feasible values (callers validate it to a small range)
			base, okb = c.concretize(a[1].(*Term), true, -1<<31, 1<<31, "strconv base"), true
		}
		bits, okc := c.constInt(a[2].(*Term), true)
		if cs, ok := s.concrete(); ok && okb && okc {
			v, err := strconv.ParseInt(cs, int(base), int(bits))
			if err != nil {
				return TupleVal{c.goInt(v), c.mkError(c.str(err.Error()))}
			}
			return TupleVal{c.goInt(v), Iface{}}
		}
		if bits == 0 {
			bits = 64
		}
		if !okb || !okc || base < 2 || base > 36 || bits < 8 || bits > 64 {
			c.unsupported("strconv.ParseInt with symbolic digits needs constant base in 2..36 and bitSize 8..64")
		}
		return c.parseIntModel(s, int(base), int(bits))
	}
	m["strconv.ParseUint"] = func(c *Ctx, fn *ssa.Function, a []Value) Value {
		s := a[0].(*StrVal)
		base, okb := c.constInt(a[1].(*Term), true)
		bits, okc := c.constInt(a[2].(*Term), true)
		if cs, ok := s.concrete(); ok && okb && okc {
			v, err := strconv.ParseUint(cs, int(base), int(bits))
			r := c.mkInt(new(big.Int).SetUint64(v), 64, false)
			if err != nil {
				return TupleVal{r, c.mkError(c.str(err.Error()))}
			}
			return TupleVal{r, Iface{}}
		}
		if bits == 0 {
			bits = 64
		}
		if !okb || !okc || base < 2 || base > 36 || bits < 8 || bits > 64 {
			c.unsupported("strconv.ParseUint with symbolic digits needs constant base in 2..36 and bitSize 8..64")
		}
		fail := func(msg string) Value {
			return TupleVal{c.mkInt64(0, 64, false), c.mkError(c.str("strconv.ParseUint: " + msg))}
		}
		v, valid := c.parseDigitsSym(s.B, int(base))
		if !c.decide(valid) {
			return fail("invalid syntax")
		}
		hi := c.bigConst(new(big.Int).Sub(pow2(int(bits)), big.NewInt(1)))
		var fits *Term
		if c.IntMode {
			fits = ILe(v, hi)
		} else {
			fits = BVSle(v, hi)
		}
		if !c.decide(fits) {
			return fail("value out of range")
		}
		if c.IntMode {
			return TupleVal{v, Iface{}}
		}
		return TupleVal{Extract(63, 0, v), Iface{}}
	}
	m["strconv.IsPrint"] = func(c *Ctx, fn *ssa.Function, a []Value) Value {
		r := a[0].(*Term)
		if v, ok := c.constInt(r, true); ok {
			return BoolConst(strconv.IsPrint(rune(v)))
		}
		// printable ASCII is decided exactly; everything else is an uninterpreted-but-fixed predicate
		isASCII := c.runeIn(r, 0, 0x7f)
		printable := c.runeIn(r, 0x20, 0x7e)
		if c.decide(isASCII) {
			return printable
		}
		c.unsupported("strconv.IsPrint on symbolic non-ASCII rune")
		return nil
	}
}

func (c *Ctx) sliceBytes(s SliceVal) []*Term {
	out := make([]*Term, s.Len)
	for i := 0; i < s.Len; i++ {
		out[i] = s.get(i).(*Term)
	}
	return out
}

func (c *Ctx) indexByte(s []*Term, b *Term) *Term {
	r := c.goInt(-1)
	for i := len(s) - 1; i >= 0; i-- {
		r = Ite(Eq(s[i], b), c.goInt(int64(i)), r)
	}
	return r
}

func (c *Ctx) matchAt(s, sub []*Term, i int) *Term {
	var cs []*Term
	for k := range sub {
		cs = append(cs, Eq(s[i+k], sub[k]))
	}
	return And(cs...)
}

func (c *Ctx) indexStr(s, sub []*Term) *Term {
	r := c.goInt(-1)
	for i := len(s) - len(sub); i >= 0; i-- {
		r = Ite(c.matchAt(s, sub, i), c.goInt(int64(i)), r)
	}
	return r
}

// countStr: non-overlapping occurrences (strings.Count semantics)
func (c *Ctx) countStr(s, sub *StrVal) *Term {
	if len(sub.B) == 0 {
		n := 0
		for i := 0; i < len(s.B); {
			_, k := c.decodeRune(s.B[i:])
			i += k
			n++
		}
		return c.goInt(int64(n + 1))
	}
	n := 0
	for i := 0; i+len(sub.B) <= len(s.B); {
		if c.decide(c.matchAt(s.B, sub.B, i)) {
			n++
			i += len(sub.B)
		} else {
			i++
		}
	}
	return c.goInt(int64(n))
}
