package sym

import (
	"fmt"
	"math"
	"os"
	"runtime/debug"
	"sort"
	"strconv"
	"strings"
	"sync"
	"time"

	"golang.org/x/tools/go/ssa"
)

// Tokens bounds the number of paths executing at once across all explorers.
var Tokens chan struct{}

type workItem struct {
	prefix []int
	model  Model
}

type Stats struct {
	Paths, Completed, Infeasible, Unsupported, UnwindExceeded, BudgetCut, BoundCut, Asserted, Panicked, EngineErrors int
	Obligations, Discharged, Inconclusive                                                                            int
	FeasQueries, AssertQueries, UnknownBranches, SyntacticPrunes                                                     int
	Steps                                                                                                            int
	PathTime                                                                                                         time.Duration
}

// KnownFinding describes an already triaged defect.
type KnownFinding struct {
	Property string         `json:"property"`
	Harness  string         `json:"harness"`
	Key      string         `json:"key"`               // "assert:<msg>" or "panic:<kind>@<site>"
	Region   string         `json:"region"`            // SMT-LIB Bool over harness inputs; "" or "true" = whole key
	Choices  map[string]int `json:"choices,omitempty"` // concrete verifChoice values the finding is limited to
	What     string         `json:"what"`
	Status   string         `json:"status"` // "known" or "fixed: ..."
}

type region struct {
	kf   *KnownFinding
	term *Term
}

type Violation struct {
	Harness    string            `json:"harness"`
	Key        string            `json:"key"`
	Msg        string            `json:"msg"`
	Inputs     map[string]string `json:"inputs"`
	Order      []string          `json:"order"`
	Decisions  []int             `json:"decisions"`
	Count      int               `json:"count"`
	PanicMsg   string            `json:"panic_msg,omitempty"`
	// Alts: further counterexamples of the same assertion from other paths (at most 4). Under a
	// contract model the solver's witness for the modelled function's result need not be what the
	// real function returns for those inputs; the native replay then tries the alternatives too.
	Alts []*Violation `json:"alts,omitempty"`
	PkgDir     string            `json:"pkg_dir,omitempty"`
	ReplayFile string            `json:"replay_file,omitempty"`
	ReplayNote string            `json:"replay_note,omitempty"`
	Tier       int               `json:"tier"`
	Log        []string          `json:"log,omitempty"`
}

type ObligationSample struct {
	Harness   string `json:"harness"`
	Assertion string `json:"assertion"`
	Verdict   string `json:"verdict"`
	Decisions []int  `json:"path_decisions"`
	PCSize    int    `json:"pc_conjuncts"`
}

type HarnessResult struct {
	Name         string
	Stats        Stats
	Violations   []*Violation
	Known        map[string]*Violation // key: finding key → witness
	Inconclusive []string
	Unsupported  map[string]int
	Reached      map[string]bool
	Funcs        map[string]bool
	Models       map[string]bool
	Assumptions  map[string]bool
	Samples      []ObligationSample
	Distinct     map[string]bool // distinct (path, assertion) obligations
	Recovered    map[string]int
	Complete     bool
	Wall         time.Duration
	Aborts       map[string]int
	SolverStats  SolverStats
	Disagree     []string
	Vacuous      []string
}

type Explorer struct {
	Prog         *ssa.Program
	Solver       *Solver
	IntMode      bool
	BigW         int
	MaxSteps     int
	MaxDecisions int
	MaxSymLen    int
	MaxPaths     int
	Deadline     time.Time
	MapOrder     bool
	Havoc        map[string]bool
	RunInit      []string // "pkgpath.init#1"
	Known        []*KnownFinding
	// Conc: thread-trace recording mode; every completed path is handed to OnConcPath
	Conc       bool
	OnConcPath func(*ConcPath)
	Verbose      bool
	Tier         int
	Seed         int64

	Workers   int
	NewSolver func() *Solver

	mu      sync.Mutex
	work    []workItem
	active  int
	paths   int
	stopped bool
	res     *HarnessResult
	harness string
}

func (ex *Explorer) push(prefix []int, m Model) {
	ex.mu.Lock()
	ex.work = append(ex.work, workItem{prefix, m})
	ex.mu.Unlock()
}

func (ex *Explorer) noteModel(name string) {
	ex.mu.Lock()
	ex.res.Models[name] = true
	ex.mu.Unlock()
}
func (ex *Explorer) noteAssumption(s string) {
	ex.mu.Lock()
	ex.res.Assumptions[s] = true
	ex.mu.Unlock()
}
func (ex *Explorer) noteInconclusive(s string) {
	ex.mu.Lock()
	ex.res.Inconclusive = append(ex.res.Inconclusive, s)
	ex.mu.Unlock()
}
func (ex *Explorer) noteRecovered(p *goPanic) {
	ex.mu.Lock()
	ex.res.Recovered[p.Kind+"@"+p.Site]++
	ex.mu.Unlock()
}

func traceKey(trace []int, msg string) string {
	b := make([]byte, 0, len(trace)*2+len(msg)+1)
	for _, t := range trace {
		b = append(b, byte(t), byte(t>>8))
	}
	b = append(b, '|')
	b = append(b, msg...)
	return string(b)
}

func (ex *Explorer) noteObligation(c *Ctx, msg, verdict string) {
	key := traceKey(c.trace, msg)
	if c.wdistinct[key] {
		return
	}
	c.wdistinct[key] = true
	if verdict != "sat" && len(c.wdistinct) > 64 {
		return // samples are taken from the first obligations of each worker and from violations
	}
	ex.mu.Lock()
	defer ex.mu.Unlock()
	if !ex.res.Distinct[key] {
		ex.res.Distinct[key] = true
		if len(ex.res.Samples) < 6 || (verdict == "sat" && len(ex.res.Samples) < 12) {
			ex.res.Samples = append(ex.res.Samples, ObligationSample{ex.harness, msg, verdict, append([]int{}, c.trace...), len(c.pc)})
		}
	}
}

func (ex *Explorer) regionsFor(c *Ctx, key string) []region {
	var out []region
	for _, kf := range ex.Known {
		// Harness "*": the finding is identified by its call site (the key) whichever harness reaches it
		if (kf.Harness != ex.harness && kf.Harness != "*") || kf.Key != key || strings.HasPrefix(kf.Status, "fixed") {
			continue
		}
		txt := kf.Region
		if txt == "" {
			txt = "true"
		}
		match := true
		for name, want := range kf.Choices {
			if got, have := c.choices[name]; !have || got != want {
				match = false
			}
		}
		if !match {
			continue
		}
		var vars []*Term
		for _, n := range c.inputOrder {
			if v, ok := c.inputs[n]; ok {
				vars = append(vars, v)
			}
		}
		// a region may only mention inputs that exist on this path
		ok := true
		for _, name := range regionVars(txt) {
			if _, have := c.inputs[name]; !have {
				ok = false
			}
		}
		if !ok {
			continue
		}
		var t *Term
		if txt == "true" {
			t = True
		} else {
			t = Raw(txt, vars)
		}
		out = append(out, region{kf, t})
	}
	return out
}

// regionVars extracts identifiers from an SMT-LIB expression that look like input names.
func regionVars(s string) []string {
	var out []string
	f := strings.FieldsFunc(s, func(r rune) bool { return r == '(' || r == ')' || r == ' ' || r == '\n' || r == '\t' })
	for _, w := range f {
		if w == "" {
			continue
		}
		c := w[0]
		if (c >= 'a' && c <= 'z' || c >= 'A' && c <= 'Z') && !smtKeyword[w] && !strings.HasPrefix(w, "bv") {
			out = append(out, w)
		}
	}
	return out
}

var smtKeyword = map[string]bool{"and": true, "or": true, "not": true, "true": true, "false": true, "ite": true,
	"distinct": true, "let": true, "div": true, "mod": true, "abs": true, "bvult": true, "bvule": true, "bvslt": true, "bvsle": true,
	"bvadd": true, "bvsub": true, "bvneg": true, "bvand": true, "bvor": true, "bvxor": true, "bvnot": true, "bvsge": true, "bvsgt": true,
	"bvuge": true, "bvugt": true, "fp": true, "RNE": true, "RTZ": true, "NaN": true, "extract": true, "concat": true}

func (ex *Explorer) inputsOf(c *Ctx, m Model) (map[string]string, []string) {
	out := map[string]string{}
	for name, v := range c.inputs {
		var val *Term
		if m != nil {
			val = m[name]
		}
		if val == nil {
			val = zeroOf(v.S)
		}
		switch val.S.K {
		case KBool:
			if val.C.Sign() != 0 {
				out[name] = "true"
			} else {
				out[name] = "false"
			}
		case KBV:
			if c.bigInputs[name] {
				out[name] = val.SignedVal().String()
			} else {
				out[name] = val.C.String() // unsigned decimal; native side reinterprets
			}
		case KInt:
			out[name] = val.C.String()
		case KFP:
			out[name] = fmt.Sprintf("fbits:%d", f64bits(val.F))
		}
	}
	for name, i := range c.choices {
		out[name] = fmt.Sprint(i)
	}
	return out, append([]string{}, c.inputOrder...)
}

func (ex *Explorer) noteViolation(c *Ctx, key, msg string, m Model) {
	ex.mu.Lock()
	defer ex.mu.Unlock()
	for _, v := range ex.res.Violations {
		if v.Key == key {
			v.Count++
			if len(v.Alts) < 4 {
				in, order := ex.inputsOf(c, m)
				v.Alts = append(v.Alts, &Violation{Harness: ex.harness, Key: key, Msg: msg, Inputs: in, Order: order,
					Decisions: append([]int{}, c.trace...), Count: 1, Tier: ex.Tier, Log: append([]string{}, c.log...)})
			}
			return
		}
	}
	in, order := ex.inputsOf(c, m)
	ex.res.Violations = append(ex.res.Violations, &Violation{Harness: ex.harness, Key: key, Msg: msg, Inputs: in, Order: order,
		Decisions: append([]int{}, c.trace...), Count: 1, Tier: ex.Tier, Log: append([]string{}, c.log...)})
}

var slowPathMs, _ = strconv.Atoi(os.Getenv("VERIF_SLOWPATH_MS"))

// VERIF_PATHSTATS=name1,name2: count paths per value of these verifChoice names (diagnostics)
var (
	pathStatKeys []string
	pathStats    = map[string]int{}
	pathStatMu   sync.Mutex
)

func init() {
	if v := os.Getenv("VERIF_PATHSTATS"); v != "" {
		pathStatKeys = strings.Split(v, ",")
	}
}

// DumpPathStats prints the counters collected under VERIF_PATHSTATS.
func DumpPathStats() {
	if pathStatKeys == nil {
		return
	}
	type kv struct {
		k string
		v int
	}
	var l []kv
	for k, v := range pathStats {
		l = append(l, kv{k, v})
	}
	sort.Slice(l, func(i, j int) bool { return l[i].v > l[j].v })
	for i := 0; i < len(l) && i < 40; i++ {
		fmt.Fprintf(os.Stderr, "PATHSTAT %8d %s\n", l[i].v, l[i].k)
	}
}

func (ex *Explorer) noteKnown(kf *KnownFinding, c *Ctx, m Model) {
	ex.mu.Lock()
	defer ex.mu.Unlock()
	id := kf.Key + "|" + kf.Region
	if len(kf.Choices) > 0 {
		var ks []string
		for k := range kf.Choices {
			ks = append(ks, k)
		}
		sort.Strings(ks)
		for _, k := range ks {
			id += fmt.Sprintf("|%s=%d", k, kf.Choices[k])
		}
	}
	if _, ok := ex.res.Known[id]; ok {
		ex.res.Known[id].Count++
		return
	}
	in, order := ex.inputsOf(c, m)
	ex.res.Known[id] = &Violation{Harness: ex.harness, Key: kf.Key, Msg: kf.What, Inputs: in, Order: order, Decisions: append([]int{}, c.trace...), Count: 1, Tier: ex.Tier}
}

func (ex *Explorer) newCtx(item workItem, solver *Solver, st *Stats, wfuncs, wdistinct map[string]bool) *Ctx {
	return &Ctx{
		wdistinct: wdistinct,
		Prog:      ex.Prog, Ex: ex, IntMode: ex.IntMode, BigW: ex.BigW, S: solver, st: st, itemModel: item.model,
		prefix:  item.prefix,
		globals: map[*ssa.Global]*Cell{}, initing: map[*ssa.Global]bool{}, initFr: map[*ssa.Package]*frame{},
		inputs: map[string]*Term{}, choices: map[string]int{}, reached: map[string]bool{}, funcs: wfuncs,
		onceDone: map[*Cell]bool{}, bigInputs: map[string]bool{},
		model: Model{},
	}
}

// Run explores all paths of the harness function with ex.Workers workers.
func (ex *Explorer) Run(fn *ssa.Function) *HarnessResult {
	t0 := time.Now()
	ex.harness = fn.Name()
	ex.res = &HarnessResult{Name: fn.Name(), Known: map[string]*Violation{}, Unsupported: map[string]int{}, Reached: map[string]bool{},
		Funcs: map[string]bool{}, Models: map[string]bool{}, Assumptions: map[string]bool{}, Distinct: map[string]bool{}, Recovered: map[string]int{}, Aborts: map[string]int{}}
	ex.work = nil
	ex.paths = 0
	ex.active = 0
	ex.stopped = false
	ex.push(nil, Model{})
	n := ex.Workers
	if n <= 0 {
		n = 1
	}
	complete := true
	var total Stats
	var wg sync.WaitGroup
	for w := 0; w < n; w++ {
		wg.Add(1)
		go func() {
			defer wg.Done()
			solver := ex.NewSolver()
			defer solver.Close()
			var st Stats
			wfuncs := map[string]bool{}
			wdistinct := map[string]bool{}
			for {
				ex.mu.Lock()
				if ex.stopped {
					ex.mu.Unlock()
					break
				}
				if len(ex.work) == 0 {
					if ex.active == 0 {
						ex.mu.Unlock()
						break
					}
					ex.mu.Unlock()
					time.Sleep(2 * time.Millisecond)
					continue
				}
				if ex.paths >= ex.MaxPaths {
					ex.stopped = true
					complete = false
					ex.res.Inconclusive = append(ex.res.Inconclusive, fmt.Sprintf("path budget %d exhausted with %d prefixes pending", ex.MaxPaths, len(ex.work)))
					ex.mu.Unlock()
					break
				}
				if !ex.Deadline.IsZero() && time.Now().After(ex.Deadline) {
					ex.stopped = true
					complete = false
					ex.res.Inconclusive = append(ex.res.Inconclusive, fmt.Sprintf("time budget exhausted with %d prefixes pending after %d paths", len(ex.work), ex.paths))
					ex.mu.Unlock()
					break
				}
				item := ex.work[len(ex.work)-1]
				ex.work = ex.work[:len(ex.work)-1]
				ex.active++
				ex.paths++
				ex.mu.Unlock()
				if Tokens != nil {
					Tokens <- struct{}{}
				}
				c := ex.newCtx(item, solver, &st, wfuncs, wdistinct)
				if len(item.prefix) == 0 {
					c.model = Model{}
				} else {
					c.model = nil
				}
				st.Paths++
				tp := time.Now()
				ex.runPath(c, fn)
				st.PathTime += time.Since(tp)
				if Tokens != nil {
					<-Tokens
				}
				st.Steps += c.steps
				ex.mu.Lock()
				for k := range c.reached {
					ex.res.Reached[k] = true
				}
				ex.active--
				ex.mu.Unlock()
			}
			ex.mu.Lock()
			for k := range wfuncs {
				ex.res.Funcs[k] = true
			}
			for k := range wdistinct {
				ex.res.Distinct[k] = true
			}
			total.add(&st)
			ex.res.SolverStats.add(&solver.Stats)
			ex.res.Disagree = append(ex.res.Disagree, solver.Disagree...)
			ex.mu.Unlock()
		}()
	}
	wg.Wait()
	ex.res.Stats = total
	ex.res.Complete = complete && total.Unsupported == 0 && total.UnwindExceeded == 0 && total.BudgetCut == 0 && total.EngineErrors == 0
	ex.res.Wall = time.Since(t0)
	return ex.res
}

func (a *Stats) add(b *Stats) {
	a.Paths += b.Paths
	a.Completed += b.Completed
	a.Infeasible += b.Infeasible
	a.Unsupported += b.Unsupported
	a.UnwindExceeded += b.UnwindExceeded
	a.BudgetCut += b.BudgetCut
	a.BoundCut += b.BoundCut
	a.Asserted += b.Asserted
	a.Panicked += b.Panicked
	a.EngineErrors += b.EngineErrors
	a.Obligations += b.Obligations
	a.Discharged += b.Discharged
	a.Inconclusive += b.Inconclusive
	a.FeasQueries += b.FeasQueries
	a.AssertQueries += b.AssertQueries
	a.UnknownBranches += b.UnknownBranches
	a.SyntacticPrunes += b.SyntacticPrunes
	a.Steps += b.Steps
	a.PathTime += b.PathTime
}

func (a *SolverStats) add(b *SolverStats) {
	a.Queries += b.Queries
	a.Unsat += b.Unsat
	a.Sat += b.Sat
	a.Unknown += b.Unknown
	a.CacheHits += b.CacheHits
	a.Errors += b.Errors
	a.Time += b.Time
	if a.BySolver == nil {
		a.BySolver = map[string]int{}
	}
	for k, v := range b.BySolver {
		a.BySolver[k] += v
	}
}

func (ex *Explorer) runPath(c *Ctx, fn *ssa.Function) {
	if pathStatKeys != nil {
		defer func() {
			k := ""
			for _, n := range pathStatKeys {
				if v, ok := c.choices[n]; ok {
					k += fmt.Sprintf("%s=%d ", n, v)
				}
			}
			pathStatMu.Lock()
			pathStats[k]++
			pathStatMu.Unlock()
		}()
	}
	if slowPathMs > 0 {
		t0 := time.Now()
		defer func() {
			if d := time.Since(t0); d > time.Duration(slowPathMs)*time.Millisecond {
				fmt.Fprintf(os.Stderr, "SLOWPATH %s %.1fs choices=%v trace=%v\n", ex.harness, d.Seconds(), c.choices, c.trace)
			}
		}()
	}
	if ex.Conc {
		c.rec = &concRec{syms: map[string]string{}}
	}
	defer func() {
		r := recover()
		if r == nil {
			c.st.Completed++
			if ex.Conc && ex.OnConcPath != nil {
				cp := c.FinishConcPath()
				ex.mu.Lock()
				ex.OnConcPath(cp)
				ex.mu.Unlock()
			}
			return
		}
		if gp, ok := r.(*goPanic); ok {
			if ex.Conc && ex.OnConcPath != nil {
				// the thread body itself panics on this path (after these events)
				cp := c.FinishConcPath()
				cp.Panic = gp.Msg
				ex.mu.Lock()
				ex.OnConcPath(cp)
				ex.mu.Unlock()
				c.st.Completed++
				return
			}
			c.st.Panicked++
			ex.handlePanic(c, gp)
			return
		}
		ex.mu.Lock()
		defer ex.mu.Unlock()
		switch p := r.(type) {
		case *pathAbort:
			ex.res.Aborts[p.Kind]++
			switch p.Kind {
			case "infeasible":
				c.st.Infeasible++
			case "unsupported":
				c.st.Unsupported++
				ex.res.Unsupported[p.Msg]++
			case "unwind":
				c.st.UnwindExceeded++
				ex.res.Unsupported["unwind: "+p.Msg]++
				if ex.Verbose {
					fmt.Fprintf(os.Stderr, "UNWIND %s choices=%v\n", ex.harness, c.choices)
				}
			case "deadlock":
				// the harness blocks forever: a violation, replayed natively against a time limit
				c.st.Panicked++
				site := "?"
				if c.curFrame != nil {
					site = c.curFrame.fn.String()
				}
				ex.mu.Unlock()
				ex.handleDeadlock(c, "deadlock:"+site, p.Msg)
				ex.mu.Lock()
			case "budget":
				c.st.BudgetCut++
				ex.res.Unsupported[p.Kind+": "+p.Msg]++
			case "bound":
				c.st.BoundCut++
				ex.res.Assumptions["outside model/bound: "+p.Msg] = true
			case "asserted":
				c.st.Asserted++
			case "exit":
				c.st.Completed++
			}
		default:
			c.st.EngineErrors++
			msg := fmt.Sprintf("engine error: %v", r)
			st := string(debug.Stack())
			if ex.Verbose {
				msg += "\n" + st
			} else {
				// keep the innermost sym frame for diagnosis
				lines := strings.Split(st, "\n")
				for i, l := range lines {
					if strings.Contains(l, "verif/engine/sym.") && !strings.Contains(l, "runPath") && !strings.Contains(l, "panic") && i+1 < len(lines) {
						msg += " @ " + strings.TrimSpace(lines[i+1])
						break
					}
				}
			}
			ex.res.Unsupported[msg]++
		}
	}()
	for _, ri := range ex.RunInit {
		i := strings.LastIndex(ri, ".init")
		if i < 0 {
			c.unsupported("runinit: bad spec %s", ri)
		}
		pkg := ex.Prog.ImportedPackage(ri[:i])
		if pkg == nil {
			c.unsupported("runinit: package %s not found", ri[:i])
		}
		c.RunInitFunc(pkg, ri[i+1:])
	}
	c.CallFn(fn, nil, nil)
}

// handlePanic: a Go panic escaped the harness. That is a violation of the
// implicit "no panic" obligation unless it lies inside a known region.
func (ex *Explorer) handleDeadlock(c *Ctx, key, msg string) {
	c.st.Obligations++
	ex.noteObligation(c, key, "sat")
	if regions := ex.regionsFor(c, key); len(regions) > 0 {
		for _, r := range regions {
			ex.noteKnown(r.kf, c, c.model)
		}
		return
	}
	m := c.model
	if m == nil {
		_, m, _ = c.S.CheckPC(c.pc, nil, true)
	}
	ex.noteViolation(c, key, "deadlock: "+msg, m)
}

func (ex *Explorer) handlePanic(c *Ctx, p *goPanic) {
	key := "panic:" + p.Kind + "@" + p.Site
	c.st.Obligations++
	regions := ex.regionsFor(c, key)
	ex.noteObligation(c, key, "sat")
	if len(regions) == 0 {
		m := c.model
		if m == nil {
			_, m, _ = c.S.CheckPC(c.pc, nil, true)
		}
		ex.noteViolation(c, key, "Go panic: "+p.Msg, m)
		return
	}
	var q []*Term
	for _, r := range regions {
		q = append(q, Not(r.term))
	}
	res, m, _ := c.S.CheckPC(c.pc, q, true)
	if res == Sat {
		ex.noteViolation(c, key, "Go panic: "+p.Msg, m)
		return
	}
	if res == Unknown {
		ex.noteInconclusive("panic region check unknown for " + key)
	}
	for _, r := range regions {
		r2, m2, _ := c.S.CheckPC(c.pc, []*Term{r.term}, true)
		if r2 == Sat {
			ex.noteKnown(r.kf, c, m2)
		}
	}
}

func f64bits(f float64) uint64 { return math.Float64bits(f) }

func sortedKeys(m map[string]bool) []string {
	var out []string
	for k := range m {
		out = append(out, k)
	}
	sort.Strings(out)
	return out
}
