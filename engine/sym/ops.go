package sym

import (
	"math"
	"fmt"
	"go/token"
	"go/types"
	"math/big"
	"unicode/utf8"

	"golang.org/x/tools/go/ssa"
)

// ---------------------------------------------------------------------------
// Unary operators

func (c *Ctx) unop(in *ssa.UnOp, x Value) Value {
	switch in.Op {
	case token.MUL: // load
		if sp, ok := x.(SymPtr); ok {
			arr := sp.Base.load().(*ArrayVal)
			r := arr.E[sp.Off+sp.N-1].(*Term)
			for k := sp.N - 2; k >= 0; k-- {
				r = Ite(c.idxEq(sp.Idx, k), arr.E[sp.Off+k].(*Term), r)
			}
			return r
		}
		p := x.(Ptr)
		if p.IsNil() {
			c.goPanic("nil", "nil pointer dereference (load)")
		}
		if c.rec != nil {
			if v, ok := c.concLoad(p, in.Type()); ok {
				return v
			}
		}
		return copyVal(p.load())
	case token.NOT:
		return Not(x.(*Term))
	case token.SUB:
		if sv, ok := x.(*StructVal); ok && len(sv.F) == 2 {
			// complex negation
			return &StructVal{F: []Value{FPNeg(sv.F[0].(*Term)), FPNeg(sv.F[1].(*Term))}}
		}
		t := x.(*Term)
		if t.S.K == KFP {
			return FPNeg(t)
		}
		w, s, _ := intInfo(in.X.Type())
		if c.IntMode {
			return c.wrap(INeg(t), w, s, true)
		}
		return BVNeg(t)
	case token.XOR:
		t := x.(*Term)
		w, s, _ := intInfo(in.X.Type())
		if c.IntMode {
			// ^x = -x-1 (signed); 2^w-1-x (unsigned)
			if s {
				return ISub(INeg(t), IntConst64(1))
			}
			return ISub(IntConst(new(big.Int).Sub(pow2(w), big.NewInt(1))), t)
		}
		return BVNot(t)
	case token.ARROW:
		if c.rec != nil {
			c.concEvent(ConcEvent{Kind: "ch_recv", Field: "chan"})
			et := in.X.Type().Underlying().(*types.Chan).Elem()
			if in.CommaOk {
				return TupleVal{c.zero(et), False}
			}
			return c.zero(et)
		}
		ch := x.(*ChanVal)
		if ch == nil {
			c.unsupported("receive from nil channel")
		}
		et := in.X.Type().Underlying().(*types.Chan).Elem()
		var v Value
		ok := false
		if len(ch.Buf) > 0 {
			v, ch.Buf = ch.Buf[0], ch.Buf[1:]
			ok = true
		} else if ch.Closed {
			v = c.zero(et)
		} else {
			c.abort("deadlock", "receive on empty channel would block")
		}
		if in.CommaOk {
			return TupleVal{v, BoolConst(ok)}
		}
		return v
	}
	c.unsupported("unop %s", in.Op)
	return nil
}

// ---------------------------------------------------------------------------
// Binary operators

func (c *Ctx) binop(op token.Token, t types.Type, x, y Value) Value {
	switch op {
	case token.EQL:
		return c.equal(t, x, y)
	case token.NEQ:
		return Not(c.equal(t, x, y))
	}
	switch a := x.(type) {
	case *StrVal:
		b := y.(*StrVal)
		switch op {
		case token.ADD:
			nb := make([]*Term, 0, len(a.B)+len(b.B))
			nb = append(append(nb, a.B...), b.B...)
			return &StrVal{B: nb}
		case token.LSS:
			return c.strLess(a, b, false)
		case token.LEQ:
			return c.strLess(a, b, true)
		case token.GTR:
			return c.strLess(b, a, false)
		case token.GEQ:
			return c.strLess(b, a, true)
		}
	case *Term:
		b := y.(*Term)
		if a.S.K == KBool {
			switch op {
			case token.AND, token.LAND:
				return And(a, b)
			case token.OR, token.LOR:
				return Or(a, b)
			}
		}
		if a.S.K == KFP {
			switch op {
			case token.ADD:
				return FPAdd(a, b)
			case token.SUB:
				return FPSub(a, b)
			case token.MUL:
				return FPMul(a, b)
			case token.QUO:
				return FPDiv(a, b)
			case token.LSS:
				return FPLt(a, b)
			case token.LEQ:
				return FPLe(a, b)
			case token.GTR:
				return FPLt(b, a)
			case token.GEQ:
				return FPLe(b, a)
			}
		}
		if w, s, ok := intInfo(t); ok {
			return c.intBinop(op, a, b, w, s)
		}
	case *StructVal: // complex numbers
		b, ok := y.(*StructVal)
		if ok && len(a.F) == 2 && isComplexT(t) {
			ar, ai, br, bi := a.F[0].(*Term), a.F[1].(*Term), b.F[0].(*Term), b.F[1].(*Term)
			switch op {
			case token.ADD:
				return &StructVal{F: []Value{FPAdd(ar, br), FPAdd(ai, bi)}}
			case token.SUB:
				return &StructVal{F: []Value{FPSub(ar, br), FPSub(ai, bi)}}
			case token.MUL:
				return &StructVal{F: []Value{FPSub(FPMul(ar, br), FPMul(ai, bi)), FPAdd(FPMul(ar, bi), FPMul(ai, br))}}
			case token.QUO:
				// runtime.complex128div: Smith's algorithm. The runtime's C99 Annex G
				// corrections for a NaN+NaNi result (infinite operands) are outside the model.
				c.Ex.noteModel("complex division: Smith's algorithm without the inf/nan corrections of runtime.complex128div")
				big_ := FPLe(FPAbs(bi), FPAbs(br))
				r1 := FPDiv(bi, br)
				d1 := FPAdd(br, FPMul(r1, bi))
				e1 := FPDiv(FPAdd(ar, FPMul(ai, r1)), d1)
				f1 := FPDiv(FPSub(ai, FPMul(ar, r1)), d1)
				r2 := FPDiv(br, bi)
				d2 := FPAdd(bi, FPMul(r2, br))
				e2 := FPDiv(FPAdd(FPMul(ar, r2), ai), d2)
				f2 := FPDiv(FPSub(FPMul(ai, r2), ar), d2)
				return &StructVal{F: []Value{Ite(big_, e1, e2), Ite(big_, f1, f2)}}
			}
		}
	}
	c.unsupported("binop %s on %T (%s)", op, x, t)
	return nil
}

func isComplexT(t types.Type) bool {
	b, ok := t.Underlying().(*types.Basic)
	return ok && b.Info()&types.IsComplex != 0
}

func (c *Ctx) strLess(a, b *StrVal, orEq bool) *Term {
	// lexicographic on bytes, built from the tail
	n := len(a.B)
	if len(b.B) < n {
		n = len(b.B)
	}
	var r *Term
	if orEq {
		r = BoolConst(len(a.B) <= len(b.B))
	} else {
		r = BoolConst(len(a.B) < len(b.B))
	}
	for i := n - 1; i >= 0; i-- {
		var lt *Term
		if c.IntMode {
			lt = ILt(a.B[i], b.B[i])
		} else {
			lt = BVUlt(a.B[i], b.B[i])
		}
		r = Or(lt, And(Eq(a.B[i], b.B[i]), r))
	}
	return r
}

func (c *Ctx) intBinop(op token.Token, a, b *Term, w int, signed bool) Value {
	if c.IntMode {
		return c.intBinopInt(op, a, b, w, signed)
	}
	switch op {
	case token.ADD:
		return BVAdd(a, b)
	case token.SUB:
		return BVSub(a, b)
	case token.MUL:
		return BVMul(a, b)
	case token.QUO:
		c.panicUnless(Not(Eq(b, BVConst64(0, w))), "divide", "integer divide by zero")
		if signed {
			return BVSDiv(a, b)
		}
		return BVUDiv(a, b)
	case token.REM:
		c.panicUnless(Not(Eq(b, BVConst64(0, w))), "divide", "integer divide by zero")
		if signed {
			return BVSRem(a, b)
		}
		return BVURem(a, b)
	case token.AND:
		return BVAnd(a, b)
	case token.OR:
		return BVOr(a, b)
	case token.XOR:
		return BVXor(a, b)
	case token.AND_NOT:
		return BVAnd(a, BVNot(b))
	case token.SHL, token.SHR:
		// shift count b may have a different width/signedness; caller passes it raw.
		cnt := b
		if cnt.S.W != w {
			if cnt.S.W > w {
				// saturate
				big_ := BVUle(BVConst64(int64(w), cnt.S.W), cnt)
				cnt = Ite(big_, BVConst64(int64(w), w), Extract(w-1, 0, cnt))
			} else {
				cnt = ZeroExt(w-cnt.S.W, cnt)
			}
		}
		if op == token.SHL {
			return BVShl(a, cnt)
		}
		if signed {
			return BVAshr(a, cnt)
		}
		return BVLshr(a, cnt)
	case token.LSS:
		if signed {
			return BVSlt(a, b)
		}
		return BVUlt(a, b)
	case token.LEQ:
		if signed {
			return BVSle(a, b)
		}
		return BVUle(a, b)
	case token.GTR:
		if signed {
			return BVSlt(b, a)
		}
		return BVUlt(b, a)
	case token.GEQ:
		if signed {
			return BVSle(b, a)
		}
		return BVUle(b, a)
	}
	c.unsupported("int binop %s", op)
	return nil
}

func (c *Ctx) intBinopInt(op token.Token, a, b *Term, w int, signed bool) Value {
	zero := IntConst64(0)
	switch op {
	case token.ADD:
		return c.wrap(IAdd(a, b), w, signed, true)
	case token.SUB:
		return c.wrap(ISub(a, b), w, signed, true)
	case token.MUL:
		return c.wrap(IMul(a, b), w, signed, false)
	case token.QUO:
		c.panicUnless(Not(Eq(b, zero)), "divide", "integer divide by zero")
		q := Ite(ILe(zero, a), IDiv(a, b), INeg(IDiv(INeg(a), b)))
		return c.wrap(q, w, signed, true)
	case token.REM:
		c.panicUnless(Not(Eq(b, zero)), "divide", "integer divide by zero")
		return Ite(ILe(zero, a), IMod(a, b), INeg(IMod(INeg(a), b)))
	case token.LSS:
		return ILt(a, b)
	case token.LEQ:
		return ILe(a, b)
	case token.GTR:
		return ILt(b, a)
	case token.GEQ:
		return ILe(b, a)
	case token.SHL:
		if k, ok := c.constInt(b, false); ok {
			if k >= int64(w) {
				return zero
			}
			return c.wrap(IMul(a, IntConst(pow2(int(k)))), w, signed, false)
		}
	case token.SHR:
		if k, ok := c.constInt(b, false); ok {
			if k >= int64(w) {
				if signed {
					return Ite(ILt(a, zero), IntConst64(-1), zero)
				}
				return zero
			}
			return IDiv(a, IntConst(pow2(int(k)))) // floor division == arithmetic shift
		}
	case token.AND:
		if a.IsConst() && b.IsConst() {
			return c.mkInt(new(big.Int).And(a.C, b.C), w, signed)
		}
		// x & (2^k-1)
		for _, p := range [][2]*Term{{a, b}, {b, a}} {
			if p[1].IsConst() && p[1].C.Sign() >= 0 {
				m := new(big.Int).Add(p[1].C, big.NewInt(1))
				if m.BitLen() > 0 && new(big.Int).And(m, p[1].C).Sign() == 0 {
					return IMod(p[0], IntConst(m))
				}
			}
		}
	case token.OR:
		if a.IsConst() && b.IsConst() {
			return c.mkInt(new(big.Int).Or(a.C, b.C), w, signed)
		}
		if isZero(a) {
			return b
		}
		if isZero(b) {
			return a
		}
	case token.XOR:
		if a.IsConst() && b.IsConst() {
			return c.mkInt(new(big.Int).Xor(a.C, b.C), w, signed)
		}
	case token.AND_NOT:
		if a.IsConst() && b.IsConst() {
			return c.mkInt(new(big.Int).AndNot(a.C, b.C), w, signed)
		}
	}
	c.unsupported("int-mode binop %s on symbolic operands", op)
	return nil
}

// ---------------------------------------------------------------------------
// Conversions

func (c *Ctx) convert(from, to types.Type, x Value) Value {
	fu, tu := from.Underlying(), to.Underlying()
	// pointers / unsafe
	if _, ok := x.(Ptr); ok {
		return x
	}
	if fw, fs, ok := intInfo(fu); ok {
		t := x.(*Term)
		if tw, ts, ok2 := intInfo(tu); ok2 {
			return c.convInt(t, fw, fs, tw, ts)
		}
		if isFloat(tu) {
			if c.IntMode {
				return FPFromInt(t)
			}
			return FPFromBV(t, fs)
		}
		if isString(tu) { // string(rune)
			r := c.convInt(t, fw, fs, 32, true)
			return &StrVal{B: c.encodeRune(r)}
		}
		if tb, ok := tu.(*types.Basic); ok && tb.Kind() == types.UnsafePointer {
			c.unsupported("integer to unsafe.Pointer")
		}
	}
	if isFloat(fu) {
		t := x.(*Term)
		if isFloat(tu) {
			if b := tu.(*types.Basic); b.Kind() == types.Float32 {
				c.unsupported("float32 conversion")
			}
			return t
		}
		if tw, ts, ok := intInfo(tu); ok {
			if c.IntMode {
				if t.IsConst() && ts && tw == 64 && !math.IsNaN(t.F) && t.F >= -9223372036854775808.0 && t.F < 9223372036854775808.0 {
					return c.mkInt64(int64(t.F), 64, true) // a constant in range: computed
				}
				c.unsupported("float to int conversion in int mode")
			}
			r := FPToBV(t, tw, ts)
			if ts && tw == 64 {
				// amd64: out of range / NaN gives 0x8000000000000000
				lo := FPConst(-9223372036854775808.0)
				hi := FPConst(9223372036854775808.0)
				inr := And(FPLe(lo, t), FPLt(t, hi))
				return Ite(inr, r, BVConst(new(big.Int).Lsh(big.NewInt(1), 63), 64))
			}
			return r
		}
	}
	if s, ok := x.(*StrVal); ok {
		if isString(tu) {
			return x
		}
		if sl, ok := tu.(*types.Slice); ok {
			ew, _, _ := intInfo(sl.Elem())
			if ew == 8 {
				a := &ArrayVal{E: make([]Value, len(s.B))}
				for i, b := range s.B {
					a.E[i] = b
				}
				return SliceVal{Base: Ptr{C: c.newCell(a, "bytes")}, Len: len(s.B), Cap: len(s.B)}
			}
			if ew == 32 { // []rune(s)
				var rs []Value
				for i := 0; i < len(s.B); {
					r, n := c.decodeRune(s.B[i:])
					rs = append(rs, r)
					i += n
				}
				a := &ArrayVal{E: rs}
				return SliceVal{Base: Ptr{C: c.newCell(a, "runes")}, Len: len(rs), Cap: len(rs)}
			}
		}
	}
	if sv, ok := x.(SliceVal); ok {
		if isString(tu) {
			sl := fu.(*types.Slice)
			ew, _, _ := intInfo(sl.Elem())
			var bs []*Term
			for i := 0; i < sv.Len; i++ {
				e := sv.get(i).(*Term)
				if ew == 8 {
					bs = append(bs, e)
				} else {
					bs = append(bs, c.encodeRune(e)...)
				}
			}
			return &StrVal{B: bs}
		}
		return x
	}
	if isComplexT(fu) && isComplexT(tu) {
		return x
	}
	c.unsupported("conversion %s -> %s (%T)", from, to, x)
	return nil
}

func (c *Ctx) convInt(t *Term, fw int, fs bool, tw int, ts bool) *Term {
	if !c.IntMode {
		return Resize(t, tw, fs)
	}
	if t.IsConst() {
		return c.mkInt(t.C, tw, ts)
	}
	// identity when source range ⊆ target range
	if fs == ts && fw <= tw {
		return t
	}
	if !fs && ts && fw < tw {
		return t
	}
	return c.wrap(t, tw, ts, fw <= tw)
}

// ---------------------------------------------------------------------------
// UTF-8

func (c *Ctx) r32(v int64) *Term { return c.mkInt64(v, 32, true) }

func (c *Ctx) byteIn(b *Term, lo, hi int) *Term {
	if c.IntMode {
		return And(ILe(IntConst64(int64(lo)), b), ILe(b, IntConst64(int64(hi))))
	}
	return And(BVUle(BVConst64(int64(lo), 8), b), BVUle(b, BVConst64(int64(hi), 8)))
}

// lowBits returns (b & (2^k-1)) as an int32-typed term.
func (c *Ctx) lowBits(b *Term, k int) *Term {
	if c.IntMode {
		return IMod(b, IntConst(pow2(k)))
	}
	return ZeroExt(32-k, Extract(k-1, 0, b))
}

func (c *Ctx) shl32(t *Term, k int) *Term {
	if c.IntMode {
		return IMul(t, IntConst(pow2(k)))
	}
	return BVShl(t, BVConst64(int64(k), 32))
}

func (c *Ctx) or32(a, b *Term) *Term {
	if c.IntMode {
		return IAdd(a, b)
	}
	return BVOr(a, b)
}

// decodeRune mirrors unicode/utf8.DecodeRune on possibly symbolic bytes;
// forks on the encoding class.
func (c *Ctx) decodeRune(b []*Term) (*Term, int) {
	if len(b) == 0 {
		return c.r32(utf8.RuneError), 0
	}
	// fully concrete prefix: use the library
	var buf []byte
	for i := 0; i < len(b) && i < 4; i++ {
		if !b[i].IsConst() {
			break
		}
		buf = append(buf, byte(b[i].C.Uint64()))
	}
	if len(buf) > 0 && (len(buf) == 4 || len(buf) == len(b) || utf8.FullRune(buf)) {
		r, n := utf8.DecodeRune(buf)
		return c.r32(int64(r)), n
	}
	if len(buf) > 0 && buf[0] < 0x80 {
		return c.r32(int64(buf[0])), 1
	}
	bad := func() (*Term, int) { return c.r32(utf8.RuneError), 1 }
	b0 := b[0]
	if c.decide(c.byteIn(b0, 0, 0x7f)) {
		if c.IntMode {
			return b0, 1
		}
		return ZeroExt(24, b0), 1
	}
	if c.decide(c.byteIn(b0, 0xC2, 0xDF)) {
		if len(b) < 2 || !c.decide(c.byteIn(b[1], 0x80, 0xBF)) {
			return bad()
		}
		return c.or32(c.shl32(c.lowBits(b0, 5), 6), c.lowBits(b[1], 6)), 2
	}
	if c.decide(c.byteIn(b0, 0xE0, 0xEF)) {
		if len(b) < 2 {
			return bad()
		}
		// second byte range depends on b0
		lo, hi := 0x80, 0xBF
		if c.decide(c.byteIn(b0, 0xE0, 0xE0)) {
			lo = 0xA0
		} else if c.decide(c.byteIn(b0, 0xED, 0xED)) {
			hi = 0x9F
		}
		if !c.decide(c.byteIn(b[1], lo, hi)) {
			return bad()
		}
		if len(b) < 3 || !c.decide(c.byteIn(b[2], 0x80, 0xBF)) {
			return bad()
		}
		return c.or32(c.or32(c.shl32(c.lowBits(b0, 4), 12), c.shl32(c.lowBits(b[1], 6), 6)), c.lowBits(b[2], 6)), 3
	}
	if c.decide(c.byteIn(b0, 0xF0, 0xF4)) {
		if len(b) < 2 {
			return bad()
		}
		lo, hi := 0x80, 0xBF
		if c.decide(c.byteIn(b0, 0xF0, 0xF0)) {
			lo = 0x90
		} else if c.decide(c.byteIn(b0, 0xF4, 0xF4)) {
			hi = 0x8F
		}
		if !c.decide(c.byteIn(b[1], lo, hi)) {
			return bad()
		}
		if len(b) < 3 || !c.decide(c.byteIn(b[2], 0x80, 0xBF)) {
			return bad()
		}
		if len(b) < 4 || !c.decide(c.byteIn(b[3], 0x80, 0xBF)) {
			return bad()
		}
		r := c.or32(c.shl32(c.lowBits(b0, 3), 18), c.shl32(c.lowBits(b[1], 6), 12))
		r = c.or32(r, c.or32(c.shl32(c.lowBits(b[2], 6), 6), c.lowBits(b[3], 6)))
		return r, 4
	}
	return bad()
}

func (c *Ctx) runeIn(r *Term, lo, hi int64) *Term {
	if c.IntMode {
		return And(ILe(IntConst64(lo), r), ILe(r, IntConst64(hi)))
	}
	return And(BVSle(BVConst64(lo, 32), r), BVSle(r, BVConst64(hi, 32)))
}

// bitsOf extracts bits [lo, lo+k) of an int32 rune as a byte-typed term, OR-ed with prefix.
func (c *Ctx) runeBits(r *Term, lo, k int, prefix int64) *Term {
	if c.IntMode {
		v := IMod(IDiv(r, IntConst(pow2(lo))), IntConst(pow2(k)))
		return IAdd(v, IntConst64(prefix))
	}
	v := Extract(lo+k-1, lo, r)
	return BVOr(ZeroExt(8-k, v), BVConst64(prefix, 8))
}

// encodeRune mirrors utf8.EncodeRune / string(rune) on a possibly symbolic rune.
func (c *Ctx) encodeRune(r *Term) []*Term {
	if v, ok := c.constInt(r, true); ok {
		var buf [4]byte
		rr := rune(v)
		if v < 0 || v > 0x10FFFF {
			rr = utf8.RuneError
		}
		n := utf8.EncodeRune(buf[:], rr)
		out := make([]*Term, n)
		for i := 0; i < n; i++ {
			out[i] = c.byteT(buf[i])
		}
		return out
	}
	if c.decide(c.runeIn(r, 0, 0x7f)) {
		return []*Term{c.runeBits(r, 0, 7, 0)}
	}
	if c.decide(c.runeIn(r, 0x80, 0x7ff)) {
		return []*Term{c.runeBits(r, 6, 5, 0xC0), c.runeBits(r, 0, 6, 0x80)}
	}
	if c.decide(Or(c.runeIn(r, 0x800, 0xD7FF), c.runeIn(r, 0xE000, 0xFFFF))) {
		return []*Term{c.runeBits(r, 12, 4, 0xE0), c.runeBits(r, 6, 6, 0x80), c.runeBits(r, 0, 6, 0x80)}
	}
	if c.decide(c.runeIn(r, 0x10000, 0x10FFFF)) {
		return []*Term{c.runeBits(r, 18, 3, 0xF0), c.runeBits(r, 12, 6, 0x80), c.runeBits(r, 6, 6, 0x80), c.runeBits(r, 0, 6, 0x80)}
	}
	return []*Term{c.byteT(0xEF), c.byteT(0xBF), c.byteT(0xBD)}
}

// ---------------------------------------------------------------------------
// Builtins

func (c *Ctx) callBuiltin(b *ssa.Builtin, args []Value, call *ssa.CallCommon) Value {
	switch b.Name() {
	case "len":
		switch x := args[0].(type) {
		case *StrVal:
			return c.goInt(int64(len(x.B)))
		case SliceVal:
			return c.goInt(int64(x.Len))
		case *MapVal:
			if x == nil {
				return c.goInt(0)
			}
			return c.goInt(int64(len(x.Keys)))
		case *ArrayVal:
			return c.goInt(int64(len(x.E)))
		case Ptr:
			return c.goInt(int64(len(x.load().(*ArrayVal).E)))
		case *ChanVal:
			if x == nil {
				return c.goInt(0)
			}
			return c.goInt(int64(len(x.Buf)))
		}
	case "cap":
		switch x := args[0].(type) {
		case SliceVal:
			return c.goInt(int64(x.Cap))
		case *ArrayVal:
			return c.goInt(int64(len(x.E)))
		case Ptr:
			return c.goInt(int64(len(x.load().(*ArrayVal).E)))
		}
	case "append":
		s := args[0].(SliceVal)
		var elems []Value
		switch e := args[1].(type) {
		case SliceVal:
			for i := 0; i < e.Len; i++ {
				elems = append(elems, e.get(i))
			}
		case *StrVal:
			for _, bb := range e.B {
				elems = append(elems, bb)
			}
		}
		if len(elems) == 0 {
			return s
		}
		var et types.Type
		if call != nil {
			et = call.Args[0].Type().Underlying().(*types.Slice).Elem()
		}
		return c.appendSlice(s, elems, et)
	case "copy":
		d := args[0].(SliceVal)
		var src []Value
		switch e := args[1].(type) {
		case SliceVal:
			for i := 0; i < e.Len; i++ {
				src = append(src, e.get(i))
			}
		case *StrVal:
			for _, bb := range e.B {
				src = append(src, bb)
			}
		}
		n := len(src)
		if d.Len < n {
			n = d.Len
		}
		for i := 0; i < n; i++ {
			d.elemPtr(i).store(copyVal(src[i]))
		}
		return c.goInt(int64(n))
	case "delete":
		m := args[0].(*MapVal)
		if m != nil {
			c.mapDelete(m, args[1])
		}
		return nil
	case "clear":
		switch x := args[0].(type) {
		case SliceVal:
			if x.Len > 0 {
				var et types.Type
				if call != nil {
					et = call.Args[0].Type().Underlying().(*types.Slice).Elem()
				}
				for i := 0; i < x.Len; i++ {
					if et != nil {
						x.elemPtr(i).store(c.zero(et))
					} else {
						x.elemPtr(i).store(zeroLike(x.get(i)))
					}
				}
			}
			return nil
		case *MapVal:
			if x != nil {
				x.Keys, x.Vals = nil, nil
			}
			return nil
		}
	case "close":
		if c.rec != nil {
			c.concEvent(ConcEvent{Kind: "ch_close", Field: "chan"})
			return nil
		}
		ch := args[0].(*ChanVal)
		if ch == nil {
			c.goPanic("chan", "close of nil channel")
		}
		if ch.Closed {
			c.goPanic("chan", "close of closed channel")
		}
		ch.Closed = true
		return nil
	case "recover":
		fr := c.curFrame
		if fr != nil && fr.caller != nil && fr.caller.panicking != nil {
			p := fr.caller.panicking
			fr.caller.panicking = nil
			c.Ex.noteRecovered(p)
			return p.V
		}
		return Iface{}
	case "print", "println":
		return nil
	case "min", "max":
		r := args[0].(*Term)
		t := call.Args[0].Type()
		for _, a := range args[1:] {
			var lt *Term
			if b.Name() == "min" {
				lt = c.binop(token.LSS, t, a, r).(*Term)
			} else {
				lt = c.binop(token.LSS, t, r, a).(*Term)
			}
			r = Ite(lt, a.(*Term), r)
		}
		return r
	case "real":
		return args[0].(*StructVal).F[0]
	case "imag":
		return args[0].(*StructVal).F[1]
	case "complex":
		return &StructVal{F: []Value{args[0], args[1]}}
	case "ssa:wrapnilchk":
		if p, ok := args[0].(Ptr); ok && p.IsNil() {
			c.goPanic("nil", "value method called using nil pointer")
		}
		return args[0]
	}
	c.unsupported("builtin %s on %T", b.Name(), args[0])
	return nil
}

func (c *Ctx) appendSlice(s SliceVal, elems []Value, et types.Type) SliceVal {
	need := s.Len + len(elems)
	if !s.Nil && need <= s.Cap {
		for i, e := range elems {
			s.Base.sub(s.Off + s.Len + i).store(copyVal(e))
		}
		return SliceVal{Base: s.Base, Off: s.Off, Len: need, Cap: s.Cap}
	}
	ncap := 2 * s.Cap
	if ncap < need {
		ncap = need
	}
	a := &ArrayVal{E: make([]Value, ncap)}
	for i := 0; i < s.Len; i++ {
		a.E[i] = copyVal(s.get(i))
	}
	for i, e := range elems {
		a.E[s.Len+i] = copyVal(e)
	}
	if ncap > need {
		var z Value
		if et != nil {
			z = c.zero(et)
		} else {
			z = zeroLike(elems[0])
		}
		for i := need; i < ncap; i++ {
			a.E[i] = copyVal(z)
		}
	}
	return SliceVal{Base: Ptr{C: c.newCell(a, "append")}, Off: 0, Len: need, Cap: ncap}
}

func zeroLike(v Value) Value {
	switch x := v.(type) {
	case *Term:
		return zeroOf(x.S)
	case *StrVal:
		return &StrVal{}
	case Ptr:
		return Ptr{}
	case Iface:
		return Iface{}
	case SliceVal:
		return SliceVal{Nil: true}
	case *MapVal:
		return (*MapVal)(nil)
	case *FuncVal:
		return (*FuncVal)(nil)
	}
	panic(fmt.Sprintf("engine: zeroLike %T", v))
}
